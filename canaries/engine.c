/* Canaries: tiny positive / negative examples compiled through the same pipeline as the library on every
 * run, so that a rule whose expected count on the repository is zero cannot go vacuous, and so that the
 * accepted idioms are known to stay silent.  Expectations are in cstlsa/canaries.py. */
#include <stddef.h>
#include <stdint.h>
#include <stdlib.h>

/* ---- no-wrap rule ----------------------------------------------------------------------------- */
void * nw_mul_unguarded(size_t n, size_t sz) { return malloc(n * sz); }
void * nw_mul_guarded(size_t n, size_t sz)
{
    if (sz != 0 && n > SIZE_MAX / sz) { return NULL; }
    return malloc(n * sz);
}
void * nw_mul_guarded_le(size_t n, size_t sz)
{
    if (sz > 0 && n <= SIZE_MAX / sz) { return malloc(n * sz); }
    return NULL;
}
void * nw_inc_unguarded(size_t n) { return malloc(n + 1); }
void * nw_inc_guarded(size_t n) { if (n == SIZE_MAX) { abort(); } return malloc(n + 1); }
void * nw_inc_guarded_lt(size_t n) { if (n < SIZE_MAX) { return malloc(n + 1); } return NULL; }
void * nw_hdr_wrong_guard(size_t n, size_t sz)
{
    if (sz != 0 && n > SIZE_MAX / sz) { return NULL; }
    return malloc(24 + n * sz);
}
void * nw_hdr_right_guard(size_t n, size_t sz)
{
    if (sz != 0 && n > (SIZE_MAX - 24) / sz) { return NULL; }
    return malloc(24 + n * sz);
}
void * nw_sum_guarded(size_t a, size_t b) { if (b > SIZE_MAX - a) { abort(); } return malloc(a + b); }
void * nw_sum_unguarded(size_t a, size_t b) { return malloc(a + b); }
void * nw_const_mul_guarded(size_t n) { if (n <= SIZE_MAX / 16) { return malloc(16 * n); } return NULL; }

/* ---- hand-off rule ------------------------------------------------------------------------------ */
struct cn { struct cn * next; int v; };
typedef void cb_t(void *, void *);
void ho_bad(struct cn * h, cb_t * cb) { while (h != NULL) { cb(h, NULL); h = h->next; } }
void ho_good(struct cn * h, cb_t * cb) { while (h != NULL) { struct cn * const n = h->next; cb(h, NULL); h = n; } }

/* ---- allocator discipline ------------------------------------------------------------------------ */
struct box { int * p; size_t n; };
void al_bad(struct box * b, size_t n) { int * p = malloc(n); p[0] = 0; b->p = p; b->n = n; }
void al_good(struct box * b, size_t n) { int * p = malloc(n); if (p != NULL) { p[0] = 0; b->p = p; b->n = n; } }
void al_commit_on_failure(struct box * b, size_t n) { int * p = realloc(b->p, n); if (p != NULL) { b->p = p; } b->n = n; }

/* ---- checked-arithmetic builtins ------------------------------------------------------------------ */
void * nw_builtin_checked(size_t n, size_t sz)
{
    size_t bytes;
    if (__builtin_mul_overflow(n, sz, &bytes)) { return NULL; }
    return malloc(bytes);
}
void * nw_builtin_flag_ignored(size_t n, size_t sz)
{
    size_t bytes;
    (void)__builtin_mul_overflow(n, sz, &bytes);
    return malloc(bytes);
}

/* ---- compute-then-check; guards whose outcomes merge again; decrementing loops ---------------------- */
void * nw_compute_then_check(size_t n, size_t sz)
{
    const size_t bytes = n * sz;
    if (sz != 0 && bytes / sz != n) { return NULL; }
    return malloc(bytes);
}
void * nw_compute_then_check_wrong(size_t n, size_t sz)
{
    const size_t bytes = n * sz;
    if (sz != 0 && bytes / sz != sz) { return NULL; }      /* compares with the wrong operand */
    return malloc(bytes);
}
void * nw_reject_form(size_t n, size_t sz)
{
    if (sz == 0 || n >= SIZE_MAX / sz) { return NULL; }
    return malloc((n + 1) * sz);
}

