"""Seeded-fault and benign-variant tables for the checker's two-way test (DESIGN.md 6).

Each entry: id, kind ('fault' must be reported by `rule`, 'benign' must stay silent),
edits [(file, old text, new text)].  Text anchors, not line numbers: an entry whose anchor no
longer occurs in the current tree is skipped and listed, never counted.
"""

import os
M = {}

# ------------------------------------------------------------------------------------------- C17
M['C17'] = [
    dict(id='c17-no-range-check', kind='fault', rule='B1', edits=[
        ('src/hash.c', '    if (i >= count) {\n        abort();\n    }\n    return &h->bucket.at[i];', '    return &h->bucket.at[i];')]),
    dict(id='c17-off-by-one', kind='fault', rule='B1', edits=[
        ('src/hash.c', '    if (i >= count) {\n        abort();', '    if (i > count) {\n        abort();')]),
    dict(id='c17-compare-capacity', kind='fault', rule='B1', edits=[
        ('src/hash.c', '    if (i >= count) {\n        abort();', '    if (i >= h->bucket.capacity) {\n        abort();')]),
    dict(id='c17-return-null-instead-of-abort', kind='fault', rule='B1', edits=[
        ('src/hash.c', '    if (i >= count) {\n        abort();\n    }', '    if (i >= count) {\n        return &h->bucket.at[0];\n    }')]),
    dict(id='c17-second-unchecked-call', kind='fault', rule=['B1', 'B2'], edits=[
        ('src/hash.c', '    struct cstl_hash_bucket * const bk = cstl_hash_get_bucket(h, k);\n    struct cstl_hash_node * const hn = __cstl_hash_node(h, e);',
         '    struct cstl_hash_bucket * const bk = (cstl_hash_get_bucket(h, k), &h->bucket.at[h->bucket.hash(k, h->bucket.count)]);\n    struct cstl_hash_node * const hn = __cstl_hash_node(h, e);')]),
    dict(id='c17-benign-inverted-branch', kind='benign', edits=[
        ('src/hash.c', '    if (i >= count) {\n        abort();\n    }\n    return &h->bucket.at[i];', '    if (i < count) {\n        return &h->bucket.at[i];\n    }\n    abort();')]),
    dict(id='c17-benign-rename-helper', kind='benign', edits=[
        ('src/hash.c', 'static struct cstl_hash_bucket * __cstl_hash_get_bucket(\n    struct cstl_hash * const h, const size_t k,\n    cstl_hash_func_t * const hash, const size_t count)\n{\n    const size_t i = hash(k, count);',
         'static struct cstl_hash_bucket * __cstl_hash_get_bucket(\n    struct cstl_hash * const h, const size_t key,\n    cstl_hash_func_t * const hfn, const size_t nbuckets)\n{\n    const size_t count = nbuckets;\n    const size_t i = hfn(key, count);')]),
]

# ------------------------------------------------------------------------------------------- C18
M['C18'] = [
    dict(id='c18-nonstatic-helper-hash', kind='fault', rule='H1', edits=[
        ('include/cstl/hash.h', 'static inline size_t cstl_hash_size(', 'size_t cstl_hash_size(')]),
    dict(id='c18-nonstatic-inline-vector', kind='fault', rule='H1', edits=[
        ('include/cstl/vector.h', 'static inline size_t cstl_vector_size(', 'inline size_t cstl_vector_size(')]),
    dict(id='c18-missing-definition', kind='fault', rule='H2', edits=[
        ('src/vector.c', 'void cstl_vector_shrink_to_fit(struct cstl_vector * const v)', 'static void cstl_vector_shrink_to_fit_(struct cstl_vector * const v)')]),
    dict(id='c18-missing-include', kind='fault', rule='H3', edits=[
        ('include/cstl/map.h', '#include "cstl/rbtree.h"', ''),
        ('src/map.c', '#include "cstl/map.h"', '#include "cstl/rbtree.h"\n#include "cstl/map.h"')]),
    dict(id='c18-no-include-guard', kind='fault', rule='H3', edits=[
        ('include/cstl/dlist.h', '#ifndef CSTL_DLIST_H\n#define CSTL_DLIST_H', ''),
        ('include/cstl/dlist.h', '/*!\n * @}\n */\n\n#endif', '/*!\n * @}\n */\n')]),
    dict(id='c18-header-variable-definition', kind='fault', rule='H1', edits=[
        ('include/cstl/slist.h', '#include "cstl/common.h"', '#include "cstl/common.h"\nint cstl_slist_debug_level;')]),
]

# ------------------------------------------------------------------------------------------- C20
M['C20'] = [
    dict(id='c20-release-reads-ptr-directly', kind='fault', rule=['G1', 'G4'], edits=[
        ('include/cstl/memory.h', '    void * const p = cstl_unique_ptr_get(up);\n    if (clr != NULL) {', '    void * const p = up->gp.ptr;\n    if (clr != NULL) {')]),
    dict(id='c20-setter-no-self-stamp', kind='fault', rule='G3', edits=[
        ('include/cstl/memory.h', '    gp->ptr = ptr;\n    gp->self = gp;', '    gp->ptr = ptr;')]),
    dict(id='c20-share-without-reset', kind='fault', rule='G4', site='cstl_shared_ptr_share', edits=[
        ('src/memory.c', '    cstl_shared_ptr_reset(n);\n    cstl_guarded_ptr_copy(&n->data, &e->data);', '    cstl_guarded_ptr_copy(&n->data, &e->data);')]),
    dict(id='c20-lock-without-reset', kind='fault', rule='G4', site='cstl_weak_ptr_lock', edits=[
        ('src/memory.c', '    cstl_shared_ptr_reset(sp);\n    cstl_guarded_ptr_copy(&sp->data, &wp->data);', '    cstl_guarded_ptr_copy(&sp->data, &wp->data);')]),
    dict(id='c20-getter-null-first', kind='fault', rule='G2', edits=[
        ('include/cstl/memory.h', '    if (gp->self != gp) {\n        abort();\n    }\n    return gp->ptr;', '    if (gp->ptr == NULL) {\n        return NULL;\n    }\n    if (gp->self != gp) {\n        abort();\n    }\n    return gp->ptr;')]),
    dict(id='c20-getter-only-nonnull', kind='fault', rule='G2', edits=[
        ('include/cstl/memory.h', '    if (gp->self != gp) {\n        abort();\n    }\n    return gp->ptr;', '    if (gp->self != gp && gp->ptr != NULL) {\n        abort();\n    }\n    return gp->ptr;')]),
    dict(id='c20-slice-struct-assign', kind='fault', rule='G5', edits=[
        ('src/array.c', '    s->off = a->off + beg;\n    s->len = end - beg;\n    if (a != s) {\n        cstl_shared_ptr_share(&a->ptr, &s->ptr);\n    }',
         '    if (a != s) {\n        cstl_array_reset(s);\n        *s = *a;\n        cstl_shared_ptr_share(&a->ptr, &s->ptr);\n    }\n    s->off = a->off + beg;\n    s->len = end - beg;')]),
    dict(id='c20-array-reset-inits-first', kind='fault', rule='G4', site='cstl_array_alloc', edits=[
        ('src/array.c', '    cstl_array_reset(a);\n    if (sz != 0', '    if (nm == 0) {\n        cstl_shared_ptr_init(&a->ptr);\n    }\n    cstl_array_reset(a);\n    if (sz != 0')]),
    dict(id='c20-benign-getter-inverted', kind='benign', edits=[
        ('include/cstl/memory.h', '    if (gp->self != gp) {\n        abort();\n    }\n    return gp->ptr;', '    if (gp->self == gp) {\n        return gp->ptr;\n    }\n    abort();')]),
    dict(id='c20-benign-swap-order', kind='benign', edits=[
        ('include/cstl/memory.h', '    void * const t = cstl_guarded_ptr_get(a);\n    cstl_guarded_ptr_set(a, cstl_guarded_ptr_get(b));\n    cstl_guarded_ptr_set(b, t);',
         '    void * const u = cstl_guarded_ptr_get(b);\n    void * const t = cstl_guarded_ptr_get(a);\n    cstl_guarded_ptr_set(b, t);\n    cstl_guarded_ptr_set(a, u);')]),
    dict(id='c20-benign-helper-extraction', kind='benign', edits=[
        ('src/memory.c', 'void cstl_shared_ptr_reset(cstl_shared_ptr_t * const sp)\n{\n    struct cstl_shared_ptr_data * const data =\n        cstl_guarded_ptr_get(&sp->data);',
         'static struct cstl_shared_ptr_data * sp_data(cstl_shared_ptr_t * const sp)\n{\n    return cstl_guarded_ptr_get(&sp->data);\n}\n\nvoid cstl_shared_ptr_reset(cstl_shared_ptr_t * const sp)\n{\n    struct cstl_shared_ptr_data * const data = sp_data(sp);')]),
]

# ------------------------------------------------------------------------------------------- C09
_VGUARD = '''    if (sz < SIZE_MAX
        && v->elem.size > 0
        && sz + 1 <= SIZE_MAX / v->elem.size) {
        e = realloc(v->elem.base, (sz + 1) * v->elem.size);
        if (e != NULL) {
            v->elem.base = e;
            v->cap = sz;
        }
    } /* else, the number of bytes can't be represented */'''
M['C09'] = [
    dict(id='c09-benign-swap-memberwise-complete', kind='benign', rule='V8', edits=[
        ('src/vector.c', '    struct cstl_vector t;\n    cstl_swap(a, b, &t, sizeof(t));', '    struct cstl_vector t;\n    cstl_swap(&a->elem, &b->elem, &t.elem, sizeof(t.elem));\n    cstl_swap(&a->count, &b->count, &t.count, sizeof(t.count));\n    cstl_swap(&a->cap, &b->cap, &t.cap, sizeof(t.cap));')]),
    dict(id='c09-swap-forgets-capacity', kind='fault', rule='V8', edits=[
        ('src/vector.c', '    struct cstl_vector t;\n    cstl_swap(a, b, &t, sizeof(t));', '    struct cstl_vector t;\n    cstl_swap(&a->elem, &b->elem, &t.elem, sizeof(t.elem));\n    cstl_swap(&a->count, &b->count, &t.count, sizeof(t.count));')]),
    dict(id='c09-revert-fix-unguarded-size', kind='fault', rule='V1', edits=[
        ('src/vector.c', _VGUARD, '    e = realloc(v->elem.base, (sz + 1) * v->elem.size);\n    if (e != NULL) {\n        v->elem.base = e;\n        v->cap = sz;\n    }')]),
    dict(id='c09-guard-misses-sz-max', kind='fault', rule='V1', edits=[
        ('src/vector.c', '    if (sz < SIZE_MAX\n        && v->elem.size > 0', '    if (v->elem.size > 0')]),
    dict(id='c09-guard-wrong-divisor', kind='fault', rule='V1', edits=[
        ('src/vector.c', '&& sz + 1 <= SIZE_MAX / v->elem.size) {', '&& sz <= SIZE_MAX / 2) {')]),
    dict(id='c09-cap-committed-on-failure', kind='fault', rule='V2', edits=[
        ('src/vector.c', '        if (e != NULL) {\n            v->elem.base = e;\n            v->cap = sz;\n        }', '        if (e != NULL) {\n            v->elem.base = e;\n        }\n        v->cap = sz;')]),
    dict(id='c09-realloc-from-null', kind='fault', rule='V2', edits=[
        ('src/vector.c', 'e = realloc(v->elem.base, (sz + 1) * v->elem.size);', 'e = realloc(NULL, (sz + 1) * v->elem.size);')]),
    dict(id='c09-at-off-by-one', kind='fault', rule='V3', edits=[
        ('src/vector.c', '    if (i >= v->count) {\n        abort();', '    if (i > v->count) {\n        abort();')]),
    dict(id='c09-at-checks-capacity', kind='fault', rule='V3', edits=[
        ('src/vector.c', '    if (i >= v->count) {\n        abort();', '    if (i >= v->cap) {\n        abort();')]),
    dict(id='c09-resize-no-abort', kind='fault', rule='V4', edits=[
        ('src/vector.c', '    if (v->cap < sz) {\n', '    if (0 && v->cap < sz) {\n')]),
    dict(id='c09-resize-returns-instead-of-abort', kind='fault', rule='V4', edits=[
        ('src/vector.c', '        abort(); // GCOV_EXCL_LINE', '        v->count = v->cap; return;')]),
    dict(id='c09-no-scratch-element', kind='fault', rule='V7', edits=[
        ('src/vector.c', '&& sz + 1 <= SIZE_MAX / v->elem.size) {\n        e = realloc(v->elem.base, (sz + 1) * v->elem.size);', '&& sz + 1 <= SIZE_MAX / v->elem.size) {\n        e = realloc(v->elem.base, (sz ? sz : 1) * v->elem.size);')]),
    dict(id='c09-scratch-at-count', kind='fault', rule='V7', edits=[
        ('src/vector.c', '        swap, __cstl_vector_at(v, v->cap),\n        algo);', '        swap, __cstl_vector_at(v, v->count),\n        algo);')]),
    dict(id='c09-benign-guard-reordered', kind='benign', edits=[
        ('src/vector.c', '    if (sz < SIZE_MAX\n        && v->elem.size > 0\n        && sz + 1 <= SIZE_MAX / v->elem.size) {', '    if (v->elem.size != 0 && sz != SIZE_MAX && (sz + 1) <= SIZE_MAX / v->elem.size) {')]),
    dict(id='c09-benign-early-return', kind='benign', edits=[
        ('src/vector.c', _VGUARD, '    if (sz == SIZE_MAX || v->elem.size == 0) {\n        return;\n    }\n    if (sz + 1 > SIZE_MAX / v->elem.size) {\n        return;\n    }\n    e = realloc(v->elem.base, (sz + 1) * v->elem.size);\n    if (e == NULL) {\n        return;\n    }\n    v->elem.base = e;\n    v->cap = sz;')]),
    dict(id='c09-benign-at-negated', kind='benign', edits=[
        ('src/vector.c', '    if (i >= v->count) {\n        abort();\n    }\n\n    return __cstl_vector_at(v, i);', '    if (i < v->count) {\n        return __cstl_vector_at(v, i);\n    }\n    abort();')]),
    dict(id='c09-benign-setter-inlined-by-hand', kind='benign', edits=[
        ('src/vector.c', '    if (sz > v->cap) {\n        cstl_vector_set_capacity(v, sz);\n    }', '    if (sz > v->cap && sz < SIZE_MAX && v->elem.size > 0 && sz + 1 <= SIZE_MAX / v->elem.size) {\n        void * const e = realloc(v->elem.base, (sz + 1) * v->elem.size);\n        if (e != NULL) {\n            v->elem.base = e;\n            v->cap = sz;\n        }\n    }')]),
]

# ------------------------------------------------------------------------------------------- C10
M['C10'] = [
    dict(id='c10-revert-clamp', kind='fault', rule='T1', edits=[
        ('src/_string.c', '    if (*len > size - pos) {', '    if (pos + *len > size) {')]),
    dict(id='c10-revert-insert-growth-check', kind='fault', rule='T1', edits=[
        ('src/_string.c', '        if (len > SIZE_MAX - size) {\n            abort();\n        }\n', '')]),
    dict(id='c10-revert-resize-max-check', kind='fault', rule='T1', edits=[
        ('src/_string.c', '    if (n == SIZE_MAX) {\n        /* no room for the nul */\n        abort();\n    }\n', '')]),
    dict(id='c10-no-terminator', kind='fault', rule='T2', edits=[
        ('src/_string.c', '    cstl_vector_resize(&s->v, n + 1);\n    *STRF(__at, s, n) = STRV(nul);', '    cstl_vector_resize(&s->v, n + 1);')]),
    dict(id='c10-terminator-only-when-growing', kind='fault', rule='T2', edits=[
        ('src/_string.c', '    cstl_vector_resize(&s->v, n + 1);\n    *STRF(__at, s, n) = STRV(nul);', '    const size_t old = STRF(size, s);\n    cstl_vector_resize(&s->v, n + 1);\n    if (n > old) {\n        *STRF(__at, s, n) = STRV(nul);\n    }')]),
    dict(id='c10-stale-base-for-terminator', kind='fault', rule='T2', edits=[
        ('src/_string.c', '    cstl_vector_resize(&s->v, n + 1);\n    *STRF(__at, s, n) = STRV(nul);', '    cstl_STRING_char_t * const d = STRF(data, s);\n    cstl_vector_resize(&s->v, n + 1);\n    d[n] = STRV(nul);')]),
    dict(id='c10-direct-vector-resize-in-erase', kind='fault', rule='T2', edits=[
        ('src/_string.c', '    STRF(__resize, s, size - len);\n}', '    cstl_vector_resize(&s->v, size - len + 1);\n}')]),
    dict(id='c10-insert-pos-check-off-by-one', kind='fault', rule='T3', edits=[
        ('src/_string.c', '    if (pos > STRF(size, s)) {\n        abort();', '    if (pos > STRF(size, s) + 1) {\n        abort();')]),
    dict(id='c10-find-ch-allows-pos-eq-size', kind='fault', rule='T3', edits=[
        ('src/_string.c', '    if (pos >= sz) {\n        abort();', '    if (pos > sz) {\n        abort();')]),
    dict(id='c10-erase-no-pos-check', kind='fault', rule='T3', edits=[
        ('src/_string.c', '    if (pos >= size) {\n        abort();\n    }\n\n    if (*len > size - pos) {', '    if (*len > size - pos) {')]),
    dict(id='c10-find-str-returns-instead-of-abort', kind='fault', rule='T3', edits=[
        ('src/_string.c', '    if (pos >= STRF(size, h)) {\n        abort();\n    }', '    if (pos > STRF(size, h)) {\n        return -1;\n    }')]),
    dict(id='c10-str-returns-null', kind='fault', rule='T4', edits=[
        ('src/_string.c', '    if (str == NULL) {\n        str = &STRV(nul);\n    }\n    return str;', '    return str;')]),
    dict(id='c10-benign-clamp-other-form', kind='benign', edits=[
        ('src/_string.c', '    if (*len > size - pos) {\n        *len = size - pos;\n    }', '    const size_t avail = size - pos;\n    if (avail < *len) {\n        *len = avail;\n    }')]),
    dict(id='c10-benign-growth-check-other-form', kind='benign', edits=[
        ('src/_string.c', '        if (len > SIZE_MAX - size) {\n            abort();\n        }', '        if (SIZE_MAX - size < len) {\n            abort();\n        }')]),
    dict(id='c10-benign-pos-check-negated', kind='benign', edits=[
        ('src/_string.c', '    if (pos > STRF(size, s)) {\n        abort();\n    }\n\n    if (len > 0) {', '    if (!(pos <= STRF(size, s))) {\n        abort();\n    }\n\n    if (len > 0) {')]),
    dict(id='c10-benign-size-ternary', kind='benign', edits=[
        ('include/cstl/_string.h', '    size_t sz = cstl_vector_size(&s->v);\n    if (sz > 0) {\n        sz--;\n    }\n    return sz;', '    const size_t sz = cstl_vector_size(&s->v);\n    return (sz > 0) ? sz - 1 : 0;')]),
]

# ------------------------------------------------------------------------------------------- C14
M['C14'] = [
    dict(id='c14-revert-alloc-view-reset', kind='fault', rule='A1', edits=[
        ('src/array.c', '    cstl_array_reset(a);\n    if (sz != 0', '    cstl_shared_ptr_reset(&a->ptr);\n    if (sz != 0')]),
    dict(id='c14-alloc-resets-len-only', kind='fault', rule='A1', edits=[
        ('src/array.c', '    cstl_array_reset(a);\n    if (sz != 0', '    cstl_shared_ptr_reset(&a->ptr);\n    a->len = 0;\n    if (sz != 0')]),
    dict(id='c14-revert-alloc-size-check', kind='fault', rule='A2', edits=[
        ('src/array.c', '    if (sz != 0 && nm > (SIZE_MAX - sizeof(*ra)) / sz) {\n        /* the number of bytes can\'t be represented */\n        return;\n    }\n', '')]),
    dict(id='c14-alloc-size-check-forgets-header', kind='fault', rule='A2', accept_undecided=True, edits=[
        ('src/array.c', 'nm > (SIZE_MAX - sizeof(*ra)) / sz) {', 'nm > SIZE_MAX / sz) {')]),
    dict(id='c14-revert-slice-check', kind='fault', rule='A3', edits=[
        ('src/array.c', '        || end > ra->nm\n        || a->off > ra->nm - end) {', '        || a->off + end > ra->nm) {')]),
    dict(id='c14-slice-check-ignores-offset', kind='fault', rule='A3', edits=[
        ('src/array.c', '        || end > ra->nm\n        || a->off > ra->nm - end) {', '        || end > ra->nm) {')]),
    dict(id='c14-slice-no-order-check', kind='fault', rule='A3', edits=[
        ('src/array.c', '    if (ra == NULL\n        || end < beg\n        || end > ra->nm', '    if (ra == NULL\n        || end > ra->nm')]),
    dict(id='c14-slice-stores-before-guard', kind='fault', rule='A3', edits=[
        ('src/array.c', '    const struct cstl_raw_array * const ra =\n        cstl_shared_ptr_get_const(&a->ptr);\n\n    if (ra == NULL\n        || end < beg',
         '    const struct cstl_raw_array * const ra =\n        cstl_shared_ptr_get_const(&a->ptr);\n\n    if (a == s) {\n        s->len = end - beg;\n    }\n    if (ra == NULL\n        || end < beg')]),
    dict(id='c14-at-without-offset', kind='fault', rule='A4', edits=[
        ('src/array.c', 'return __cstl_raw_array_at(ra->buf, ra->sz, a->off + i);', 'return __cstl_raw_array_at(ra->buf, ra->sz, i);')]),
    dict(id='c14-at-off-by-one', kind='fault', rule='A4', edits=[
        ('src/array.c', '    if (i >= a->len) {\n        abort();\n    } else {', '    if (i > a->len) {\n        abort();\n    } else {')]),
    dict(id='c14-release-without-unique', kind='fault', rule='A5', edits=[
        ('src/array.c', '        && ra->buf != ra + 1\n        && cstl_shared_ptr_unique(&a->ptr)) {', '        && ra->buf != ra + 1) {')]),
    dict(id='c14-release-internal-buffer', kind='fault', rule='A5', edits=[
        ('src/array.c', '    if (ra != NULL\n        && ra->buf != ra + 1\n        && cstl_shared_ptr_unique(&a->ptr)) {', '    if (ra != NULL\n        && cstl_shared_ptr_unique(&a->ptr)) {')]),
    dict(id='c14-release-keeps-reference', kind='fault', rule='A5', edits=[
        ('src/array.c', '        b = ra->buf;\n        cstl_array_reset(a);', '        b = ra->buf;')]),
    dict(id='c14-release-resets-always', kind='fault', rule='A5', edits=[
        ('src/array.c', '        b = ra->buf;\n        cstl_array_reset(a);\n    }\n', '        b = ra->buf;\n    }\n    cstl_array_reset(a);\n')]),
    dict(id='c14-slice-shares-into-itself', kind='fault', rule='A6', edits=[
        ('src/array.c', '    s->len = end - beg;\n    if (a != s) {\n        cstl_shared_ptr_share(&a->ptr, &s->ptr);\n    }', '    s->len = end - beg;\n    cstl_shared_ptr_share(&a->ptr, &s->ptr);')]),
    dict(id='c14-benign-slice-check-reordered', kind='benign', edits=[
        ('src/array.c', '    if (ra == NULL\n        || end < beg\n        || end > ra->nm\n        || a->off > ra->nm - end) {\n        abort();\n    }',
         '    if (ra == NULL) {\n        abort();\n    }\n    if (beg > end || end > ra->nm) {\n        abort();\n    }\n    if (ra->nm - end < a->off) {\n        abort();\n    }')]),
    dict(id='c14-benign-alloc-explicit-fields', kind='benign', edits=[
        ('src/array.c', '    cstl_array_reset(a);\n    if (sz != 0', '    cstl_shared_ptr_reset(&a->ptr);\n    a->off = 0;\n    a->len = 0;\n    if (sz != 0')]),
    dict(id='c14-benign-at-restructured', kind='benign', edits=[
        ('src/array.c', '    if (i >= a->len) {\n        abort();\n    } else {\n        const struct cstl_raw_array * const ra =\n            cstl_shared_ptr_get_const(&a->ptr);\n\n        return __cstl_raw_array_at(ra->buf, ra->sz, a->off + i);\n    }',
         '    const struct cstl_raw_array * ra;\n    if (!(i < a->len)) {\n        abort();\n    }\n    ra = cstl_shared_ptr_get_const(&a->ptr);\n    return __cstl_raw_array_at(ra->buf, ra->sz, i + a->off);')]),
    dict(id='c14-benign-alloc-mul-overflow-form', kind='benign', edits=[
        ('src/array.c', '    if (sz != 0 && nm > (SIZE_MAX - sizeof(*ra)) / sz) {', '    if (sz > 0 && (SIZE_MAX - sizeof(*ra)) / sz < nm) {')]),
]

# ------------------------------------------------------------------------------------------- C16
M['C16'] = [
    dict(id='c16-vector-commit-before-check', kind='fault', rule='F1', edits=[
        ('src/vector.c', '        if (e != NULL) {\n            v->elem.base = e;\n            v->cap = sz;\n        }', '        v->elem.base = e;\n        if (e != NULL) {\n            v->cap = sz;\n        }')]),
    dict(id='c16-hash-capacity-committed-on-failure', kind='fault', rule='F1', edits=[
        ('src/hash.c', '        if (at != NULL) {\n            h->bucket.at = at;\n            h->bucket.capacity = sz;\n        }', '        if (at != NULL) {\n            h->bucket.at = at;\n        }\n        h->bucket.capacity = sz;')]),
    dict(id='c16-map-node-unchecked', kind='fault', rule='F1', edits=[
        ('src/map.c', '    if (n) {\n        n->key = key;\n        n->val = val;\n    }', '    n->key = key;\n    n->val = val;')]),
    dict(id='c16-unique-alloc-sets-clr-on-failure', kind='fault', rule='F1', edits=[
        ('src/memory.c', '        if (ptr != NULL) {\n            cstl_guarded_ptr_set(&up->gp, ptr);\n            up->clr.func = clr;\n            up->clr.priv = priv;\n        }', '        if (ptr != NULL) {\n            cstl_guarded_ptr_set(&up->gp, ptr);\n        }\n        up->clr.func = clr;\n        up->clr.priv = priv;')]),
    dict(id='c16-shared-alloc-leaks-bookkeeping', kind='fault', rule='F5', edits=[
        ('src/memory.c', '                data = NULL;\n            }\n\n            free(data);', '                data = NULL;\n            }')]),
    dict(id='c16-map-insert-reports-success-on-failure', kind='fault', rule='F3', edits=[
        ('src/map.c', '        err = -1;\n        node = cstl_map_node_alloc(key, val);', '        err = 0;\n        node = cstl_map_node_alloc(key, val);')]),
    dict(id='c16-hash-resize-ignores-failed-capacity', kind='fault', rule='F2', edits=[
        ('src/hash.c', '        if (h->bucket.at != NULL\n            && count <= h->bucket.capacity\n            && (count != cur_count', '        if (h->bucket.at != NULL\n            && (count != cur_count')]),
    dict(id='c16-vector-resize-continues-after-failure', kind='fault', rule='F2', edits=[
        ('src/vector.c', '        abort(); // GCOV_EXCL_LINE', '        ; // keep going')]),
    dict(id='c16-map-insert-links-null-node', kind='fault', rule=['F1', 'F2', 'F3'], edits=[
        ('src/map.c', '        if (node != NULL) {\n            cstl_rbtree_insert(&map->t, node, p);\n            err = 0;\n        }', '        cstl_rbtree_insert(&map->t, node, p);\n        if (node != NULL) {\n            err = 0;\n        }')]),
    dict(id='c16-benign-map-node-early-return', kind='benign', edits=[
        ('src/map.c', '    if (n) {\n        n->key = key;\n        n->val = val;\n    }\n    return n;', '    if (n == NULL) {\n        return NULL;\n    }\n    n->key = key;\n    n->val = val;\n    return n;')]),
    dict(id='c16-benign-shared-alloc-restructured', kind='benign', edits=[
        ('src/memory.c', '            if (cstl_unique_ptr_get(&data->up) != NULL) {\n                cstl_guarded_ptr_set(&sp->data, data);\n                data = NULL;\n            }\n\n            free(data);',
         '            if (cstl_unique_ptr_get(&data->up) == NULL) {\n                free(data);\n            } else {\n                cstl_guarded_ptr_set(&sp->data, data);\n            }')]),
    dict(id='c16-benign-hash-setter-early-return', kind='benign', edits=[
        ('src/hash.c', '        if (at != NULL) {\n            h->bucket.at = at;\n            h->bucket.capacity = sz;\n        }', '        if (at == NULL) {\n            return;\n        }\n        h->bucket.at = at;\n        h->bucket.capacity = sz;')]),
]

# ------------------------------------------------------------------------------------------- C04
_WBOUND = '''    count = h->bucket.count;
    if (h->bucket.rh.hash != NULL && h->bucket.rh.count > count) {
        count = h->bucket.rh.count;
    }
'''
M['C04'] = [
    dict(id='c04-revert-walker-bound', kind='fault', rule='E1', edits=[
        ('src/hash.c', _WBOUND, '    count = h->bucket.count;\n')]),
    dict(id='c04-walker-bound-always-pending-count', kind='fault', rule='E1', edits=[
        ('src/hash.c', _WBOUND, '    count = h->bucket.count;\n    if (h->bucket.rh.hash != NULL) {\n        count = h->bucket.rh.count;\n    }\n')]),
    dict(id='c04-walker-bound-ignores-pending-flag', kind='fault', rule='E1', edits=[
        ('src/hash.c', _WBOUND, '    count = h->bucket.count;\n    if (h->bucket.rh.count > count) {\n        count = h->bucket.rh.count;\n    }\n')]),
    dict(id='c04-foreach-without-forced-rehash', kind='fault', rule='E2', edits=[
        ('src/hash.c', '    cstl_hash_rehash(h);\n    return __cstl_hash_foreach(h, visit, p);', '    return __cstl_hash_foreach(h, visit, p);')]),
    dict(id='c04-successor-read-after-visit', kind='fault', rule='E3', edits=[
        ('src/hash.c', '    HASH_LIST_FOREACH(n, n, nn) {\n        if ((res = visit(__cstl_hash_element(h, n), p)) != 0) {\n            break;\n        }\n    }',
         '    while (n != NULL) {\n        if ((res = visit(__cstl_hash_element(h, n), p)) != 0) {\n            break;\n        }\n        n = n->next;\n    }\n    (void)nn;')]),
    dict(id='c04-revert-clear-hash-reset', kind='fault', rule='E4', edits=[
        ('src/hash.c', '    h->bucket.capacity = 0;\n    h->bucket.hash = NULL;\n', '    h->bucket.capacity = 0;\n')]),
    dict(id='c04-clear-keeps-pending-rehash', kind='fault', rule='E4', edits=[
        ('src/hash.c', '    h->bucket.hash = NULL;\n\n    h->bucket.rh.hash = NULL;\n\n    h->count = 0;', '    h->bucket.hash = NULL;\n\n    h->count = 0;')]),
    dict(id='c04-clear-count-only-with-callback', kind='fault', rule='E4', edits=[
        ('src/hash.c', '        __cstl_hash_foreach(h, cstl_hash_clear_visit, &hcp);\n    }', '        __cstl_hash_foreach(h, cstl_hash_clear_visit, &hcp);\n        h->count = 0;\n    }'),
        ('src/hash.c', '    h->bucket.rh.hash = NULL;\n\n    h->count = 0;\n}', '    h->bucket.rh.hash = NULL;\n}')]),
    dict(id='c04-clear-no-free', kind='fault', rule='E4', edits=[
        ('src/hash.c', '    free(h->bucket.at);\n    h->bucket.at = NULL;', '    h->bucket.at = NULL;')]),
    dict(id='c04-walk-continues-after-stop', kind='fault', rule='E5', edits=[
        ('src/hash.c', '    for (i = 0, res = 0; i < count && res == 0; i++) {\n        res = cstl_hash_bucket_foreach(h, h->bucket.at[i].n, visit, p);\n    }',
         '    for (i = 0, res = 0; i < count; i++) {\n        res = cstl_hash_bucket_foreach(h, h->bucket.at[i].n, visit, p);\n    }')]),
    dict(id='c04-stop-value-normalised', kind='fault', rule='E5', edits=[
        ('src/hash.c', '    for (i = 0, res = 0; i < count && res == 0; i++) {\n        res = cstl_hash_bucket_foreach(h, h->bucket.at[i].n, visit, p);\n    }\n\n    return res;',
         '    for (i = 0, res = 0; i < count && res == 0; i++) {\n        res = cstl_hash_bucket_foreach(h, h->bucket.at[i].n, visit, p);\n    }\n\n    return res != 0;')]),
    dict(id='c04-benign-bound-as-ternary', kind='benign', edits=[
        ('src/hash.c', _WBOUND, '    count = (h->bucket.rh.hash != NULL && h->bucket.rh.count > h->bucket.count)\n        ? h->bucket.rh.count : h->bucket.count;\n')]),
    dict(id='c04-benign-const-foreach-forces-rehash-style', kind='benign', edits=[
        ('src/hash.c', '    for (i = 0, res = 0; i < count && res == 0; i++) {\n        res = cstl_hash_bucket_foreach(h, h->bucket.at[i].n, visit, p);\n    }',
         '    res = 0;\n    i = 0;\n    while (res == 0 && i < count) {\n        res = cstl_hash_bucket_foreach(h, h->bucket.at[i].n, visit, p);\n        i++;\n    }')]),
    dict(id='c04-benign-clear-via-init', kind='benign', edits=[
        ('src/hash.c', '    h->bucket.count = 0;\n    h->bucket.capacity = 0;\n    h->bucket.hash = NULL;\n\n    h->bucket.rh.hash = NULL;\n\n    h->count = 0;', '    cstl_hash_init(h, h->off);')]),
]

# ------------------------------------------------------------------------------------------- C19
M['C19'] = [
    dict(id='c19-load-divides-by-current-count', kind='fault', rule='S1', edits=[
        ('include/cstl/hash.h', '    size_t count = h->bucket.count;\n    if (h->bucket.rh.hash != NULL) {\n        count = h->bucket.rh.count;\n    }\n    return (float)h->count / count;', '    return (float)h->count / h->bucket.count;')]),
    dict(id='c19-load-always-pending-count', kind='fault', rule='S1', edits=[
        ('include/cstl/hash.h', '    size_t count = h->bucket.count;\n    if (h->bucket.rh.hash != NULL) {\n        count = h->bucket.rh.count;\n    }\n    return (float)h->count / count;', '    return (float)h->count / h->bucket.rh.count;')]),
    dict(id='c19-revert-resize-decision', kind='fault', rule='S2', edits=[
        ('src/hash.c', '            && (count != cur_count\n                || (hash != NULL\n                    && hash != cur_hash))) {', '            && (count != h->bucket.count\n                || (hash != NULL\n                    && hash != h->bucket.hash))) {')]),
    dict(id='c19-resize-decision-count-only-fixed', kind='fault', rule='S2', edits=[
        ('src/hash.c', '                    && hash != cur_hash))) {', '                    && hash != h->bucket.hash))) {')]),
    dict(id='c19-keyed-op-runs-completer', kind='fault', rule='S3', edits=[
        ('src/hash.c', '        __cstl_hash_rehash(h, 1);\n\n        bk = _bk;', '        cstl_hash_rehash(h);\n\n        bk = _bk;')]),
    dict(id='c19-quota-size-max', kind='fault', rule='S3', edits=[
        ('src/hash.c', '        __cstl_hash_rehash(h, 1);\n\n        bk = _bk;', '        __cstl_hash_rehash(h, SIZE_MAX);\n\n        bk = _bk;')]),
    dict(id='c19-quota-zero', kind='fault', rule='S3', edits=[
        ('src/hash.c', '        __cstl_hash_rehash(h, 1);\n\n        bk = _bk;', '        __cstl_hash_rehash(h, 0);\n\n        bk = _bk;')]),
    dict(id='c19-quota-from-table-size', kind='fault', rule='S3', edits=[
        ('src/hash.c', '        __cstl_hash_rehash(h, 1);\n\n        bk = _bk;', '        __cstl_hash_rehash(h, h->bucket.count / 4 + 1);\n\n        bk = _bk;')]),
    dict(id='c19-no-sweep-in-keyed-path', kind='fault', rule='S3', edits=[
        ('src/hash.c', '        __cstl_hash_rehash(h, 1);\n\n        bk = _bk;', '        bk = _bk;')]),
    dict(id='c19-sweep-ignores-quota', kind='fault', rule='S3', edits=[
        ('src/hash.c', '    while (h->bucket.rh.clean < h->bucket.count && n > 0) {\n        cstl_clean_bucket(h, &h->bucket.at[h->bucket.rh.clean]);\n        h->bucket.rh.clean++;\n        n--;\n    }',
         '    while (h->bucket.rh.clean < h->bucket.count) {\n        cstl_clean_bucket(h, &h->bucket.at[h->bucket.rh.clean]);\n        h->bucket.rh.clean++;\n    }\n    (void)n;')]),
    dict(id='c19-completion-forgets-hash', kind='fault', rule='S4', edits=[
        ('src/hash.c', '        h->bucket.count = h->bucket.rh.count;\n        h->bucket.hash = h->bucket.rh.hash;\n', '        h->bucket.count = h->bucket.rh.count;\n')]),
    dict(id='c19-completion-clears-before-adopting', kind='fault', rule='S4', edits=[
        ('src/hash.c', '        h->bucket.count = h->bucket.rh.count;\n        h->bucket.hash = h->bucket.rh.hash;\n\n        h->bucket.rh.hash = NULL;', '        h->bucket.rh.hash = NULL;\n        h->bucket.count = h->bucket.rh.count;\n        h->bucket.hash = h->bucket.rh.hash;')]),
    dict(id='c19-resize-keeps-old-function', kind='fault', rule='S4', edits=[
        ('src/hash.c', '            if (hash != NULL) {\n                h->bucket.rh.hash = hash;\n            } else if (h->bucket.hash != NULL) {', '            if (hash != NULL && h->bucket.hash == NULL) {\n                h->bucket.rh.hash = hash;\n            } else if (h->bucket.hash != NULL) {')]),
    dict(id='c19-resize-sweep-index-not-reset', kind='fault', rule='S4', edits=[
        ('src/hash.c', '            h->bucket.rh.count = count;\n            h->bucket.rh.clean = 0;', '            h->bucket.rh.count = count;')]),
    dict(id='c19-lookup-hashes-twice', kind='fault', rule='S5', edits=[
        ('src/hash.c', '    bk = __cstl_hash_get_bucket(h, k, h->bucket.hash, h->bucket.count);\n', '    bk = __cstl_hash_get_bucket(h, k, h->bucket.hash, h->bucket.count);\n    if (bk->n == NULL) {\n        bk = __cstl_hash_get_bucket(h, k, h->bucket.hash, h->bucket.count);\n    }\n')]),
    dict(id='c19-benign-completer-first-resize', kind='benign', edits=[
        ('src/hash.c', '        size_t cur_count = h->bucket.count;\n        cstl_hash_func_t * cur_hash = h->bucket.hash;\n\n        if (h->bucket.rh.hash != NULL) {\n            cur_count = h->bucket.rh.count;\n            cur_hash = h->bucket.rh.hash;\n        }\n',
         '        size_t cur_count;\n        cstl_hash_func_t * cur_hash;\n\n        cstl_hash_rehash(h);\n        cur_count = h->bucket.count;\n        cur_hash = h->bucket.hash;\n')]),
    dict(id='c19-benign-load-ternary', kind='benign', edits=[
        ('include/cstl/hash.h', '    size_t count = h->bucket.count;\n    if (h->bucket.rh.hash != NULL) {\n        count = h->bucket.rh.count;\n    }\n    return (float)h->count / count;', '    const size_t count = (h->bucket.rh.hash == NULL) ? h->bucket.count : h->bucket.rh.count;\n    return (float)h->count / count;')]),
    dict(id='c19-benign-effective-count-helper', kind='benign', edits=[
        ('src/hash.c', 'void cstl_hash_resize(struct cstl_hash * const h,', 'static size_t effective_count(const struct cstl_hash * const h)\n{\n    if (h->bucket.rh.hash != NULL) {\n        return h->bucket.rh.count;\n    }\n    return h->bucket.count;\n}\n\nvoid cstl_hash_resize(struct cstl_hash * const h,'),
        ('src/hash.c', '            && (count != cur_count\n', '            && (count != effective_count(h)\n')]),
    dict(id='c19-benign-quota-two', kind='benign', edits=[
        ('src/hash.c', '        cstl_clean_bucket(h, bk);\n        cstl_clean_bucket(h, _bk);\n', '        cstl_clean_bucket(h, _bk);\n'),
        ('src/hash.c', '        __cstl_hash_rehash(h, 1);\n\n        bk = _bk;', '        __cstl_hash_rehash(h, 2);\n\n        bk = _bk;')]),
]
M['C19'].append(dict(id='c19-current-count-helper', kind='fault', rule='S2', edits=[
    ('src/hash.c', 'void cstl_hash_resize(struct cstl_hash * const h,', 'static size_t table_count(const struct cstl_hash * const h)\n{\n    return h->bucket.count;\n}\n\nvoid cstl_hash_resize(struct cstl_hash * const h,'),
    ('src/hash.c', '            && (count != cur_count\n', '            && (count != table_count(h)\n')]))

# ------------------------------------------------------------------------------------------- C03
M['C03'] = [
    dict(id='c03-swap-leaves-count-and-offset', kind='fault', rule='L9', edits=[
        ('include/cstl/hash.h', '    struct cstl_hash t;\n    cstl_swap(a, b, &t, sizeof(t));', '    struct cstl_hash t;\n    cstl_swap(&a->bucket, &b->bucket, &t.bucket, sizeof(t.bucket));')]),
    dict(id='c03-benign-shrink-passes-effective-count', kind='benign', rule='L8', edits=[
        ('src/hash.c', '        __cstl_hash_set_capacity(h, h->bucket.count);', '        __cstl_hash_set_capacity(h, count);')]),
    dict(id='c03-shrink-without-forcing-rehash', kind='fault', rule='L8', edits=[
        ('src/hash.c', '        cstl_hash_rehash(h);\n        __cstl_hash_set_capacity(h, h->bucket.count);', '        __cstl_hash_set_capacity(h, h->bucket.count);')]),
    dict(id='c03-insert-uses-current-geometry-directly', kind='fault', rule='L1', edits=[
        ('src/hash.c', '    struct cstl_hash_bucket * const bk = cstl_hash_get_bucket(h, k);\n    struct cstl_hash_node * const hn = __cstl_hash_node(h, e);',
         '    struct cstl_hash_bucket * const bk = __cstl_hash_get_bucket(h, k, h->bucket.hash, h->bucket.count);\n    struct cstl_hash_node * const hn = __cstl_hash_node(h, e);')]),
    dict(id='c03-lookup-returns-old-bucket', kind='fault', rule='L2', edits=[
        ('src/hash.c', '        __cstl_hash_rehash(h, 1);\n\n        bk = _bk;\n', '        __cstl_hash_rehash(h, 1);\n')]),
    dict(id='c03-lookup-cleans-only-new-bucket', kind='fault', rule='L2', edits=[
        ('src/hash.c', '        cstl_clean_bucket(h, bk);\n        cstl_clean_bucket(h, _bk);', '        cstl_clean_bucket(h, _bk);')]),
    dict(id='c03-lookup-cleans-only-old-bucket', kind='fault', rule='L2', edits=[
        ('src/hash.c', '        cstl_clean_bucket(h, bk);\n        cstl_clean_bucket(h, _bk);', '        cstl_clean_bucket(h, bk);')]),
    dict(id='c03-lookup-returns-new-bucket-when-not-pending', kind='fault', rule=['L2', 'L1'], edits=[
        ('src/hash.c', '    if (h->bucket.rh.hash != NULL) {\n        struct cstl_hash_bucket * const _bk =\n            __cstl_hash_get_bucket(\n                h, k, h->bucket.rh.hash, h->bucket.rh.count);',
         '    if (h->bucket.rh.hash != NULL && h->bucket.rh.count > h->bucket.count) {\n        struct cstl_hash_bucket * const _bk =\n            __cstl_hash_get_bucket(\n                h, k, h->bucket.rh.hash, h->bucket.rh.count);')]),
    dict(id='c03-cleaner-relocates-with-current-geometry', kind='fault', rule='L3', edits=[
        ('src/hash.c', '                __cstl_hash_get_bucket(\n                    h, n->key, h->bucket.rh.hash, h->bucket.rh.count);', '                __cstl_hash_get_bucket(\n                    h, n->key, h->bucket.hash, h->bucket.count);')]),
    dict(id='c03-cleaner-mixed-geometry', kind='fault', rule='L3', edits=[
        ('src/hash.c', '                __cstl_hash_get_bucket(\n                    h, n->key, h->bucket.rh.hash, h->bucket.rh.count);', '                __cstl_hash_get_bucket(\n                    h, n->key, h->bucket.rh.hash, h->bucket.count);')]),
    dict(id='c03-cleaner-no-detach', kind='fault', rule='L3', edits=[
        ('src/hash.c', '        n = bk->n;\n        bk->n = NULL;\n', '        n = bk->n;\n')]),
    dict(id='c03-cleaner-never-marks-clean', kind='fault', rule='L3', edits=[
        ('src/hash.c', '        /* the bucket is clean, now */\n        bk->cst = h->bucket.cst;\n', '')]),
    dict(id='c03-erase-without-count-decrement', kind='fault', rule='L4', edits=[
        ('src/hash.c', '        *hep.n = (*hep.n)->next;\n        h->count--;', '        *hep.n = (*hep.n)->next;')]),
    dict(id='c03-erase-decrements-when-not-found', kind='fault', rule='L4', edits=[
        ('src/hash.c', '        *hep.n = (*hep.n)->next;\n        h->count--;\n    }', '        *hep.n = (*hep.n)->next;\n    }\n    h->count--;')]),
    dict(id='c03-insert-without-count', kind='fault', rule='L4', edits=[
        ('src/hash.c', '    HASH_LIST_INSERT(bk->n, hn);\n\n    h->count++;', '    HASH_LIST_INSERT(bk->n, hn);')]),
    dict(id='c03-insert-loses-chain', kind='fault', rule='L4', edits=[
        ('src/hash.c', '    HASH_LIST_INSERT(bk->n, hn);\n\n    h->count++;', '    bk->n = hn;\n\n    h->count++;')]),
    dict(id='c03-resize-flip-without-forced-rehash', kind='fault', rule='L5', edits=[
        ('src/hash.c', '            cstl_hash_rehash(h);\n\n            h->bucket.cst = !h->bucket.cst;', '            h->bucket.cst = !h->bucket.cst;')]),
    dict(id='c03-resize-new-buckets-dirty', kind='fault', rule='L5', edits=[
        ('src/hash.c', '                h->bucket.at[i].cst = h->bucket.cst;', '                h->bucket.at[i].cst = !h->bucket.cst;')]),
    dict(id='c03-resize-new-buckets-not-emptied', kind='fault', rule='L5', edits=[
        ('src/hash.c', '                h->bucket.at[i].n = NULL;\n', '')]),
    dict(id='c03-find-visits-before-key-compare', kind='fault', rule='L6', edits=[
        ('src/hash.c', '    if (__cstl_hash_node(hfp->h, e)->key == hfp->k) {\n', '    if (hfp->visit != NULL || __cstl_hash_node(hfp->h, e)->key == hfp->k) {\n')]),
    dict(id='c03-revert-capacity-byte-check', kind='fault', rule='L7', edits=[
        ('src/hash.c', '    if (sz <= SIZE_MAX / sizeof(struct cstl_hash_bucket)) {', '    if (sz <= SIZE_MAX) {')]),
    dict(id='c03-benign-lookup-restructured', kind='benign', edits=[
        ('src/hash.c', '    struct cstl_hash_bucket * bk;\n\n    bk = __cstl_hash_get_bucket(h, k, h->bucket.hash, h->bucket.count);\n',
         '    struct cstl_hash_bucket * bk =\n        __cstl_hash_get_bucket(h, k, h->bucket.hash, h->bucket.count);\n\n    if (h->bucket.rh.hash == NULL) {\n        return bk;\n    }\n')]),
    dict(id='c03-benign-clean-order-swapped', kind='benign', edits=[
        ('src/hash.c', '        cstl_clean_bucket(h, bk);\n        cstl_clean_bucket(h, _bk);', '        cstl_clean_bucket(h, _bk);\n        cstl_clean_bucket(h, bk);')]),
    dict(id='c03-benign-count-prefix-increment', kind='benign', edits=[
        ('src/hash.c', '    HASH_LIST_INSERT(bk->n, hn);\n\n    h->count++;', '    h->count += 1;\n    hn->next = bk->n;\n    bk->n = hn;')]),
]

# ------------------------------------------------------------------------------------------- C13
M['C13'] = [
    dict(id='c13-revert-pop-front-check', kind='fault', rule='N1', edits=[
        ('src/slist.c', '    if (sl->count == 0) {\n        return NULL;\n    }\n    return __cstl_slist_element(sl, __cstl_slist_erase_after(sl, &sl->h));', '    return __cstl_slist_element(sl, __cstl_slist_erase_after(sl, &sl->h));')]),
    dict(id='c13-front-without-empty-check', kind='fault', rule='N1', edits=[
        ('src/slist.c', '    if (sl->t == &sl->h) {\n        return NULL;\n    }\n    return __cstl_slist_element(sl, sl->h.n);', '    return __cstl_slist_element(sl, sl->h.n);')]),
    dict(id='c13-reverse-forgets-tail', kind='fault', rule='N2', edits=[
        ('src/slist.c', '        sl->t = c;\n        assert(sl->t->n == NULL);\n    }\n}\n\nvoid cstl_slist_concat', '    }\n}\n\nvoid cstl_slist_concat')]),
    dict(id='c13-concat-forgets-tail', kind='fault', rule='N2', edits=[
        ('src/slist.c', '        dst->t->n = src->h.n;\n        dst->t = src->t;', '        dst->t->n = src->h.n;')]),
    dict(id='c13-insert-after-forgets-tail', kind='fault', rule='N2', edits=[
        ('src/slist.c', '    if (sl->t == in) {\n        sl->t = nn;\n    }\n\n    sl->count++;', '    sl->count++;')]),
    dict(id='c13-erase-after-forgets-tail', kind='fault', rule='N2', edits=[
        ('src/slist.c', '    if (sl->t == n) {\n        sl->t = e;\n    }\n', '')]),
    dict(id='c13-swap-no-reanchor', kind='fault', rule='N3', edits=[
        ('src/slist.c', '    CSTL_SLIST_FIX_SWAP(a);\n    CSTL_SLIST_FIX_SWAP(b);', '    CSTL_SLIST_FIX_SWAP(a);')]),
    dict(id='c13-swap-reanchor-before-copy', kind='fault', rule='N3', edits=[
        ('src/slist.c', '    cstl_swap(a, b, &t, sizeof(t));\n\n#ifndef NO_DOC', '#ifndef NO_DOC'),
        ('src/slist.c', '#undef CSTL_SLIST_FIX_SWAP\n#endif', '#undef CSTL_SLIST_FIX_SWAP\n#endif\n    cstl_swap(a, b, &t, sizeof(t));')]),
    dict(id='c13-foreach-reads-next-after-visit', kind='fault', rule='N4', edits=[
        ('src/slist.c', '        struct cstl_slist_node * const n = c->n;\n        res = visit(__cstl_slist_element(sl, c), p);\n        c = n;', '        res = visit(__cstl_slist_element(sl, c), p);\n        c = c->n;')]),
    dict(id='c13-foreach-ignores-stop', kind='fault', rule='N4', edits=[
        ('src/slist.c', '    while (c != NULL && res == 0) {\n        struct cstl_slist_node * const n = c->n;\n        res = visit(', '    while (c != NULL) {\n        struct cstl_slist_node * const n = c->n;\n        res = visit(')]),
    dict(id='c13-erase-after-no-count', kind='fault', rule='N5', edits=[
        ('src/slist.c', '    assert(sl->t->n == NULL);\n\n    sl->count--;\n\n    return n;', '    assert(sl->t->n == NULL);\n\n    return n;')]),
    dict(id='c13-insert-counts-only-at-tail', kind='fault', rule='N5', edits=[
        ('src/slist.c', '    if (sl->t == in) {\n        sl->t = nn;\n    }\n\n    sl->count++;', '    if (sl->t == in) {\n        sl->t = nn;\n        sl->count++;\n    }\n')]),
    dict(id='c13-concat-without-source-reinit', kind='fault', rule='N5', edits=[
        ('src/slist.c', '        dst->count += src->count;\n\n        cstl_slist_init(src, src->off);', '        dst->count += src->count;\n        src->count = 0;')]),
    dict(id='c13-benign-tail-update-other-idiom', kind='benign', edits=[
        ('src/slist.c', '    if (sl->t == in) {\n        sl->t = nn;\n    }\n\n    sl->count++;', '    if (nn->n == NULL) {\n        sl->t = nn;\n    }\n\n    sl->count++;')]),
    dict(id='c13-benign-pop-front-via-front', kind='benign', edits=[
        ('src/slist.c', '    if (sl->count == 0) {\n        return NULL;\n    }\n    return __cstl_slist_element(sl, __cstl_slist_erase_after(sl, &sl->h));', '    if (sl->h.n != NULL) {\n        return __cstl_slist_element(sl, __cstl_slist_erase_after(sl, &sl->h));\n    }\n    return NULL;')]),
    dict(id='c13-benign-foreach-for-loop', kind='benign', edits=[
        ('src/slist.c', '    struct cstl_slist_node * c = sl->h.n;\n    int res = 0;\n\n    while (c != NULL && res == 0) {\n        struct cstl_slist_node * const n = c->n;\n        res = visit(__cstl_slist_element(sl, c), p);\n        c = n;\n    }\n\n    return res;',
         '    struct cstl_slist_node * c, * n;\n    int res;\n\n    for (c = sl->h.n, res = 0; c != NULL; c = n) {\n        n = c->n;\n        res = visit(__cstl_slist_element(sl, c), p);\n        if (res != 0) {\n            return res;\n        }\n    }\n\n    return 0;')]),
]

# ------------------------------------------------------------------------------------------- C12
M['C12'] = [
    dict(id='c12-pop-back-without-empty-check', kind='fault', rule='D1', edits=[
        ('src/dlist.c', 'void * cstl_dlist_pop_back(struct cstl_dlist * const l)\n{\n    if (l->size > 0) {\n        return __cstl_dlist_erase(l, l->h.p);\n    }\n    return NULL;\n}', 'void * cstl_dlist_pop_back(struct cstl_dlist * const l)\n{\n    return __cstl_dlist_erase(l, l->h.p);\n}')]),
    dict(id='c12-swap-no-empty-fixup', kind='fault', rule='D2', edits=[
        ('src/dlist.c', '        if (L->size == 0) {                     \\\n            L->h.n = L->h.p = &L->h;            \\\n        } else {                                \\\n            L->h.n->p = L->h.p->n = &L->h;      \\\n        }                                       \\', '        L->h.n->p = L->h.p->n = &L->h;          \\')]),
    dict(id='c12-swap-fixes-only-first', kind='fault', rule='D2', edits=[
        ('src/dlist.c', '    CSTL_DLIST_SWAP_FIX(a);\n    CSTL_DLIST_SWAP_FIX(b);', '    CSTL_DLIST_SWAP_FIX(a);')]),
    dict(id='c12-swap-forgets-last-node', kind='fault', rule='D2', edits=[
        ('src/dlist.c', '            L->h.n->p = L->h.p->n = &L->h;      \\', '            L->h.n->p = &L->h;                  \\')]),
    dict(id='c12-concat-self', kind='fault', rule='D3', edits=[
        ('src/dlist.c', '    if (d != s && d->off == s->off && s->size > 0) {', '    if (d->off == s->off && s->size > 0) {')]),
    dict(id='c12-concat-no-source-reinit', kind='fault', rule='D3', edits=[
        ('src/dlist.c', '        /* leave the original list in a usable state */\n        cstl_dlist_init(s, s->off);', '        s->size = 0;')]),
    dict(id='c12-concat-size-not-added', kind='fault', rule='D3', edits=[
        ('src/dlist.c', '        d->size += s->size;\n', '        d->size = s->size;\n')]),
    dict(id='c12-foreach-directions-swapped', kind='fault', rule='D4', edits=[
        ('src/dlist.c', '    case CSTL_DLIST_FOREACH_DIR_FWD:\n        next = __cstl_dlist_next;\n        break;\n    case CSTL_DLIST_FOREACH_DIR_REV:\n        next = __cstl_dlist_prev;', '    case CSTL_DLIST_FOREACH_DIR_FWD:\n        next = __cstl_dlist_prev;\n        break;\n    case CSTL_DLIST_FOREACH_DIR_REV:\n        next = __cstl_dlist_next;')]),
    dict(id='c12-foreach-rev-walks-forward', kind='fault', rule='D4', edits=[
        ('src/dlist.c', '    case CSTL_DLIST_FOREACH_DIR_REV:\n        next = __cstl_dlist_prev;', '    case CSTL_DLIST_FOREACH_DIR_REV:\n        next = __cstl_dlist_next;')]),
    dict(id='c12-foreach-successor-after-visit', kind='fault', rule='D4', edits=[
        ('src/dlist.c', '    for (c = *next(&l->h), n = *next(c);\n         res == 0 && c != &l->h;\n         c = n, n = *next(c)) {\n        res = visit(__cstl_dlist_element(l, c), p);\n    }',
         '    for (c = *next(&l->h);\n         res == 0 && c != &l->h;\n         c = n) {\n        res = visit(__cstl_dlist_element(l, c), p);\n        n = *next(c);\n    }')]),
    dict(id='c12-foreach-ignores-stop', kind='fault', rule='D4', edits=[
        ('src/dlist.c', '         res == 0 && c != &l->h;\n         c = n, n = *next(c)) {', '         c != &l->h;\n         c = n, n = *next(c)) {')]),
    dict(id='c12-erase-no-size', kind='fault', rule='D5', edits=[
        ('src/dlist.c', '    n->p->n = n->n;\n\n    l->size--;', '    n->p->n = n->n;')]),
    dict(id='c12-insert-double-count', kind='fault', rule='D5', edits=[
        ('src/dlist.c', '    p->n = n;\n\n    l->size++;', '    p->n = n;\n\n    l->size++;\n    if (p == &l->h) {\n        l->size++;\n    }')]),
    dict(id='c12-benign-swap-fix-as-function', kind='benign', edits=[
        ('src/dlist.c', 'void cstl_dlist_swap(struct cstl_dlist * const a, struct cstl_dlist * const b)\n{', 'static void dlist_reanchor(struct cstl_dlist * const l)\n{\n    if (l->size != 0) {\n        l->h.n->p = &l->h;\n        l->h.p->n = &l->h;\n    } else {\n        l->h.n = &l->h;\n        l->h.p = &l->h;\n    }\n}\n\nvoid cstl_dlist_swap(struct cstl_dlist * const a, struct cstl_dlist * const b)\n{'),
        ('src/dlist.c', '    CSTL_DLIST_SWAP_FIX(a);\n    CSTL_DLIST_SWAP_FIX(b);', '    dlist_reanchor(a);\n    dlist_reanchor(b);')]),
    dict(id='c12-benign-foreach-while', kind='benign', edits=[
        ('src/dlist.c', '    for (c = *next(&l->h), n = *next(c);\n         res == 0 && c != &l->h;\n         c = n, n = *next(c)) {\n        res = visit(__cstl_dlist_element(l, c), p);\n    }',
         '    c = *next(&l->h);\n    while (c != &l->h) {\n        n = *next(c);\n        res = visit(__cstl_dlist_element(l, c), p);\n        if (res != 0) {\n            break;\n        }\n        c = n;\n    }')]),
    dict(id='c12-benign-front-other-test', kind='benign', edits=[
        ('src/dlist.c', 'void * cstl_dlist_front(struct cstl_dlist * const l)\n{\n    if (l->size > 0) {\n        return __cstl_dlist_element(l, l->h.n);\n    }\n    return NULL;', 'void * cstl_dlist_front(struct cstl_dlist * const l)\n{\n    if (l->h.n == &l->h) {\n        return NULL;\n    }\n    return __cstl_dlist_element(l, l->h.n);')]),
]

# ------------------------------------------------------------------------------------------- C15
M['C15'] = [
    dict(id='c15-slist-clear-reads-next-after-callback', kind='fault', rule='K1', edits=[
        ('src/slist.c', '        struct cstl_slist_node * const n = h->n;\n        clr(__cstl_slist_element(sl, h), NULL);\n        h = n;', '        clr(__cstl_slist_element(sl, h), NULL);\n        h = h->n;')]),
    dict(id='c15-dlist-clear-callback-before-unlink', kind='fault', rule='K1', edits=[
        ('src/dlist.c', '    while (l->size > 0) {\n        clr(__cstl_dlist_erase(l, l->h.n), NULL);\n    }', '    while (l->size > 0) {\n        struct cstl_dlist_node * const n = l->h.n;\n        clr(__cstl_dlist_element(l, n), NULL);\n        __cstl_dlist_erase(l, n);\n    }')]),
    dict(id='c15-walker-rereads-right-child', kind='fault', rule='K1', edits=[
        ('src/bintree.c', '    if (res == 0 && rn != NULL) {\n        /* visit the subtree rooted at the right child */\n        res = __cstl_bintree_foreach(rn, visit, priv, l, r);\n    }\n\n    if (res == 0 && leaf == 0) {',
         '    if (res == 0 && rn != NULL) {\n        /* visit the subtree rooted at the right child */\n        res = __cstl_bintree_foreach(rn, visit, priv, l, r);\n    }\n\n    if (res == 0 && leaf != 0 && *r(bn) != NULL) {\n        res = 1;\n    }\n\n    if (res == 0 && leaf == 0) {')]),
    dict(id='c15-walker-children-read-late', kind='fault', rule='K1', edits=[
        ('src/bintree.c', '    if (res == 0 && rn != NULL) {\n        /* visit the subtree rooted at the right child */\n        res = __cstl_bintree_foreach(rn, visit, priv, l, r);', '    if (res == 0 && *r(bn) != NULL) {\n        /* visit the subtree rooted at the right child */\n        res = __cstl_bintree_foreach(*r(bn), visit, priv, l, r);')]),
    dict(id='c15-adapter-calls-on-mid', kind='fault', rule='K2', edits=[
        ('src/bintree.c', '    if (order == CSTL_BINTREE_VISIT_ORDER_POST\n        || order == CSTL_BINTREE_VISIT_ORDER_LEAF) {', '    if (order == CSTL_BINTREE_VISIT_ORDER_MID\n        || order == CSTL_BINTREE_VISIT_ORDER_LEAF) {')]),
    dict(id='c15-adapter-skips-leaf', kind='fault', rule='K2', edits=[
        ('src/bintree.c', '    if (order == CSTL_BINTREE_VISIT_ORDER_POST\n        || order == CSTL_BINTREE_VISIT_ORDER_LEAF) {', '    if (order == CSTL_BINTREE_VISIT_ORDER_POST) {')]),
    dict(id='c15-walker-leaf-also-post', kind='fault', rule='K2', edits=[
        ('src/bintree.c', '    if (res == 0 && leaf == 0) {\n        /* last visit to the current node (if it\'s a non-leaf) */', '    if (res == 0) {\n        /* last visit to the current node (if it\'s a non-leaf) */')]),
    dict(id='c15-walker-skips-left-subtree-when-right-missing', kind='fault', rule='K2', edits=[
        ('src/bintree.c', '    if (res == 0 && ln != NULL) {\n        /* visit the subtree rooted at the left child */', '    if (res == 0 && ln != NULL && rn != NULL) {\n        /* visit the subtree rooted at the left child */')]),
    dict(id='c15-tree-clear-keeps-size', kind='fault', rule='K3', edits=[
        ('src/bintree.c', '        bt->root  = NULL;\n        bt->size = 0;', '        bt->root  = NULL;')]),
    dict(id='c15-slist-clear-no-reinit', kind='fault', rule='K3', edits=[
        ('src/slist.c', '        h = n;\n    }\n\n    cstl_slist_init(sl, sl->off);', '        h = n;\n    }\n\n    sl->h.n = NULL;\n    sl->count = 0;')]),
    dict(id='c15-map-clear-frees-before-callback', kind='fault', rule='K1', edits=[
        ('src/map.c', '        cstl_map_iterator_init(cmc->map, &i, node);\n        i._ = NULL;\n\n        cmc->clr(&i, cmc->priv);\n    }\n\n    cstl_map_node_free(node);', '        cstl_map_iterator_init(cmc->map, &i, node);\n        i._ = NULL;\n\n        cstl_map_node_free(node);\n        cmc->clr(&i, cmc->priv);\n        return;\n    }\n\n    cstl_map_node_free(node);')]),
    dict(id='c15-map-clear-leaks-when-no-callback', kind='fault', rule='K1', edits=[
        ('src/map.c', '        cmc->clr(&i, cmc->priv);\n    }\n\n    cstl_map_node_free(node);', '        cmc->clr(&i, cmc->priv);\n        cstl_map_node_free(node);\n    }')]),
    dict(id='c15-map-clear-attached-iterator', kind='fault', rule='K1', edits=[
        ('src/map.c', '        cstl_map_iterator_init(cmc->map, &i, node);\n        i._ = NULL;\n', '        cstl_map_iterator_init(cmc->map, &i, node);\n')]),
    dict(id='c15-benign-slist-clear-for-loop', kind='benign', edits=[
        ('src/slist.c', '    h = sl->h.n;\n    while (h != NULL) {\n        struct cstl_slist_node * const n = h->n;\n        clr(__cstl_slist_element(sl, h), NULL);\n        h = n;\n    }',
         '    struct cstl_slist_node * n;\n    for (h = sl->h.n; h != NULL; h = n) {\n        n = h->n;\n        clr(__cstl_slist_element(sl, h), NULL);\n    }')]),
    dict(id='c15-benign-adapter-switch', kind='benign', edits=[
        ('src/bintree.c', '    if (order == CSTL_BINTREE_VISIT_ORDER_POST\n        || order == CSTL_BINTREE_VISIT_ORDER_LEAF) {\n        struct cstl_bintree_clear_priv * const bcp = p;',
         '    if (order != CSTL_BINTREE_VISIT_ORDER_PRE\n        && order != CSTL_BINTREE_VISIT_ORDER_MID) {\n        struct cstl_bintree_clear_priv * const bcp = p;')]),
    dict(id='c15-benign-tree-clear-unconditional-reset', kind='benign', edits=[
        ('src/bintree.c', '        bt->root  = NULL;\n        bt->size = 0;\n    }\n}', '    }\n    bt->root = NULL;\n    bt->size = 0;\n}')]),
]

# ------------------------------------------------------------------------------------------- C01
M['C01'] = [
    dict(id='c01-rb-insert-root-not-blackened', kind='fault', rule='W11', edits=[
        ('src/rbtree.c', '    *BN_COLOR(t->t.root) = CSTL_RBTREE_COLOR_B;\n}', '}')]),
    dict(id='c01-benign-rb-insert-root-blackened-if-red', kind='benign', rule='W11', edits=[
        ('src/rbtree.c', '    *BN_COLOR(t->t.root) = CSTL_RBTREE_COLOR_B;\n}', '    if (*BN_COLOR(t->t.root) != CSTL_RBTREE_COLOR_B) {\n        *BN_COLOR(t->t.root) = CSTL_RBTREE_COLOR_B;\n    }\n}')]),
    dict(id='c01-rb-erase-final-black-only-if-moved', kind='fault', rule='W10', edits=[
        ('src/rbtree.c', '        *BN_COLOR(x) = CSTL_RBTREE_COLOR_B;\n    }\n}', '        if (x->p != NULL) {\n            *BN_COLOR(x) = CSTL_RBTREE_COLOR_B;\n        }\n    }\n}')]),
    dict(id='c01-benign-rb-erase-final-black-if-red', kind='benign', rule='W10', edits=[
        ('src/rbtree.c', '        *BN_COLOR(x) = CSTL_RBTREE_COLOR_B;\n    }\n}', '        if (*BN_COLOR(x) == CSTL_RBTREE_COLOR_R) {\n            *BN_COLOR(x) = CSTL_RBTREE_COLOR_B;\n        }\n    }\n}')]),
    dict(id='c01-second-recursion-ignores-stop', kind='fault', rule='W1', edits=[
        ('src/bintree.c', '    if (res == 0 && rn != NULL) {\n        /* visit the subtree rooted at the right child */', '    if (rn != NULL) {\n        /* visit the subtree rooted at the right child */')]),
    dict(id='c01-pre-and-mid-swapped', kind='fault', rule='W1', edits=[
        ('src/bintree.c', '        res = visit(bn, CSTL_BINTREE_VISIT_ORDER_PRE, priv);', '        res = visit(bn, CSTL_BINTREE_VISIT_ORDER_MID, priv);'),
        ('src/bintree.c', '            res = visit(bn, CSTL_BINTREE_VISIT_ORDER_MID, priv);', '            res = visit(bn, CSTL_BINTREE_VISIT_ORDER_PRE, priv);')]),
    dict(id='c01-leaf-reported-as-mid', kind='fault', rule='W1', edits=[
        ('src/bintree.c', '            res = visit(bn, CSTL_BINTREE_VISIT_ORDER_LEAF, priv);', '            res = visit(bn, CSTL_BINTREE_VISIT_ORDER_MID, priv);')]),
    dict(id='c01-stop-value-lost', kind='fault', rule='W1', edits=[
        ('src/bintree.c', '        res = visit(bn, CSTL_BINTREE_VISIT_ORDER_POST, priv);\n    }\n\n    return res;', '        res = visit(bn, CSTL_BINTREE_VISIT_ORDER_POST, priv);\n    }\n\n    return res != 0;')]),
    dict(id='c01-recursion-swaps-selectors', kind='fault', rule='W1', edits=[
        ('src/bintree.c', '        res = __cstl_bintree_foreach(rn, visit, priv, l, r);', '        res = __cstl_bintree_foreach(rn, visit, priv, r, l);')]),
    dict(id='c01-rev-walks-forward', kind='fault', rule='W2', edits=[
        ('src/bintree.c', '            res = __cstl_bintree_foreach(\n                      bt->root, cstl_bintree_foreach_visit, &bfp,\n                      __cstl_bintree_right, __cstl_bintree_left);', '            res = __cstl_bintree_foreach(\n                      bt->root, cstl_bintree_foreach_visit, &bfp,\n                      __cstl_bintree_left, __cstl_bintree_right);')]),
    dict(id='c01-foreach-drops-result', kind='fault', rule='W2', edits=[
        ('src/bintree.c', '            break;\n        }\n    }\n\n    return res;\n}\n\nvoid cstl_bintree_swap', '            break;\n        }\n        res = 0;\n    }\n\n    return res;\n}\n\nvoid cstl_bintree_swap')]),
    dict(id='c01-adapter-normalises-result', kind='fault', rule='W2', edits=[
        ('src/bintree.c', '    return bfp->visit(cstl_bintree_element(bfp->bt, bn), order, bfp->priv);', '    return bfp->visit(cstl_bintree_element(bfp->bt, bn), order, bfp->priv) > 0;')]),
    dict(id='c01-erase-without-size', kind='fault', rule='W3', edits=[
        ('src/bintree.c', '    bt->size--;\n\n    return y;', '    return y;')]),
    dict(id='c01-insert-size-only-when-nonempty', kind='fault', rule='W3', edits=[
        ('src/bintree.c', '    *bc = bn;\n\n    bt->size++;', '    *bc = bn;\n\n    if (bp != NULL) {\n        bt->size++;\n    }')]),
    dict(id='c01-find-descends-right-on-less', kind='fault', rule='W4', edits=[
        ('src/bintree.c', '        if (eq < 0) {\n            bn = bn->l;\n        } else {\n            bn = bn->r;\n        }', '        if (eq < 0) {\n            bn = bn->r;\n        } else {\n            bn = bn->l;\n        }')]),
    dict(id='c01-insert-compares-reversed', kind='fault', rule='W4', edits=[
        ('src/bintree.c', '        if (__cstl_bintree_cmp(bt, bn, bp) < 0) {\n            bc = &bp->l;', '        if (__cstl_bintree_cmp(bt, bp, bn) < 0) {\n            bc = &bp->l;')]),
    dict(id='c01-insert-equal-goes-left-find-right', kind='benign', edits=[
        ('src/bintree.c', '        if (__cstl_bintree_cmp(bt, bn, bp) < 0) {\n            bc = &bp->l;\n        } else {\n            bc = &bp->r;\n        }', '        if (__cstl_bintree_cmp(bt, bn, bp) >= 0) {\n            bc = &bp->r;\n        } else {\n            bc = &bp->l;\n        }')]),
    dict(id='c01-erase-unlinks-without-null-check', kind='fault', rule='W5', edits=[
        ('src/bintree.c', '    if (p != NULL) {\n        (void)__cstl_bintree_erase(bt, __cstl_bintree_node(bt, p));\n    }\n\n    return p;', '    (void)__cstl_bintree_erase(bt, __cstl_bintree_node(bt, p));\n\n    return p;')]),
    dict(id='c01-erase-returns-probe', kind='fault', rule='W5', edits=[
        ('src/bintree.c', '        (void)__cstl_bintree_erase(bt, __cstl_bintree_node(bt, p));\n    }\n\n    return p;', '        (void)__cstl_bintree_erase(bt, __cstl_bintree_node(bt, p));\n        p = (void *)_p;\n    }\n\n    return p;')]),
    dict(id='c01-rbtree-erase-returns-probe', kind='fault', rule='W5', edits=[
        ('src/rbtree.c', '        __cstl_rbtree_erase(t, __cstl_rbtree_node(t, p));\n    }\n    return p;', '        __cstl_rbtree_erase(t, __cstl_rbtree_node(t, p));\n        return (void *)_p;\n    }\n    return p;')]),
    dict(id='c01-find-returns-last-node-when-absent', kind='fault', rule='W6', edits=[
        ('src/bintree.c', '    if (bn != NULL) {\n        return cstl_bintree_element(bt, bn);\n    }\n    return NULL;', '    if (bn != NULL) {\n        return cstl_bintree_element(bt, bn);\n    }\n    return (p != NULL && par == NULL) ? cstl_bintree_element(bt, p) : NULL;')]),
    dict(id='c01-benign-walker-early-returns', kind='benign', edits=[
        ('src/bintree.c', '    if (res == 0 && leaf == 0) {\n        /* first visit to the current node (if it\'s a non-leaf) */\n        res = visit(bn, CSTL_BINTREE_VISIT_ORDER_PRE, priv);\n    }',
         '    if (leaf == 0) {\n        /* first visit to the current node (if it\'s a non-leaf) */\n        res = visit(bn, CSTL_BINTREE_VISIT_ORDER_PRE, priv);\n        if (res != 0) {\n            return res;\n        }\n    }')]),
    dict(id='c01-benign-find-for-loop', kind='benign', edits=[
        ('src/bintree.c', '        p = bn;\n        if (eq < 0) {\n            bn = bn->l;\n        } else {\n            bn = bn->r;\n        }', '        p = bn;\n        bn = (eq < 0) ? bn->l : bn->r;')]),
]

# ------------------------------------------------------------------------------------------- C08
M['C08'] = [
    dict(id='c08-insert-overwrites-value', kind='fault', rule=['P1', 'P3'], edits=[
        ('src/map.c', '    if (i != NULL) {\n        cstl_map_iterator_init(map, i, node);\n    }\n\n    return err;', '    if (err == 1) {\n        node->val = val;\n    }\n    if (i != NULL) {\n        cstl_map_iterator_init(map, i, node);\n    }\n\n    return err;')]),
    dict(id='c08-insert-found-returns-zero', kind='fault', rule='P1', edits=[
        ('src/map.c', '    err = 1;\n    node = __cstl_map_find(map, key, &p);', '    err = 0;\n    node = __cstl_map_find(map, key, &p);')]),
    dict(id='c08-insert-always-allocates', kind='fault', rule='P1', edits=[
        ('src/map.c', '    if (node == NULL) {\n        /* no existing node in the map, carry on */\n        err = -1;\n        node = cstl_map_node_alloc(key, val);', '    {\n        /* no existing node in the map, carry on */\n        err = -1;\n        node = cstl_map_node_alloc(key, val);')]),
    dict(id='c08-insert-iterator-stale-on-failure', kind='fault', rule='P1', edits=[
        ('src/map.c', '    if (i != NULL) {\n        cstl_map_iterator_init(map, i, node);\n    }\n\n    return err;', '    if (i != NULL && err >= 0) {\n        cstl_map_iterator_init(map, i, node);\n    }\n\n    return err;')]),
    dict(id='c08-erase-ignores-missing-key', kind='fault', rule='P2', edits=[
        ('src/map.c', '    if (i._ != NULL) {\n        cstl_map_erase_iterator(map, &i);\n        err = 0;\n    }', '    cstl_map_erase_iterator(map, &i);\n    err = 0;')]),
    dict(id='c08-erase-reports-success-for-absent', kind='fault', rule='P2', edits=[
        ('src/map.c', '    err = -1;\n    cstl_map_find(map, key, &i);', '    err = 0;\n    cstl_map_find(map, key, &i);')]),
    dict(id='c08-erase-iterator-not-detached', kind='fault', rule='P2', edits=[
        ('src/map.c', '        *_i = i;\n        _i->_ = NULL;', '        *_i = i;')]),
    dict(id='c08-erase-iterator-no-free', kind='fault', rule='P2', edits=[
        ('src/map.c', '    __cstl_rbtree_erase(&map->t, &n->n);\n    cstl_map_node_free(n);', '    __cstl_rbtree_erase(&map->t, &n->n);')]),
    dict(id='c08-erase-iterator-free-before-unlink', kind='fault', rule='P2', edits=[
        ('src/map.c', '    __cstl_rbtree_erase(&map->t, &n->n);\n    cstl_map_node_free(n);', '    cstl_map_node_free(n);\n    __cstl_rbtree_erase(&map->t, &n->n);')]),
    dict(id='c08-find-updates-key', kind='fault', rule='P3', edits=[
        ('src/map.c', '    node.key = key;\n    return (void *)cstl_rbtree_find(&map->t, &node, (void *)p);', '    struct cstl_map_node * found;\n    node.key = key;\n    found = (void *)cstl_rbtree_find(&map->t, &node, (void *)p);\n    if (found != NULL) {\n        found->key = key;\n    }\n    return found;')]),
    dict(id='c08-hint-is-found-node', kind='fault', rule='P4', edits=[
        ('src/map.c', '            cstl_rbtree_insert(&map->t, node, p);', '            cstl_rbtree_insert(&map->t, node, node);')]),
    dict(id='c08-hint-from-other-search', kind='fault', rule='P4', edits=[
        ('src/map.c', '    node.key = key;\n    return (void *)cstl_rbtree_find(&map->t, &node, (void *)p);', '    struct cstl_map_node * q = NULL;\n    node.key = key;\n    if (p != NULL) {\n        *p = NULL;\n    }\n    return (void *)cstl_rbtree_find(&map->t, &node, (void *)&q);')]),
    dict(id='c08-benign-insert-early-returns', kind='benign', edits=[
        ('src/map.c', '    err = 1;\n    node = __cstl_map_find(map, key, &p);\n    if (node == NULL) {\n        /* no existing node in the map, carry on */\n        err = -1;\n        node = cstl_map_node_alloc(key, val);\n        if (node != NULL) {\n            cstl_rbtree_insert(&map->t, node, p);\n            err = 0;\n        }\n    }\n\n    if (i != NULL) {\n        cstl_map_iterator_init(map, i, node);\n    }\n\n    return err;',
         '    node = __cstl_map_find(map, key, &p);\n    if (node != NULL) {\n        err = 1;\n    } else {\n        node = cstl_map_node_alloc(key, val);\n        if (node == NULL) {\n            err = -1;\n        } else {\n            err = 0;\n            cstl_rbtree_insert(&map->t, node, p);\n        }\n    }\n\n    if (i != NULL) {\n        cstl_map_iterator_init(map, i, node);\n    }\n\n    return err;')]),
    dict(id='c08-benign-erase-uses-internal-find', kind='benign', edits=[
        ('src/map.c', '    err = -1;\n    cstl_map_find(map, key, &i);\n    if (i._ != NULL) {', '    err = -1;\n    cstl_map_find(map, key, &i);\n    if (!(i._ == NULL)) {')]),
]

# ------------------------------------------------------------------------------------------- C11
M['C11'] = [
    dict(id='c11-pivot-modulo-count-plus-one', kind='fault', rule='X5', edits=[
        ('src/array.c', '            p = rand() % count;', '            p = rand() % (count + 1);')]),
    dict(id='c11-pivot-median-is-count', kind='fault', rule='X5', edits=[
        ('src/array.c', '            p = (count - 1) / 2;\n            mid = __cstl_raw_array_at(arr, size, p);', '            mid = __cstl_raw_array_at(arr, size, (count - 1) / 2);\n            p = (count + 2) / 2;')]),
    dict(id='c11-benign-pivot-half', kind='benign', rule='X5', edits=[
        ('src/array.c', '            p = rand() % count;', '            p = (size_t)rand() % count;')]),
    dict(id='c11-benign-pivot-scaled-correctly', kind='benign', rule='X5', edits=[
        ('src/array.c', '            p = rand() % count;', '            p = ((uint64_t)rand() * count) / ((uint64_t)RAND_MAX + 1);')]),
    dict(id='c11-revert-int-indices-search', kind='fault', rule='X1', edits=[
        ('src/array.c', '    ssize_t i, j;\n\n    for (i = 0, j = count - 1; i <= j;) {\n        const ssize_t n = (i + j) / 2;', '    int i, j;\n\n    for (i = 0, j = count - 1; i <= j;) {\n        const int n = (i + j) / 2;')]),
    dict(id='c11-unsigned-int-count-in-find', kind='fault', rule='X1', edits=[
        ('src/array.c', '    size_t i;\n\n    for (i = 0; i < count; i++) {\n        if (cmp(ex, __cstl_raw_array_at(arr, size, i), priv) == 0) {', '    unsigned int i;\n    const unsigned int n = count;\n\n    for (i = 0; i < n; i++) {\n        if (cmp(ex, __cstl_raw_array_at(arr, size, i), priv) == 0) {')]),
    dict(id='c11-default-redispatches-to-unhandled', kind='fault', rule='X2', edits=[
        ('src/array.c', '            arr, count, size, cmp, priv, swap, tmp,\n            CSTL_SORT_ALGORITHM_DEFAULT);', '            arr, count, size, cmp, priv, swap, tmp,\n            CSTL_SORT_ALGORITHM_HEAP + 1);')]),
    dict(id='c11-default-does-nothing', kind='fault', rule='X2', edits=[
        ('src/array.c', '    default:\n        cstl_raw_array_sort(\n            arr, count, size, cmp, priv, swap, tmp,\n            CSTL_SORT_ALGORITHM_DEFAULT);\n        break;', '    default:\n        break;')]),
    dict(id='c11-heap-case-missing', kind='fault', rule='X2', edits=[
        ('src/array.c', '    case CSTL_SORT_ALGORITHM_HEAP:\n        cstl_raw_array_hsort(arr, count, size, cmp, priv, swap, tmp);\n        break;', '    case CSTL_SORT_ALGORITHM_HEAP:\n        break;')]),
    dict(id='c11-sift-down-right-child-unchecked', kind='fault', rule='X3', edits=[
        ('src/array.c', '        if (r < count\n            && cmp(__cstl_raw_array_at(arr, size, r),', '        if (l < count\n            && cmp(__cstl_raw_array_at(arr, size, r),')]),
    dict(id='c11-sift-down-off-by-one', kind='fault', rule='X3', edits=[
        ('src/array.c', '        if (l < count\n            && cmp(__cstl_raw_array_at(arr, size, l),', '        if (l <= count\n            && cmp(__cstl_raw_array_at(arr, size, l),')]),
    dict(id='c11-find-returns-last-match', kind='fault', rule='X4', edits=[
        ('src/array.c', '    size_t i;\n\n    for (i = 0; i < count; i++) {\n        if (cmp(ex, __cstl_raw_array_at(arr, size, i), priv) == 0) {\n            return i;\n        }\n    }\n\n    return -1;',
         '    size_t i;\n    ssize_t f = -1;\n\n    for (i = 0; i < count; i++) {\n        if (cmp(ex, __cstl_raw_array_at(arr, size, i), priv) == 0) {\n            f = i;\n        }\n    }\n\n    return f;')]),
    dict(id='c11-find-returns-on-nonzero', kind='fault', rule='X4', edits=[
        ('src/array.c', '        if (cmp(ex, __cstl_raw_array_at(arr, size, i), priv) == 0) {\n            return i;', '        if (cmp(ex, __cstl_raw_array_at(arr, size, i), priv) <= 0) {\n            return i;')]),
    dict(id='c11-benign-find-while', kind='benign', edits=[
        ('src/array.c', '    size_t i;\n\n    for (i = 0; i < count; i++) {\n        if (cmp(ex, __cstl_raw_array_at(arr, size, i), priv) == 0) {\n            return i;\n        }\n    }\n\n    return -1;',
         '    size_t i = 0;\n\n    while (i < count) {\n        if (!cmp(ex, __cstl_raw_array_at(arr, size, i), priv)) {\n            return i;\n        }\n        i++;\n    }\n\n    return -1;')]),
    dict(id='c11-benign-dispatch-default-direct', kind='benign', edits=[
        ('src/array.c', '    default:\n        cstl_raw_array_sort(\n            arr, count, size, cmp, priv, swap, tmp,\n            CSTL_SORT_ALGORITHM_DEFAULT);\n        break;', '    default:\n        cstl_raw_array_qsort(arr, count, size, cmp, priv, swap, tmp,\n                             CSTL_SORT_ALGORITHM_QUICK_M);\n        break;')]),
]

# ------------------------------------------------------------------------------------------- C05
M['C05'] = [
    dict(id='c05-share-forgets-soft-increment', kind='fault', rule='M1', edits=[
        ('src/memory.c', '        atomic_fetch_add(&data->ref.hard, 1);\n        atomic_fetch_add(&data->ref.soft, 1);\n    }\n}\n\nvoid cstl_shared_ptr_reset', '        atomic_fetch_add(&data->ref.hard, 1);\n    }\n}\n\nvoid cstl_shared_ptr_reset')]),
    dict(id='c05-share-forgets-hard-increment', kind='fault', rule='M1', edits=[
        ('src/memory.c', '        atomic_fetch_add(&data->ref.hard, 1);\n        atomic_fetch_add(&data->ref.soft, 1);\n    }\n}\n\nvoid cstl_shared_ptr_reset', '        atomic_fetch_add(&data->ref.soft, 1);\n    }\n}\n\nvoid cstl_shared_ptr_reset')]),
    dict(id='c05-lock-success-forgets-soft', kind='fault', rule='M1', edits=[
        ('src/memory.c', '            atomic_fetch_add(&data->ref.soft, 1);\n        } else {', '        } else {')]),
    dict(id='c05-lock-failure-no-undo', kind='fault', rule='M1', edits=[
        ('src/memory.c', '            atomic_fetch_sub(&data->ref.hard, 1);\n            cstl_guarded_ptr_set(&sp->data, NULL);', '            cstl_guarded_ptr_set(&sp->data, NULL);')]),
    dict(id='c05-lock-failure-keeps-pointer', kind='fault', rule='M1', edits=[
        ('src/memory.c', '            atomic_fetch_sub(&data->ref.hard, 1);\n            cstl_guarded_ptr_set(&sp->data, NULL);', '            atomic_fetch_sub(&data->ref.hard, 1);')]),
    dict(id='c05-weak-from-increments-hard', kind='fault', rule='M1', edits=[
        ('src/memory.c', '    data = cstl_guarded_ptr_get(&wp->data);\n    if (data != NULL) {\n        atomic_fetch_add(&data->ref.soft, 1);', '    data = cstl_guarded_ptr_get(&wp->data);\n    if (data != NULL) {\n        atomic_fetch_add(&data->ref.hard, 1);\n        atomic_fetch_add(&data->ref.soft, 1);')]),
    dict(id='c05-share-without-dropping-old', kind='fault', rule='M1', edits=[
        ('src/memory.c', '    cstl_shared_ptr_reset(n);\n    cstl_guarded_ptr_copy(&n->data, &e->data);', '    (void)cstl_guarded_ptr_get(&n->data);\n    cstl_guarded_ptr_copy(&n->data, &e->data);')]),
    dict(id='c05-weak-reset-keeps-pointer', kind='fault', rule='M1', edits=[
        ('src/memory.c', '    if (data != NULL) {\n        cstl_guarded_ptr_set(&wp->data, NULL);\n\n        if (atomic_fetch_sub(&data->ref.soft, 1) == 1) {', '    if (data != NULL) {\n        if (atomic_fetch_sub(&data->ref.soft, 1) == 1) {')]),
    dict(id='c05-alloc-starts-with-two-owners', kind='fault', rule='M1', edits=[
        ('src/memory.c', '            atomic_init(&data->ref.hard, 1);', '            atomic_init(&data->ref.hard, 2);')]),
    dict(id='c05-destroy-on-every-reset', kind='fault', rule='M2', edits=[
        ('src/memory.c', '        if (atomic_fetch_sub(&data->ref.hard, 1) == 1) {\n            cstl_unique_ptr_reset(&data->up);\n        }', '        atomic_fetch_sub(&data->ref.hard, 1);\n        cstl_unique_ptr_reset(&data->up);')]),
    dict(id='c05-free-gated-on-separate-load', kind='fault', rule='M2', edits=[
        ('src/memory.c', '        if (atomic_fetch_sub(&data->ref.soft, 1) == 1) {\n            free(data);\n        }', '        atomic_fetch_sub(&data->ref.soft, 1);\n        if (atomic_load(&data->ref.soft) == 0) {\n            free(data);\n        }')]),
    dict(id='c05-destroy-gated-on-soft', kind='fault', rule='M2', edits=[
        ('src/memory.c', '        if (atomic_fetch_sub(&data->ref.hard, 1) == 1) {\n            cstl_unique_ptr_reset(&data->up);\n        }', '        atomic_fetch_sub(&data->ref.hard, 1);\n        if (atomic_load(&data->ref.soft) == 1) {\n            cstl_unique_ptr_reset(&data->up);\n        }')]),
    dict(id='c05-free-when-count-was-two', kind='fault', rule='M2', edits=[
        ('src/memory.c', '        if (atomic_fetch_sub(&data->ref.soft, 1) == 1) {\n            free(data);', '        if (atomic_fetch_sub(&data->ref.soft, 1) <= 2) {\n            free(data);')]),
    dict(id='c05-unique-reset-free-before-clr', kind='fault', rule='M3', edits=[
        ('src/memory.c', '    if (up->clr.func != NULL) {\n        up->clr.func(ptr, up->clr.priv);\n    }\n    free(ptr);', '    free(ptr);\n    if (up->clr.func != NULL) {\n        up->clr.func(ptr, up->clr.priv);\n    }')]),
    dict(id='c05-unique-reset-no-reinit', kind='fault', rule='M3', edits=[
        ('src/memory.c', '    free(ptr);\n    cstl_unique_ptr_init(up);', '    free(ptr);')]),
    dict(id='c05-unique-release-frees', kind='fault', rule=['M3', 'M4'], edits=[
        ('include/cstl/memory.h', '    cstl_unique_ptr_init(up);\n    return p;', '    free(p);\n    cstl_unique_ptr_init(up);\n    return p;')]),
    dict(id='c05-unique-swap-leaves-clr', kind='fault', rule='M3', edits=[
        ('include/cstl/memory.h', '    cstl_guarded_ptr_swap(&up1->gp, &up2->gp);\n    cstl_swap(&up1->clr, &up2->clr, t, sizeof(t));', '    cstl_guarded_ptr_swap(&up1->gp, &up2->gp);\n    (void)t;')]),
    dict(id='c05-array-frees-directly', kind='fault', rule=('M2', 'M4'), edits=[
        ('src/memory.c', 'bool cstl_shared_ptr_unique(const cstl_shared_ptr_t * const sp)\n{', 'static void drop_block(void * const p)\n{\n    free(p);\n}\n\nbool cstl_shared_ptr_unique(const cstl_shared_ptr_t * const sp)\n{'),
        ('src/memory.c', '    int count = 1;\n    if (data != NULL) {\n        count = atomic_load(&data->ref.soft);\n    }', '    int count = 1;\n    if (data != NULL) {\n        count = atomic_load(&data->ref.soft);\n        if (count == 0) {\n            drop_block((void *)data);\n        }\n    }')]),
    dict(id='c05-benign-reset-restructured', kind='benign', edits=[
        ('src/memory.c', '    if (data != NULL) {\n        if (atomic_fetch_sub(&data->ref.hard, 1) == 1) {\n            cstl_unique_ptr_reset(&data->up);\n        }\n\n        /*\n         * manage the shared data structure via the\n         * weak pointer code; it\'s the same handling\n         */\n        cstl_weak_ptr_reset(sp);\n    }',
         '    if (data == NULL) {\n        return;\n    }\n    if (atomic_fetch_sub(&data->ref.hard, 1) != 1) {\n        cstl_weak_ptr_reset(sp);\n        return;\n    }\n    cstl_unique_ptr_reset(&data->up);\n    cstl_weak_ptr_reset(sp);')]),
    dict(id='c05-benign-share-increment-order', kind='benign', edits=[
        ('src/memory.c', '        atomic_fetch_add(&data->ref.hard, 1);\n        atomic_fetch_add(&data->ref.soft, 1);\n    }\n}\n\nvoid cstl_shared_ptr_reset', '        atomic_fetch_add(&data->ref.soft, 1);\n        atomic_fetch_add(&data->ref.hard, 1);\n    }\n}\n\nvoid cstl_shared_ptr_reset')]),
    dict(id='c05-benign-weak-reset-order', kind='benign', edits=[
        ('src/memory.c', '        cstl_guarded_ptr_set(&wp->data, NULL);\n\n        if (atomic_fetch_sub(&data->ref.soft, 1) == 1) {\n            free(data);\n        }', '        const size_t before = atomic_fetch_sub(&data->ref.soft, 1);\n        cstl_guarded_ptr_set(&wp->data, NULL);\n        if (before == 1) {\n            free(data);\n        }')]),
]

# ------------------------------------------------------------------------------------------- C06
M['C06'] = [
    # explicit-orders refactoring (seeded C06-3: release-only decrements) made correct again by the acquire-fence idiom
    dict(id='c06-benign-release-decrement-plus-acquire-fence', kind='benign', rule='A2', patch=os.path.join(os.path.dirname(os.path.abspath(__file__)), '..', 'seeded', 'C06-3', 'patch.diff'), edits=[
        ('src/memory.c', '        if (cstl_ref_release(&data->ref.hard) == 1) {\n', '        if (cstl_ref_release(&data->ref.hard) == 1) {\n            atomic_thread_fence(memory_order_acquire);\n'),
        ('src/memory.c', '        if (cstl_ref_release(&data->ref.soft) == 1) {\n', '        if (cstl_ref_release(&data->ref.soft) == 1) {\n            atomic_thread_fence(memory_order_acquire);\n')]),
    dict(id='c06-release-decrement-fence-only-on-one-counter', kind='fault', rule='A2', patch=os.path.join(os.path.dirname(os.path.abspath(__file__)), '..', 'seeded', 'C06-3', 'patch.diff'), edits=[
        ('src/memory.c', '        if (cstl_ref_release(&data->ref.hard) == 1) {\n', '        if (cstl_ref_release(&data->ref.hard) == 1) {\n            atomic_thread_fence(memory_order_acquire);\n')]),
    dict(id='c06-plain-counter-type', kind='fault', rule='A1', edits=[
        ('src/memory.c', '        atomic_size_t hard, soft;', '        size_t hard;\n        atomic_size_t soft;'),
        ('src/memory.c', '            atomic_init(&data->ref.hard, 1);', '            data->ref.hard = 1;'),
        ('src/memory.c', '        atomic_fetch_add(&data->ref.hard, 1);\n        atomic_fetch_add(&data->ref.soft, 1);\n    }\n}\n\nvoid cstl_shared_ptr_reset', '        data->ref.hard++;\n        atomic_fetch_add(&data->ref.soft, 1);\n    }\n}\n\nvoid cstl_shared_ptr_reset'),
        ('src/memory.c', '        if (atomic_fetch_sub(&data->ref.hard, 1) == 1) {\n            cstl_unique_ptr_reset(&data->up);', '        if (data->ref.hard-- == 1) {\n            cstl_unique_ptr_reset(&data->up);'),
        ('src/memory.c', '        if (atomic_fetch_add(&data->ref.hard, 1) > 0) {', '        if (data->ref.hard++ > 0) {'),
        ('src/memory.c', '            atomic_fetch_sub(&data->ref.hard, 1);\n            cstl_guarded_ptr_set(&sp->data, NULL);', '            data->ref.hard--;\n            cstl_guarded_ptr_set(&sp->data, NULL);')]),
    dict(id='c06-relaxed-gating-decrement', kind='fault', rule='A2', edits=[
        ('src/memory.c', '        if (atomic_fetch_sub(&data->ref.soft, 1) == 1) {\n            free(data);', '        if (atomic_fetch_sub_explicit(&data->ref.soft, 1, memory_order_relaxed) == 1) {\n            free(data);')]),
    dict(id='c06-release-only-hard-decrement', kind='fault', rule='A2', edits=[
        ('src/memory.c', '        if (atomic_fetch_sub(&data->ref.hard, 1) == 1) {\n            cstl_unique_ptr_reset(&data->up);', '        if (atomic_fetch_sub_explicit(&data->ref.hard, 1, memory_order_release) == 1) {\n            cstl_unique_ptr_reset(&data->up);')]),
    dict(id='c06-flag-cleared-before-undo', kind='fault', rule='A4', edits=[
        ('src/memory.c', '        } else {\n            /* the memory wasn\'t live, put the counter back */\n            atomic_fetch_sub(&data->ref.hard, 1);\n            cstl_guarded_ptr_set(&sp->data, NULL);\n        }\n\n        atomic_flag_clear(&data->ref.lock);',
         '            atomic_flag_clear(&data->ref.lock);\n        } else {\n            /* the memory wasn\'t live, put the counter back */\n            atomic_flag_clear(&data->ref.lock);\n            atomic_fetch_sub(&data->ref.hard, 1);\n            cstl_guarded_ptr_set(&sp->data, NULL);\n        }')]),
    dict(id='c06-no-spin-loop', kind='fault', rule='A4', edits=[
        ('src/memory.c', '        while (atomic_flag_test_and_set(&data->ref.lock)) {\n            sched_yield(); // GCOV_EXCL_LINE\n        }\n', ''),
        ('src/memory.c', '        atomic_flag_clear(&data->ref.lock);\n    }\n}\n\nvoid cstl_weak_ptr_reset', '    }\n}\n\nvoid cstl_weak_ptr_reset')]),
    dict(id='c06-flag-not-released-on-failure', kind='fault', rule='A3', edits=[
        ('src/memory.c', '            cstl_guarded_ptr_set(&sp->data, NULL);\n        }\n\n        atomic_flag_clear(&data->ref.lock);', '            cstl_guarded_ptr_set(&sp->data, NULL);\n            return;\n        }\n\n        atomic_flag_clear(&data->ref.lock);')]),
    dict(id='c06-blocking-call-under-flag', kind='fault', rule='A3', edits=[
        ('src/memory.c', '            /* the memory wasn\'t live, put the counter back */\n            atomic_fetch_sub(&data->ref.hard, 1);\n            cstl_guarded_ptr_set(&sp->data, NULL);', '            /* the memory wasn\'t live, put the counter back */\n            atomic_fetch_sub(&data->ref.hard, 1);\n            cstl_guarded_ptr_set(&sp->data, NULL);\n            sched_yield();')]),
    dict(id='c06-soft-before-hard-in-reset', kind='fault', rule='A5', edits=[
        ('src/memory.c', '        if (atomic_fetch_sub(&data->ref.hard, 1) == 1) {\n            cstl_unique_ptr_reset(&data->up);\n        }\n\n        /*\n         * manage the shared data structure via the\n         * weak pointer code; it\'s the same handling\n         */\n        cstl_weak_ptr_reset(sp);',
         '        const size_t soft_before = atomic_fetch_sub(&data->ref.soft, 1);\n        if (atomic_fetch_sub(&data->ref.hard, 1) == 1) {\n            cstl_unique_ptr_reset(&data->up);\n        }\n        cstl_guarded_ptr_set(&sp->data, NULL);\n        if (soft_before == 1) {\n            free(data);\n        }')]),
    dict(id='c06-benign-explicit-seq-cst', kind='benign', edits=[
        ('src/memory.c', '        if (atomic_fetch_sub(&data->ref.soft, 1) == 1) {\n            free(data);', '        if (atomic_fetch_sub_explicit(&data->ref.soft, 1, memory_order_acq_rel) == 1) {\n            free(data);')]),
    dict(id='c06-benign-flag-clear-in-both-branches', kind='benign', edits=[
        ('src/memory.c', '            atomic_fetch_add(&data->ref.soft, 1);\n        } else {\n            /* the memory wasn\'t live, put the counter back */\n            atomic_fetch_sub(&data->ref.hard, 1);\n            cstl_guarded_ptr_set(&sp->data, NULL);\n        }\n\n        atomic_flag_clear(&data->ref.lock);',
         '            atomic_fetch_add(&data->ref.soft, 1);\n            atomic_flag_clear(&data->ref.lock);\n        } else {\n            /* the memory wasn\'t live, put the counter back */\n            atomic_fetch_sub(&data->ref.hard, 1);\n            atomic_flag_clear(&data->ref.lock);\n            cstl_guarded_ptr_set(&sp->data, NULL);\n        }')]),
]
