"""Two-way test of the checker itself (DESIGN.md 6).

Mutations are (file, old text, new text) triples applied to a scratch copy of the *current* /repo
(mktemp, removed afterwards).  `fault` mutations must make the named rule report a violation that
names the mutated function; `benign` mutations (behaviour-preserving rewrites) must leave every
rule silent.  A mutation whose old text no longer occurs is skipped and listed.  A miss or a false
alarm means the checker is broken: it is printed as SELFTEST-FAIL and recorded in the evidence; it
never produces a VIOLATION line.
"""
import importlib
import os
import shutil
import tempfile
import traceback

from . import model, report


def scratch_copy(repo):
    d = tempfile.mkdtemp(prefix='cstlsa-mut-')
    for sub in ('src', 'include'):
        shutil.copytree(os.path.join(repo, sub), os.path.join(d, sub))
    shutil.copy(os.path.join(repo, 'Makefile'), os.path.join(d, 'Makefile'))
    return d


def apply_edits(root, edits):
    """edits: [(relative file, old, new)]; returns None on success or a reason string"""
    for rel, old, new in edits:
        p = os.path.join(root, rel)
        try:
            s = open(p).read()
        except OSError:
            return 'file %s missing' % rel
        if s.count(old) < 1:
            return 'anchor text not found in %s' % rel
        s = s.replace(old, new, 1)
        with open(p, 'w') as fh:
            fh.write(s)
    return None


def apply_patch(root, patch):
    import subprocess
    p = subprocess.run(['patch', '-p1', '-s', '-d', root, '-i', patch], stdout=subprocess.PIPE, stderr=subprocess.STDOUT)
    if p.returncode:
        return 'patch no longer applies: %s' % p.stdout.decode(errors='replace')[-200:]
    return None


def seeded_mutations(pid):
    """independently written breaking changes kept under /verif/seeded (sub-agents saw only the property text):
    those that property `pid` is recorded to catch become fault mutations of its matrix"""
    import glob
    import json
    out = []
    base = os.path.join(os.path.dirname(os.path.dirname(os.path.abspath(__file__))), 'seeded')
    for mf in sorted(glob.glob(os.path.join(base, '*', 'meta.json'))):
        try:
            meta = json.load(open(mf))
        except (OSError, ValueError):
            continue
        d = os.path.dirname(mf)
        if pid in meta.get('caught_by', []):
            out.append({'id': 'seeded:' + os.path.basename(d), 'kind': 'fault', 'rule': None, 'patch': os.path.join(d, 'patch.diff'), 'edits': []})
        elif pid in meta.get('refused_by', []) and meta.get('property') == pid:
            out.append({'id': 'seeded:' + os.path.basename(d), 'kind': 'fault', 'rule': None, 'patch': os.path.join(d, 'patch.diff'), 'edits': [], 'accept_undecided': True})
    return out


def benign_mutations(pid):
    """independently written behaviour-preserving refactorings kept under /verif/benign: those touching the
    files property `pid` is anchored in must leave it silent"""
    import glob
    import json
    out = []
    base = os.path.join(os.path.dirname(os.path.dirname(os.path.abspath(__file__))), 'benign')
    for mf in sorted(glob.glob(os.path.join(base, '*', 'meta.json'))):
        try:
            meta = json.load(open(mf))
        except (OSError, ValueError):
            continue
        if pid in meta.get('relevant_properties', []):
            d = os.path.dirname(mf)
            out.append({'id': 'benign:' + os.path.basename(d), 'kind': 'benign', 'patch': os.path.join(d, 'patch.diff'), 'edits': [],
                        'no_verdict': pid in meta.get('no_verdict_for', [])})
    return out


def analyse(pid, repo, tier='quick'):
    """run the rules of one property on `repo`; returns the Report (not finished, nothing printed)"""
    rep = report.Report(pid, tier, 0)
    mod = importlib.import_module('cstlsa.rules.' + pid.lower())
    m = None
    try:
        m = model.Model(config='release', repo=repo, want_inl=(pid != 'C18'))
        mod.run(m, rep, tier)
    except model.ModelError as e:
        rep.analysis_broken('model: %s' % e)
    except Exception:
        rep.analysis_broken('internal error: ' + traceback.format_exc()[-1500:])
    finally:
        # the model's scratch directory is only needed while the rules run (a matrix builds hundreds of models)
        if m is not None:
            shutil.rmtree(m.work, ignore_errors=True)
            if getattr(m, '_other', None) is not None:
                shutil.rmtree(m._other.work, ignore_errors=True)
    return rep


def verdicts(rep):
    out = {'VIOLATION': [], 'UNDECIDED': [], 'PASS': 0}
    for r in rep.rules:
        for i in r.instances:
            if i['verdict'] == 'PASS':
                out['PASS'] += 1
            else:
                out[i['verdict']].append((r.id, i['site'], i['detail']))
    return out


def run_mutation(pid, mut, repo):
    d = scratch_copy(repo)
    try:
        why = apply_patch(d, mut['patch']) if mut.get('patch') else None
        if not why and mut.get('edits'):
            why = apply_edits(d, mut['edits'])
        if why:
            return {'id': mut['id'], 'status': 'skipped', 'why': why}
        # the variant must still compile with the project's flags
        rep = analyse(pid, d)
        v = verdicts(rep)
        # a rule that matches fewer instances than its floor makes the real check exit 2 as well (vanished anchor)
        for r_ in rep.rules:
            try:
                if r_.count() < r_.floor:
                    v['UNDECIDED'].append((r_.id, 'below-floor', '%d instance(s), floor %d' % (r_.count(), r_.floor)))
            except Exception:                    # noqa: BLE001
                pass
        res = {'id': mut['id'], 'kind': mut['kind'], 'violations': [(a, b) for a, b, _ in v['VIOLATION']],
               'undecided': [(a, b) for a, b, _ in v['UNDECIDED']], 'broken': rep.broken[:3]}
        if mut['kind'] == 'fault':
            want = mut.get('rule')
            hit = [x for x in v['VIOLATION'] if (want is None or x[0] == want or x[0] in (want if isinstance(want, (list, tuple)) else ()))]
            if mut.get('site'):
                hit = [x for x in hit if mut['site'] in x[1] or mut['site'] in x[2]]
            res['status'] = 'caught' if hit else 'MISSED'
            if not hit and mut.get('accept_undecided') and v['UNDECIDED']:
                # the engine refuses to pass the variant (exit 2) but cannot name a wrapping input
                res['status'] = 'refused(undecided)'
            if rep.broken and not hit:
                res['status'] = 'MISSED(broken)'
        else:
            res['status'] = 'silent' if not v['VIOLATION'] and not v['UNDECIDED'] and not rep.broken else 'FALSE-ALARM'
            if mut.get('no_verdict') and not v['VIOLATION'] and (v['UNDECIDED'] or rep.broken):
                # a different algorithm the rule cannot see into: the recorded outcome is "no verdict" (exit 2), never a violation
                res['status'] = 'no-verdict(expected)'
        return res
    finally:
        shutil.rmtree(d, ignore_errors=True)


def baseline_violations(pid, repo):
    rep = analyse(pid, repo)
    return {(a, b) for a, b, _ in verdicts(rep)['VIOLATION']}


def _run_mutation_job(job):
    pid, mu, repo = job
    return run_mutation(pid, mu, repo)


def run_matrix(pid, repo, muts, workers=None):
    # one process per variant (the analyses are pure Python and independent): VERIF_SELFTEST_JOBS overrides the default
    from concurrent.futures import ProcessPoolExecutor
    muts = list(muts) + seeded_mutations(pid) + benign_mutations(pid)
    base = baseline_violations(pid, repo)
    results = []
    if workers is None:
        workers = int(os.environ.get('VERIF_SELFTEST_JOBS', '0')) or max(2, min(12, (os.cpu_count() or 4) - 2))
    with ProcessPoolExecutor(max_workers=workers) as ex:
        for res in ex.map(_run_mutation_job, [(pid, mu, repo) for mu in muts]):
            # violations already present on the unmutated tree do not count for or against a mutation
            if 'violations' in res:
                new = [v for v in res['violations'] if tuple(v) not in base]
                res['new_violations'] = new
                if res['kind'] == 'benign' and res['status'] != 'no-verdict(expected)':
                    res['status'] = 'silent' if not new and not res['undecided'] and not res['broken'] else 'FALSE-ALARM'
            results.append(res)
    return results
