"""Declaration-level facts from clang's type-checked AST (JSON dump).

Used by the header/linkage rules (C18), the documentation-contract rules (@retval NULL: C12/C13)
and to list public entry points and their parameter typedefs (C20).
"""
import glob
import json
import os
import subprocess

from . import model as _model


def public_headers(repo):
    """include/cstl/*.h except the guard-less templates (leading underscore), sorted"""
    hs = sorted(glob.glob(os.path.join(repo, 'include', 'cstl', '*.h')))
    return [h for h in hs if not os.path.basename(h).startswith('_')]


def all_headers(repo):
    return sorted(glob.glob(os.path.join(repo, 'include', 'cstl', '*.h')))


class Decl:
    __slots__ = ('kind', 'name', 'file', 'line', 'storage', 'inline', 'has_body', 'has_init', 'type',
                 'params', 'retvals', 'doc', 'implicit', 'prev')

    def __repr__(self):
        return '<%s %s %s:%d %s%s%s>' % (self.kind, self.name, os.path.basename(self.file or '?'), self.line,
                                         self.storage or 'extern*', ' inline' if self.inline else '',
                                         ' {}' if self.has_body else '')


class _Walker:
    """clang's JSON dumper omits 'file' (and 'line') when unchanged from the previously printed
    location, so locations must be tracked in document order."""

    def __init__(self):
        self.file = None
        self.line = 0
        self.decls = []
        self.enums = {}

    def _loc(self, d):
        if not isinstance(d, dict):
            return
        # a location may be split in spelling/expansion
        for k in ('spellingLoc', 'expansionLoc'):
            if k in d:
                self._loc(d[k])
        if 'file' in d:
            self.file = d['file']
        if 'line' in d:
            self.line = d['line']

    def walk(self, node, depth=0):
        if not isinstance(node, dict):
            return
        myfile = myline = None
        for k, v in node.items():
            if k == 'loc':
                self._loc(v)
                myfile, myline = self.file, self.line
                if isinstance(v, dict) and 'expansionLoc' in v:
                    e = v['expansionLoc']
                    # use expansion location for attribution
                    if 'file' in e:
                        myfile = e['file']
                    myline = e.get('line', myline)
            elif k == 'range':
                if isinstance(v, dict):
                    self._loc(v.get('begin'))
                    self._loc(v.get('end'))
            elif k == 'inner':
                kind = node.get('kind')
                if kind == 'EnumDecl':
                    nxt = 0
                    for c in v:
                        if isinstance(c, dict) and c.get('kind') == 'EnumConstantDecl':
                            val = _enum_value(c)
                            if val is None:
                                val = nxt
                            self.enums[c.get('name')] = val
                            nxt = val + 1
                if depth == 1 and kind in ('FunctionDecl', 'VarDecl'):
                    self.decls.append(self._decl(node, myfile, myline))
                for c in v:
                    self.walk(c, depth + 1)
        if 'inner' not in node and depth == 1 and node.get('kind') in ('FunctionDecl', 'VarDecl'):
            self.decls.append(self._decl(node, myfile, myline))

    def _decl(self, node, file, line):
        d = Decl()
        d.kind = node['kind']
        d.name = node.get('name', '')
        d.file = file
        d.line = line or 0
        d.storage = node.get('storageClass')
        d.inline = bool(node.get('inline'))
        d.implicit = bool(node.get('isImplicit'))
        d.type = (node.get('type') or {}).get('qualType', '')
        d.prev = node.get('previousDecl')
        inner = node.get('inner', [])
        d.has_body = any(c.get('kind') == 'CompoundStmt' for c in inner if isinstance(c, dict))
        d.has_init = 'init' in node
        d.params = [((c.get('type') or {}).get('qualType', ''), c.get('name', '')) for c in inner
                    if isinstance(c, dict) and c.get('kind') == 'ParmVarDecl']
        d.retvals = []
        d.doc = ''
        for c in inner:
            if isinstance(c, dict) and c.get('kind') == 'FullComment':
                d.doc = _text(c)
                for b in _find(c, 'BlockCommandComment'):
                    if b.get('name') == 'retval':
                        d.retvals.append(_text(b).strip())
        return d


def _enum_value(c):
    for x in c.get('inner', []) or []:
        if isinstance(x, dict):
            if 'value' in x:
                try:
                    return int(x['value'])
                except (TypeError, ValueError):
                    pass
            v = _enum_value(x)
            if v is not None:
                return v
    return None


def _find(node, kind):
    out = []
    if isinstance(node, dict):
        if node.get('kind') == kind:
            out.append(node)
        for c in node.get('inner', []):
            out += _find(c, kind)
    return out


def _text(node):
    if not isinstance(node, dict):
        return ''
    if node.get('kind') == 'TextComment':
        return node.get('text', '')
    return ' '.join(_text(c) for c in node.get('inner', []))


def ast_decls(src_text, flags, workdir, name):
    src = os.path.join(workdir, name + '.c')
    with open(src, 'w') as fh:
        fh.write(src_text)
    cmd = [_model.CLANG, '-fsyntax-only', '-w', '-Xclang', '-ast-dump=json', '-fparse-all-comments'] + flags + [src]
    p = subprocess.run(cmd, stdout=subprocess.PIPE, stderr=subprocess.PIPE)
    if p.returncode != 0:
        raise _model.ModelError('AST dump failed for %s: %s' % (name, p.stderr.decode(errors='replace')[-2000:]))
    tu = json.loads(p.stdout)
    w = _Walker()
    w.walk(tu, 0)
    _enum_cache[name] = w.enums
    return w.decls


_enum_cache = {}


def enum_constants(m):
    """{enumerator name: value} for every enum in the public headers"""
    header_decls(m)
    return dict(_enum_cache.get('ast_headers', {}))


_cache = {}


def header_decls(m):
    """top-level function/variable declarations seen when every public header is included once"""
    key = (m.repo, m.config, 'hdr')
    if key not in _cache:
        text = ''.join('#include "%s"\n' % h for h in public_headers(m.repo))
        _cache[key] = ast_decls(text, m.flags, m.work, 'ast_headers')
    return _cache[key]


def own_functions(m, header):
    """names of the functions a public header itself declares or defines, seen when it is the only header included"""
    key = (m.repo, m.config, 'own', header)
    if key not in _cache:
        base = os.path.basename(header)
        save = _enum_cache.get('ast_headers')
        ds = ast_decls('#include "%s"\n' % header, m.flags, m.work, 'ast_own_' + base.replace('.', '_'))
        want = os.path.realpath(os.path.join(m.repo, 'include', 'cstl', base))
        out = []
        for d in ds:
            if d.kind == 'FunctionDecl' and not d.implicit and os.path.realpath(d.file or '') == want and d.name not in out:
                out.append(d.name)
        _cache[key] = out
    return _cache[key]


def in_public_header(m, d):
    f = os.path.realpath(d.file or '')
    inc = os.path.realpath(os.path.join(m.repo, 'include', 'cstl')) + os.sep
    return f.startswith(inc)


def header_function_names(m):
    names = []
    for d in header_decls(m):
        if d.kind == 'FunctionDecl' and not d.implicit and in_public_header(m, d) and d.name not in names:
            names.append(d.name)
    if not names:
        raise _model.ModelError('no function declarations found in include/cstl/*.h')
    return names


def unit_decls(m, unit_src, name):
    key = (m.repo, m.config, unit_src)
    if key not in _cache:
        _cache[key] = ast_decls('#include "%s"\n' % unit_src, m.flags, m.work, 'ast_' + name)
    return _cache[key]
