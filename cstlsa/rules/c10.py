"""C10 - strings equal a reference string after every edit and stay NUL-terminated (decided clauses).

All rules run on both instantiations (cstl_string_*, cstl_wstring_*).

T1 overflow-safe guards and growth   in every string entry point (whole-library inlined IR) every
        parameter-derived unsigned add/mul that reaches an allocation size, the vector's element
        count, or is an operand of a branch condition is proven non-wrapping; `size - pos` style
        subtractions in branch conditions are proven non-wrapping too.  Exempt: the `+ 1` in
        *_reserve (a wrapped request only asks for less: monotone, harmless).              [nw rule]
T2 terminator     every function that calls cstl_vector_resize on a string's vector asks for n + 1
        elements and stores the NUL at element n through the *re-read* base pointer on every path
        to its return; nothing else in the string code changes the element count.
T3 position guards   insert_* : everything that touches the buffer is dominated by pos <=u size, the
        other edge aborts; find_ch / find_str / substr / erase: by pos <u size, the other edge aborts.
T4 str() never returns NULL (the static NUL when there is no storage).
T5 byte counts   handed to memcpy / memmove / memset in the wide instantiation are character counts scaled by the
        character size; a memset there may only fill with 0 (it replicates a byte, not a character).
T6 grow fill     *_resize writes NUL from the old size on (index = the loop variable initialised with the size read before
        the vector was resized); a fill that starts one later is a violation, an unrecognised fill form gets no verdict.
NOT decided: equality with a reference string, agreement of find/compare with the C library.
"""
import os

from .. import nw
from ..facts import Prover, edge_atoms, _k, strip_bitcasts
from ..ir import const_int, resolve_addr, mem_access
from .c17 import abort_only
from .util import header_functions, floc

LE = ('insert_ch', 'insert_str_n')
LT = ('find_ch', 'find_str', 'substr', 'erase')
PREFIXES = ('cstl_string_', 'cstl_wstring_')


def string_entries(m):
    out = {}
    for name, d in header_functions(m, ('_string.h',)).items():
        out[name] = d
    return out


def vcount_load(f, ins):
    if ins is None or ins.op != 'load':
        return False
    a = resolve_addr(f, ins.o[0])
    return a.path.endswith('v.count') or (a.fsteps and a.fsteps[-1] == ('cstl_vector', 'count'))


def _dec_of_count(f, v):
    """v == count - 1 (either `add count, -1` or `sub count, 1`); returns the count load ref or None"""
    if v is None:
        return None
    if (v.op == 'add' and const_int(v.o[1]) == (1 << 64) - 1) or (v.op == 'sub' and const_int(v.o[1]) == 1):
        if vcount_load(f, f.get(v.o[0])):
            return v.o[0]
    return None


def size_values(f):
    """SSA values that are the string's size: phi/select of (count - 1 | count or 0) over the vector count"""
    out = set()
    for i in f.all_insts():
        if i.op == 'phi' and i.ty == 'i64' and len(i.o) == 2:
            vals = [f.get(o) if isinstance(o, str) else None for o in i.o]
            dec = [v for v in vals if _dec_of_count(f, v)]
            if len(dec) == 1:
                other = [o for o, v in zip(i.o, vals) if v is not dec[0]][0]
                if other == _dec_of_count(f, dec[0]) or const_int(other) == 0:
                    out.add(i.ref)
        elif i.op == 'select' and i.ty == 'i64':
            t, e = f.get(i.o[1]), i.o[2]
            c = _dec_of_count(f, t)
            if c and (e == c or const_int(e) == 0):
                out.add(i.ref)
    return out


def strip_ext(f, ref):
    i = f.get(ref) if isinstance(ref, str) else None
    while i is not None and i.op in ('zext', 'sext', 'trunc'):
        ref = i.o[0]
        i = f.get(ref) if isinstance(ref, str) else None
    return ref


def run(m, rep, tier):
    from .. import canaries
    canaries.run(m, rep, ('nw',))
    ents = string_entries(m)
    rep.extra['string_entry_points'] = sorted(ents)
    # ---- T1 --------------------------------------------------------------------------
    t1 = rep.rule('T1', 'parameter-derived arithmetic reaching sizes, the element count or a branch condition cannot wrap', floor=8)
    for name in sorted(ents):
        f = m.ifn(name)
        if f is None:
            t1.undecided(name, 'declared in _string.h but not in the model')
            continue
        ex = None
        if name.endswith('_reserve'):
            def ex(ins, _n=name):
                if ins.srcfn == _n:
                    return 'a wrapped request to reserve only asks for less storage (monotone request, no-op)'
                return None
        nw.check_entry(f, t1, length_fields=('count',), compare=True, exempt=ex)

    # ---- T2 --------------------------------------------------------------------------
    t2 = rep.rule('T2', 'length changes go through a resize that writes the terminator at element n of n+1 via the re-read base', floor=2)
    count_changers = 0
    seen = set()
    for pf in m.all_plain_functions():
        if os.path.basename(pf.file or '') not in ('_string.c', '_string.h', 'string.c', 'string.h'):
            continue
        for c in pf.calls('cstl_vector_resize'):
            if pf.name in seen:
                continue
            seen.add(pf.name)
            f = m.ifn(pf.name)
            if f is None:
                t2.undecided(pf.name, 'no inlined body')
                continue
            count_changers += 1
            _terminator_obligation(m, f, pf, t2, set())
        # direct stores to the vector's count from string code
        for s in pf.all_insts():
            if s.op == 'store':
                a = resolve_addr(pf, s.o[1])
                if a.fsteps and a.fsteps[-1] == ('cstl_vector', 'count'):
                    t2.violation(pf.name + ':store:count', 'string code writes the vector element count directly (bypasses the terminator-writing resize)', s.loc(), {})
    for pfx in PREFIXES:
        if not any(n.startswith(pfx) for n in seen):
            t2.undecided(pfx + '*', 'no function of this instantiation calls cstl_vector_resize: the internal resize was not found')

    # ---- T3 --------------------------------------------------------------------------
    t3 = rep.rule('T3', 'buffer accesses of positional operations are dominated by the documented position bound; the other edge aborts', floor=12)
    for name in sorted(ents):
        kind = None
        for sfx in LE:
            if name in tuple(p + sfx for p in PREFIXES):
                kind = 'le'
        for sfx in LT:
            if name in tuple(p + sfx for p in PREFIXES):
                kind = 'lt'
        if not kind:
            continue
        f = m.ifn(name)
        if f is None:
            t3.undecided(name, 'not in the model')
            continue
        d = ents[name]
        posk = None
        for k, (ty, pn) in enumerate(d.params):
            if pn in ('pos', 'idx') and 'size_t' in ty:
                posk = k
        if posk is None:
            # declaration without names: position is the first size_t parameter after the object
            for k, (ty, pn) in enumerate(d.params):
                if 'size_t' in ty and '*' not in ty:
                    posk = k
                    break
        check_position(m, f, '$%d' % posk, kind, t3)

    # ---- T5 --------------------------------------------------------------------------
    t5 = rep.rule('T5', 'byte counts handed to memcpy / memmove / memset are character counts scaled by the character size', floor=4)
    for name in sorted(ents):
        f = m.ifn(name)
        if f is None:
            continue
        csz = 4 if name.startswith('cstl_wstring_') else 1
        for c in f.all_insts():
            cal = c.callee or ''
            if c.op != 'call' or not cal.startswith(('llvm.memcpy', 'llvm.memmove', 'llvm.memset')):
                continue
            if not c.srcfn.startswith(PREFIXES):
                continue            # copies inside the vector / swap helpers are element-size driven
            ln = c.o[2]
            li = f.get(ln) if isinstance(ln, str) else None
            site = '%s:%s@%s' % (name, cal.split('.')[1], c.srcfn)
            ok = False
            if const_int(ln) is not None:
                ok = const_int(ln) % csz == 0
            elif csz == 1:
                ok = True
            elif li is not None and li.op == 'mul' and csz in (const_int(li.o[0]), const_int(li.o[1])):
                ok = True
            elif li is not None and li.op == 'shl' and const_int(li.o[1]) == 2:
                ok = True
            if ok and cal.startswith('llvm.memset') and csz > 1 and const_int(c.o[1]) != 0:
                t5.violation(site, 'the wide-character instantiation fills characters with memset at %s: memset replicates one byte, so every character '
                             'written is 0x01010101 * (ch & 0xff) instead of ch (only a fill value of 0 is width-independent)' % c.loc(), c.loc(), {})
            elif ok:
                t5.ok(site, 'length %s' % ('x %d' % csz if csz > 1 else 'in bytes = characters'), c.loc())
            else:
                t5.violation(site, 'the wide-character instantiation passes a character count as a byte count to %s at %s (not scaled by sizeof(wchar_t)): '
                             'only part of the characters is copied / cleared' % (cal.split('.')[1], c.loc()), c.loc(), {})

    # ---- T6 --------------------------------------------------------------------------
    t6 = rep.rule('T6', 'resize fills the grown part with NUL starting at the old size (a string without storage has no stored terminator there)', floor=2)
    from ..ir import unit_step
    for pre in PREFIXES:
        f = m.ifn(pre + 'resize')
        if f is None:
            t6.undecided(pre + 'resize', 'not in the inlined model')
            continue
        szv = size_values(f)
        pv = Prover(f)
        found = []
        for st in f.all_insts():
            if st.op != 'store' or const_int(st.o[0]) != 0 or not st.srcfn.endswith('_resize') or st.srcfn.endswith('__resize'):
                continue
            g = f.get(st.o[1])
            if g is None or g.op != 'getelementptr' or not g.x.get('path') or 'idx' not in g.x['path'][0]:
                continue
            idx = g.x['path'][0]['idx']
            base, step = unit_step(f, idx)
            cand = [(idx, 0)] + ([(base, step)] if step else [])
            for ref, off in cand:
                pi = f.get(ref) if isinstance(ref, str) else None
                if pi is None or pi.op != 'phi':
                    continue
                inits = [o for o in pi.o if unit_step(f, o)[0] != pi.ref]
                if len(inits) != 1:
                    continue
                found.append((st, pi, off, inits[0]))
        site = pre + 'resize'
        if not found:
            t6.ok(site, 'NOT DECIDED: no NUL-fill loop recognised (another fill form)', floc(m, f))
            continue
        bad = []
        notes = []
        from ..facts import phi_leaves as _pl
        for st, pi, off, init in found:
            # a start that merges the old size with something else: any alternative read from the capacity skips the part
            # of the grown string that lies inside the old allocation (stale characters of an earlier, longer content)
            ini = f.get(init) if isinstance(init, str) else None
            lv = list(ini.o) if (ini is not None and ini.op in ('phi', 'select') and init not in szv) else [init]
            if ini is not None and ini.op == 'select':
                lv = list(ini.o[1:])
            def from_cap(x):
                for r in nw.family(f, x) if isinstance(x, str) else ():
                    ri = f.get(r) if isinstance(r, str) else None
                    if ri is not None and ri.op == 'load' and resolve_addr(f, ri.o[0]).fsteps[-1:] == (('cstl_vector', 'cap'),):
                        return True
                return False
            capl = [x for x in lv if x not in szv and from_cap(x)]
            if capl and any(x in szv for x in lv):
                bad.append('the NUL fill at %s can start at the old capacity instead of the old size: characters between the old size and the '
                           'old capacity keep whatever an earlier, longer content left there' % st.loc())
                continue
            if init not in szv:
                notes.append('NOT DECIDED: the fill at %s starts from %s, not recognisably the old size' % (st.loc(), nw.describe(f, init)))
                continue
            if off != 0:
                bad.append('the NUL fill at %s starts at old size %+d: position `old size` is never written, and a string that had no storage '
                           '(fresh or cleared) has no terminator stored there, so character [old size] is whatever the allocator returned' % (st.loc(), off))
            else:
                notes.append('fill loop writes [old size, ...) at %s' % st.loc())
        if bad:
            t6.violation(site, '; '.join(bad), floc(m, f), {})
        else:
            t6.ok(site, '; '.join(notes), floc(m, f))

    # ---- T9 --------------------------------------------------------------------------
    t9 = rep.rule('T9', 'compare looks at both strings to their ends: a bounded comparison is not bounded by one operand\'s length alone', floor=2)
    for pre in PREFIXES:
        for nm in ('compare', 'compare_str'):
            f = m.ifn(pre + nm)
            if f is None:
                continue
            site = pre + nm
            full = [c for c in f.all_insts() if c.op == 'call' and c.callee in ('strcmp', 'wcscmp')]
            bounded = [c for c in f.all_insts() if c.op == 'call' and c.callee in ('strncmp', 'wcsncmp', 'memcmp', 'wmemcmp')]
            szv = size_values(f)
            badc = []
            for c in bounded:
                n = strip_ext(f, c.o[2]) if len(c.o) > 2 else None
                ni = f.get(n) if isinstance(n, str) else None
                while ni is not None and ni.op in ('mul', 'shl') and const_int(ni.o[1]) is not None:
                    n = strip_ext(f, ni.o[0])
                    ni = f.get(n) if isinstance(n, str) else None
                if n in szv:
                    badc.append('%s() at %s is bounded by the length of one operand only: when that operand is a proper prefix of the other '
                                '(or empty) the strings compare equal where strcmp / wcscmp order them' % (c.callee, c.loc()))
            if badc:
                t9.violation(site, '; '.join(badc), floc(m, f), {})
            elif full and not bounded:
                t9.ok(site, 'delegates to %s on the full strings' % full[0].callee, floc(m, f))
            else:
                t9.ok(site, 'NOT DECIDED: no unbounded C-library comparison found', floc(m, f))

    # ---- T8 --------------------------------------------------------------------------
    t8 = rep.rule('T8', 'no character pointer read before a reallocation of the storage is used after it', floor=6)
    from .util import check_stale_base
    check_stale_base(m, t8, sorted(ents), lambda a: a.fsteps[-1:] and a.fsteps[-1][1] == 'base' and any(x[0] == 'cstl_vector' for x in a.fsteps), 'the character storage pointer')

    # ---- T4 --------------------------------------------------------------------------
    t4 = rep.rule('T4', 'str() never returns NULL', floor=2)
    for pfx in PREFIXES:
        f = m.ifn(pfx + 'str')
        if f is None:
            t4.undecided(pfx + 'str', 'not in the model')
            continue
        pv = Prover(f)
        bad = []
        for r in f.returns():
            if not pv.prove_at(('ne', _k(r.o[0]), 'null'), r):
                bad.append('the value returned at %s may be NULL' % r.loc())
        if bad:
            t4.violation(f.name, '; '.join(bad), floc(m, f), {})
        else:
            t4.ok(f.name, 'every returned value is a global address or proven non-NULL', floc(m, f))

    # ---- T7: swap completeness ------------------------------------------------------------
    from .util import check_swap_complete
    _sw = rep.rule('T7', 'swap exchanges every member of the two strings', floor=2)
    for _n in ('cstl_string_swap', 'cstl_wstring_swap'):
        check_swap_complete(m, _n, _sw)

    # ---- T10: the NDEBUG build does what the assertion build does ---------------------------------
    from .util import check_assert_effects
    _ae = rep.rule('T10', 'every store / effectful call made with assertions enabled is also made by the NDEBUG build (no work inside assert())', floor=1)
    check_assert_effects(m, _ae, ('_string.c', '_string.h', 'string.c', 'string.h'))

    # ---- T11 / T12 -----------------------------------------------------------------------------------------
    # T11: a string *object* used as a source is measured by its size, never by strlen / wcslen (it may hold NULs)
    t11 = rep.rule('T11', 'a string object used as the source of append / insert is measured by its size, not by strlen / wcslen', floor=2)
    for pfx in PREFIXES:
        for sfx in ('append', 'insert'):
            f = m.ifn(pfx + sfx)
            if f is None:
                continue
            meas = [c for c in f.all_insts() if c.op == 'call' and c.callee in ('strlen', 'wcslen')]
            if meas:
                t11.violation(pfx + sfx, 'the source string object is measured with %s at %s: characters after an embedded NUL are dropped although they are '
                              'part of the object\'s size' % (meas[0].callee, meas[0].loc()), floc(m, f), {})
            else:
                t11.ok(pfx + sfx, 'length taken from the source object\'s size', floc(m, f))
    # T12: ranges of one and the same buffer are moved with memmove
    t12 = rep.rule('T12', 'characters are moved within one buffer with memmove, never memcpy (the ranges overlap when fewer are inserted than follow)', floor=2)
    n12 = 0
    for name in sorted(ents):
        f = m.ifn(name)
        if f is None:
            continue
        for c in f.all_insts():
            cal = c.callee or ''
            if c.op != 'call' or not cal.startswith(('llvm.memcpy', 'llvm.memmove')) or not c.srcfn.startswith(PREFIXES):
                continue
            roots = []
            for o in c.o[:2]:
                r = resolve_addr(f, o).root if isinstance(o, str) else None
                ri = f.get(strip_bitcasts(f, r)) if isinstance(r, str) else None
                # through pointer arithmetic on the buffer pointer
                guard = 0
                while ri is not None and ri.op in ('inttoptr', 'ptrtoint', 'add', 'getelementptr', 'bitcast') and guard < 8:
                    ri = f.get(ri.o[0]) if isinstance(ri.o[0], str) else None
                    guard += 1
                if ri is not None and ri.op == 'load' and resolve_addr(f, ri.o[0]).path.endswith('elem.base'):
                    roots.append(resolve_addr(f, ri.o[0]).root)
                else:
                    roots.append(None)
            if roots[0] is None or roots[0] != roots[1]:
                continue
            n12 += 1
            site = '%s:%s' % (name, c.srcfn)
            if cal.startswith('llvm.memcpy'):
                t12.violation(site, 'source and destination at %s are ranges of the same string buffer but are copied with memcpy: they overlap whenever fewer '
                              'characters are inserted / erased than lie behind the position' % c.loc(), c.loc(), {})
            else:
                t12.ok(site, 'memmove within the buffer', c.loc())
    if n12 == 0:
        t12.undecided('strings', 'no move within a string buffer found')

    # ---- T13: counts and positions are never compared as signed values -----------------------------------------
    t13 = rep.rule('T13', 'no size_t position / count (or a difference of such) is compared as a signed value in the string code', floor=10)
    for name in sorted(ents):
        f = m.ifn(name)
        if f is None:
            continue
        tnt = nw.tainted(f)
        sg = [i for i in f.all_insts() if i.op == 'icmp' and i.pred in ('slt', 'sle', 'sgt', 'sge') and i.srcfn.startswith(PREFIXES)
              and any(isinstance(o, str) and o in tnt for o in i.o)]
        if sg:
            t13.violation(name, 'a value computed from a size_t parameter is compared as signed at %s: counts above SSIZE_MAX (the all-ones "to the end" '
                          'value) take the wrong branch' % sg[0].loc(), floc(m, f), {})
        else:
            t13.ok(name, 'no signed comparison of parameter-derived sizes', floc(m, f))

    # ---- T14: substr defines its destination on every path ---------------------------------------------------------------
    from .util import writes_through_param
    t14 = rep.rule('T14', 'substr (re)defines the destination string on every path to its return, an empty result included', floor=2)
    for pfx in PREFIXES:
        f = m.pfn(pfx + 'substr')
        if f is None:
            t14.undecided(pfx + 'substr', 'not in the model')
            continue
        verdict = None
        for k in range(len(f.args)):
            root = '$%d' % k
            defs = set()
            for i in f.all_insts():
                if i.op == 'store':
                    r = resolve_addr(f, i.o[1]).root
                    if isinstance(r, str) and strip_bitcasts(f, r) == root:
                        defs.add(i.block.name)
                elif i.op == 'call' and i.callee and not i.is_intrinsic():
                    g = m.pfn(i.callee)
                    for j, o in enumerate(i.o):
                        if isinstance(o, str):
                            r = resolve_addr(f, o).root
                            if isinstance(r, str) and strip_bitcasts(f, r) == root and writes_through_param(m, g, j):
                                defs.add(i.block.name)
            if not defs:
                continue
            # is a return reachable from the entry without passing a block that writes the destination?
            seen, todo, leak = set(), [f.blocks[0]], None
            while todo:
                b = todo.pop()
                if b.name in seen or b.name in defs:
                    continue
                seen.add(b.name)
                t = b.insts[-1]
                if t.op == 'ret':
                    leak = t
                    break
                todo.extend(b.succ)
            verdict = (k, leak, len(defs))
            if leak is None:
                break
        if verdict is None:
            t14.violation(pfx + 'substr', 'no parameter is written through at all: the destination keeps whatever it held', floc(m, f), {})
        elif verdict[1] is not None:
            t14.violation(pfx + 'substr', 'the return at %s is reachable without the destination being resized / written: for that request (an empty result) '
                          'the destination keeps the characters it held before instead of becoming the requested substring' % verdict[1].loc(), floc(m, f), {})
        else:
            t14.ok(pfx + 'substr', 'every path to a return passes one of %d write(s) / resizing call(s) on parameter %d' % (verdict[2], verdict[0]), floc(m, f))



class _Collect:
    """stands in for a rule: remembers the single verdict check_terminator produces"""
    def __init__(self):
        self.kind = None
        self.args = None

    def violation(self, *a):
        self.kind, self.args = 'violation', a

    def ok(self, *a):
        self.kind, self.args = 'ok', a

    def undecided(self, *a):
        self.kind, self.args = 'undecided', a


def _nul_loop_reaches_n(f, s, idx, reqs):
    """the NUL store s, indexed by a loop variable: does the loop run idx over a range that ends exactly at n (for a request
    r = n + 1)?  idx steps by one, starts at a value known to be <= n (or n itself), the store sits under idx <= n and the
    only way out of the loop is idx > n.  Returns the matching request or None."""
    from ..facts import phi_leaves, edge_atoms
    from ..ir import unit_step
    P = f.get(strip_bitcasts(f, idx)) if isinstance(idx, str) else None
    if P is None or P.op != 'phi':
        return None
    pv = Prover(f)
    steps = [o for o in P.o if isinstance(o, str) and unit_step(f, o) == (P.ref, 1)]
    inits = [o for o in P.o if o not in steps]
    if not steps or not inits:
        return None
    for r in reqs:
        n = f.get(r).o[0]
        nk = _k(strip_bitcasts(f, n)) if isinstance(n, str) else n
        if not (pv.prove_at(('ule', P.ref, nk), s) or pv.prove_at(('ult', P.ref, r), s)):
            continue
        def le_n(v, facts):
            return v in (nk, n) or any(op in ('ule', 'ult') and x == v and y in (nk, n) for (op, x, y) in facts)

        def init_ok(o, facts, depth=0):
            o = strip_bitcasts(f, o) if isinstance(o, str) else o
            if le_n(o, facts):
                return True
            oi = f.get(o) if isinstance(o, str) else None
            if oi is not None and oi.op == 'phi' and depth < 3:
                # a merged start value (min(size, n)): each alternative under the facts of its own edge
                return all(init_ok(v, pv.fc.edge_facts(f.bb[bb], oi.block), depth + 1) for v, bb in zip(oi.o, oi.x['bb']))
            return False
        ok = True
        for o, bb in zip(P.o, P.x['bb']):
            if o in inits and not init_ok(o, pv.fc.edge_facts(f.bb[bb], P.block)):
                ok = False
        if not ok:
            continue
        loop = [b for b in f.blocks if f.dominates_block(P.block, b) and P.block in f.reachable_from(b)]
        inl = {b.idx for b in loop}
        exits = [(b, sx) for b in loop for sx in b.succ if sx.idx not in inl and not (sx.insts and sx.term is not None and sx.term.op == 'unreachable')]
        if len(exits) != 1:
            continue
        atoms, _ = edge_atoms(f, exits[0][0], exits[0][1])
        if any((op == 'ult' and x in (nk, n) and y == P.ref) or (op == 'ule' and x == r and y == P.ref) for (op, x, y) in atoms):
            return r
    return None


def check_terminator(m, f, pf, rule):
    """f: inlined body of a function that (un-inlined, pf) calls cstl_vector_resize"""
    bad = []
    # the request: value stored to count without xtor (direct store), also compared against cap
    cstores = [s for s in f.all_insts() if s.op == 'store' and resolve_addr(f, s.o[1]).fsteps[-1:] == (('cstl_vector', 'count'),)]
    reqs = set()
    for s in cstores:
        v = f.get(s.o[0])
        if v is not None and v.op == 'add' and const_int(v.o[1]) == 1 and not vcount_load(f, f.get(v.o[0])):
            reqs.add(v.ref)
    if not reqs:
        rule.violation(pf.name, 'the element count requested from the vector is not of the form n + 1 (no room for the terminator)', floc(m, pf), {})
        return
    allocs = [c for c in f.all_insts() if c.op == 'call' and c.callee in ('realloc', 'malloc')]
    nul = []
    looped = []
    for s in f.all_insts():
        if s.op != 'store':
            continue
        v = s.o[0]
        vi = f.get(v)
        is_nul = const_int(v) == 0 or (vi is not None and vi.op == 'load' and isinstance(vi.o[0], str) and vi.o[0].startswith('@') and vi.o[0].endswith('_nul'))
        if not is_nul:
            continue
        g = f.get(s.o[1])
        if g is None or g.op != 'getelementptr' or len(g.o) != 2:
            continue
        base = f.get(g.o[0])
        while base is not None and base.op == 'bitcast':
            base = f.get(base.o[0])
        if base is None or base.op != 'load' or not resolve_addr(f, base.o[0]).path.endswith('elem.base'):
            continue
        idx = g.o[1]
        match = [r for r in reqs if f.get(r).o[0] == idx]
        if match:
            nul.append((s, base, match[0]))
        else:
            r_loop = _nul_loop_reaches_n(f, s, idx, reqs)
            if r_loop is not None:
                nul.append((s, base, r_loop))
                looped.append(s)
    if not nul:
        rule.violation(pf.name, 'no store of the NUL character at element n (for a request of n + 1 elements) after the resize', floc(m, pf), {})
        return
    for r in f.returns():
        if not any(f.dominates(s, r) or (s in looped and f.dominates(f.get(strip_bitcasts(f, f.get(s.o[1]).o[1])), r)) for s, _, _ in nul):
            bad.append('a path to the return at %s does not write the terminator' % r.loc())
    for s, base, req in nul:
        for a in allocs:
            if f.dominates(base, a) or (base.block is a.block and base.pos < a.pos):
                bad.append('the terminator is written through a base pointer read before the reallocation at %s (stale after a move)' % a.loc())
        for cs in cstores:
            if not (f.dominates(cs, s) or not _reaches(f, s, cs)):
                pass
    # count stores after the terminator (on the way to return) would invalidate it
    for s, _, _ in nul:
        for cs in cstores:
            if _reaches(f, s, cs) and not f.dominates(cs, s):
                bad.append('the element count is changed at %s after the terminator was written' % cs.loc())
    if bad:
        rule.violation(pf.name, '; '.join(sorted(set(bad))[:3]), floc(m, pf), {})
    else:
        rule.ok(pf.name, 'request n+1; NUL stored at element n via re-read base; dominates %d return(s)' % len(f.returns()), floc(m, pf))


def _terminator_obligation(m, f, pf, rule, seen):
    """the function that asks the vector for n + 1 elements writes the terminator itself -- or, if it is a private helper
    that only sets the count, every one of its callers does"""
    col = _Collect()
    check_terminator(m, f, pf, col)
    if col.kind == 'violation' and 'no store of the NUL character' in col.args[1] and pf.linkage == 'internal' and pf.name not in seen:
        seen.add(pf.name)
        callers = [g for g in m.all_plain_functions() if os.path.basename(g.file or '') in ('_string.c', '_string.h', 'string.c', 'string.h')
                   and any(c.callee == pf.name for c in g.calls())]
        if callers:
            for g in callers:
                gi = m.ifn(g.name)
                if gi is None:
                    rule.undecided(g.name, 'no inlined body')
                else:
                    _terminator_obligation(m, gi, g, rule, seen)
            return
    getattr(rule, col.kind)(*col.args)


def _reaches(f, a, b):
    """instruction b is reachable after instruction a"""
    if a.block is b.block and a.pos < b.pos:
        return True
    for s in a.block.succ:
        if b.block.idx in {x.idx for x in f.reachable_from(s)}:
            return True
    return False


def check_position(m, f, pos, kind, rule):
    sv = size_values(f)
    if not sv:
        rule.undecided(f.name, 'the string size value (count - 1 | 0) was not recognised in this function', floc(m, f))
        return
    pv = Prover(f)
    bad = []
    want = 'ule' if kind == 'le' else 'ult'
    # the guarding edge(s)
    guard_found = False
    for b in f.blocks:
        if len(b.succ) < 2:
            continue
        for s in b.succ:
            atoms, _ = edge_atoms(f, b, s)
            for (op, x, y) in atoms:
                if kind == 'le' and op == 'ult' and y == pos and x in sv:
                    guard_found = True
                    if not abort_only(f, s):
                        bad.append('position beyond the end (%s -> %s) does not abort' % (b.name, s.name))
                if kind == 'lt' and op == 'ule' and y == pos and x in sv:
                    guard_found = True
                    if not abort_only(f, s):
                        bad.append('position at or beyond the end (%s -> %s) does not abort' % (b.name, s.name))
    if not guard_found:
        bad.append('no check of the position against the string size (%s)' % ('pos > size aborts' if kind == 'le' else 'pos >= size aborts'))
    # everything touching the buffer must be dominated by the bound
    n = 0
    for i in f.all_insts():
        touch = False
        if i.op == 'call' and (i.callee or '').startswith(('llvm.memmove', 'llvm.memcpy', 'strchr', 'strstr', 'wcschr', 'wcsstr', 'memmove', 'memcpy')):
            touch = True
        elif i.op == 'store':
            a = resolve_addr(f, i.o[1])
            rb = f.get(a.root) if isinstance(a.root, str) else None
            if rb is not None and rb.op == 'load' and resolve_addr(f, rb.o[0]).path.endswith('elem.base') and '[]' in a.steps:
                touch = True
        if not touch:
            continue
        n += 1
        if not any(pv.prove_at((want, pos, s), i) for s in sv):
            bad.append('%s at %s is reachable without the bound pos %s size' % (i.callee or 'buffer store', i.loc(), '<=' if kind == 'le' else '<'))
    if bad:
        rule.violation(f.name, '; '.join(sorted(set(bad))[:4]), floc(m, f), {'pos': pos, 'kind': kind})
    else:
        rule.ok(f.name, '%d buffer access(es) under pos %s size; other edge aborts' % (n, '<=' if kind == 'le' else '<'), floc(m, f))
