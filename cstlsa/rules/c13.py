"""C13 - a singly-linked list equals a reference sequence and its tail is the true last (decided clauses).

N1 documented NULL   pop_front / front / back are documented `@retval NULL` for an empty list: some returned
        value must be able to be NULL (a function returning only `node - offset` cannot).
N2 tail discipline   every function that writes a node link (`->n`, including the head link) also writes the
        list's tail pointer on a path connected to that write, or re-initialises the list.  Deliberately
        coarse: `if (sl->t == in) sl->t = nn;` and `if (nn->n == NULL) sl->t = nn;` are both correct.
N3 swap re-anchor    after the bitwise swap, each list whose count is 0 gets t := &list->h (an empty list's
        tail points into its own object, which moved).
N4 foreach           the successor is read before the visit (nothing is accessed through the node afterwards);
        after a non-zero visit no further visit happens and that value is returned.
N5 count bookkeeping a function that adjusts `count` by one does so exactly once on every path; concat adds
        the source's count once and re-initialises the source.
NOT decided: that reverse / sort / merge produce the right order (link-shape reasoning).
"""
from .. import listrules
from ..facts import Prover, strip_bitcasts
from ..ir import const_int, resolve_addr, unit_step
from .util import header_functions, floc

SL = 'cstl_slist'
NODE = 'cstl_slist_node'


def link_stores(f):
    return [s for s in f.all_insts() if s.op == 'store' and resolve_addr(f, s.o[1]).fsteps[-1:] == ((NODE, 'n'),)]


def tail_stores(f):
    return [s for s in f.all_insts() if s.op == 'store' and resolve_addr(f, s.o[1]).fsteps[-1:] == ((SL, 't'),)]


def connected(f, a, b):
    if a.block is b.block:
        return True
    ra = {x.idx for x in f.reachable_from(a.block)}
    rb = {x.idx for x in f.reachable_from(b.block)}
    return b.block.idx in ra or a.block.idx in rb


def _count_positive(f, pv, first_load, at):
    """facts at `at` say that the count of the list `first_load` was read from is >= 1"""
    root = strip_bitcasts(f, resolve_addr(f, first_load.o[0]).root)
    for (op, x, y) in pv.facts_at(at):
        for val, other, kind in ((x, y, 'l'), (y, x, 'r')):
            vi = f.get(val) if isinstance(val, str) else None
            while vi is not None and vi.op in ('zext', 'trunc'):
                vi = f.get(vi.o[0]) if isinstance(vi.o[0], str) else None
            if vi is None or vi.op != 'load':
                continue
            a = resolve_addr(f, vi.o[0])
            if a.fsteps[-1:] != ((SL, 'count'),) or strip_bitcasts(f, a.root) != root:
                continue
            c = const_int(other)
            if c is None:
                continue
            if (op == 'ne' and c == 0) or (op == 'ult' and kind == 'r') or (op == 'ule' and kind == 'r' and c >= 1):
                return True          # count != 0;  c < count;  c <= count with c >= 1
    return False


def run(m, rep, tier):
    from .. import canaries
    canaries.run(m, rep, ('handoff',))
    decls = header_functions(m, ('slist.h',))
    n1 = rep.rule('N1', 'functions documented to return NULL on an empty list can return NULL', floor=3)
    listrules.doc_null(m, n1, decls)

    n2 = rep.rule('N2', 'every writer of a node link also maintains the tail pointer (or re-initialises the list)', floor=5)
    fns = [f for f in m.all_plain_functions() if (f.file or '').endswith(('slist.c', 'slist.h'))]
    def list_of(f, addr_root):
        """the list object a node address belongs to, when it is evident: the list itself, or a node
        loaded from that list's tail / head link"""
        if isinstance(addr_root, str) and addr_root.startswith('$'):
            ty = f.args[int(addr_root[1:])]['ty']
            return addr_root if 'struct.cstl_slist*' in ty.replace(' ', '') or ty.startswith('%struct.cstl_slist*') else None
        i = f.get(addr_root) if isinstance(addr_root, str) else None
        if i is not None and i.op == 'load':
            a = resolve_addr(f, i.o[0])
            if a.fsteps[-1:] == ((SL, 't'),) or a.steps[-2:] == ('h', 'n'):
                return a.root
        if i is not None and i.op == 'alloca':
            return i.ref
        return None

    for f in fns:
        ls = link_stores(f)
        if not ls:
            continue
        ts = tail_stores(f)
        inits = [c for c in f.calls('cstl_slist_init')]
        bad = []
        for s in ls:
            L = list_of(f, resolve_addr(f, s.o[1]).root)
            def same(root):
                return L is None or root is None or root == L
            if any(connected(f, s, t) and same(resolve_addr(f, t.o[1]).root) for t in ts):
                continue
            if any(connected(f, s, c) and same(resolve_addr(f, c.o[0]).root if c.o else None) for c in inits):
                continue
            bad.append(s)
        if bad:
            n2.violation(f.name, 'node link written at %s but the list\'s tail pointer is never updated in this function: a later push_back appends after '
                         'a node that is no longer the last' % ', '.join(b.loc() for b in bad[:2]), floc(m, f), {})
        else:
            n2.ok(f.name, '%d link store(s), tail maintained' % len(ls), floc(m, f))

    n6 = rep.rule('N6', 'the tail pointer is only ever set to the head link, another list\'s tail, or a node known to exist', floor=5)
    from ..facts import phi_leaves
    for f in fns:
        pv = Prover(f)

        def judge(s, v, f=f, pv=pv):
            a = resolve_addr(f, v)
            vi = f.get(v) if isinstance(v, str) else None
            if a.steps in (('h',),) or (a.steps == () and a.coff == 0 and isinstance(a.root, str) and (a.root.startswith('$') or (f.get(a.root) is not None and f.get(a.root).op == 'alloca'))
                                         and vi is not None and vi.op in ('getelementptr', 'bitcast')):
                return 'the list\'s own head link'
            if vi is not None and vi.op == 'load' and resolve_addr(f, vi.o[0]).fsteps[-1:] == ((SL, 't'),):
                return 'a tail pointer (never NULL by this very rule)'
            if pv.prove_at(('ne', v, 'null'), s):
                return 'proven non-NULL'
            if vi is not None and vi.op == 'load' and [x[1] for x in resolve_addr(f, vi.o[0]).fsteps] == ['h', 'n'] and _count_positive(f, pv, vi, s):
                return 'the first node of a list whose count is known to be non-zero (count > 0 <=> a first node exists, N5)'
            # dereferenced on every path before
            for i in f.all_insts():
                ptr = i.o[0] if i.op == 'load' else (i.o[1] if i.op == 'store' else None)
                if ptr is not None and resolve_addr(f, ptr).root == v and resolve_addr(f, ptr).steps and i is not s:
                    if f.dominates(i, s):
                        return 'already dereferenced at %s' % i.loc()
                    if (i.block is s.block and i.pos > s.pos) or (i.block is not s.block and f.postdominates_block(i.block, s.block)):
                        return 'dereferenced unconditionally right after, at %s' % i.loc()
            if isinstance(v, str) and v.startswith('$'):
                return 'a node handed in by the caller'
            return None

        for s in tail_stores(f):
            v = strip_bitcasts(f, s.o[0])
            vi = f.get(v) if isinstance(v, str) else None
            site = '%s:t:=%s' % (f.name, f.vname(v) if isinstance(v, str) else 'expr')
            why = judge(s, v)
            if why is None and vi is not None and vi.op == 'phi':
                # a tail computed ahead of time (`empty ? &own head : the other tail`): each alternative on its own
                whys = [judge(s, leaf) for leaf, lb, lf in phi_leaves(f, pv.fc, v)]
                if whys and all(w is not None for w in whys):
                    why = 'each alternative: ' + '; '.join(sorted(set(whys)))
            if why:
                n6.ok(site, why, s.loc())
            else:
                n6.violation(site, 'the tail pointer is set at %s to a value that may be NULL (%s): on an empty list the tail must stay the head link, '
                             'otherwise front/back report garbage and the next push_back dereferences NULL' % (s.loc(), f.vname(v)), s.loc(), {})

    n3 = rep.rule('N3', 'swap re-anchors the tail of an empty list to its own head link', floor=2)
    f = m.ifn('cstl_slist_swap')
    if f is None:
        n3.undecided('cstl_slist_swap', 'not in the model')
    else:
        # judged on the function as written: the generic exchange stays a call, whatever its body does for small sizes
        _pf = m.focus('slist').fn('cstl_slist_swap')      # private fix-up helpers inlined; header functions (cstl_swap) stay calls
        if _pf is not None and not _pf.decl:
            f = _pf
        pv = Prover(f)
        copies = listrules.exchange_events(f)
        for k in (0, 1):
            root = '$%d' % k
            site = 'cstl_slist_swap(%s)' % (f.args[k].get('name') or root)
            ok = False
            counts = listrules.current_values(f, root, ('count',), copies)
            # the other list's count read before the exchange is this list's count after it (N7: every member is exchanged)
            other = '$%d' % (1 - k)
            for i2 in f.all_insts():
                if i2.op == 'load' and copies and all(f.dominates(i2, c) for c in copies):
                    a2 = resolve_addr(f, i2.o[0])
                    if strip_bitcasts(f, a2.root) == other and tuple(a2.steps) == ('count',):
                        counts.add(i2.ref)
            for s in tail_stores(f):
                a = resolve_addr(f, s.o[1])
                if a.root != root:
                    continue
                alts = []
                sv = strip_bitcasts(f, s.o[0]) if isinstance(s.o[0], str) else s.o[0]
                svi = f.get(sv) if isinstance(sv, str) else None
                if svi is not None and svi.op == 'phi':
                    alts = [(leaf, lf or frozenset()) for leaf, lb, lf in phi_leaves(f, pv.fc, sv)]
                else:
                    alts = [(s.o[0], pv.facts_at(s))]
                for val, facts in alts:
                    v = resolve_addr(f, val)
                    if v.root != root or v.steps not in (('h',), ()):
                        continue
                    if v.steps == () and v.coff != 0:
                        continue
                    for (op, x, y) in facts:
                        if op == 'eq' and const_int(y) == 0 and x in counts:
                            ok = True
            if ok:
                n3.ok(site, 't := &h under count == 0 (read after the swap)', floc(m, f))
            else:
                n3.violation(site, 'after the bitwise swap an empty list is not re-anchored (t := &list->h): its tail keeps pointing into the other '
                             'list object, so the next push_back links the element into the wrong list', floc(m, f), {})

    n4 = rep.rule('N4', 'foreach: successor read before the visit; stop value propagated', floor=2)
    f = m.ifn('cstl_slist_foreach')
    if f is None:
        n4.undecided('cstl_slist_foreach', 'not in the model')
    else:
        visits = [c for c in f.all_insts() if c.op == 'call' and c.callee is None and c.x.get('cv') == '$1']
        for c in visits:
            node = listrules.handed_node(f, c.o[0])
            bad = listrules.touches_after(f, c, node) if node else None
            if node is None:
                n4.undecided('cstl_slist_foreach:handoff', 'element pointer not derived from a node', c.loc())
            elif bad:
                n4.violation('cstl_slist_foreach:handoff', 'the visited node is accessed after its visit returned (%s): the callback may have removed and freed it'
                             % ', '.join(b.loc() for b in bad[:2]), c.loc(), {})
            else:
                n4.ok('cstl_slist_foreach:handoff', 'no access through the node after the visit', c.loc())
        listrules.stop_value(m, f, n4, lambda c: c.callee is None and c.x.get('cv') == '$1', 'cstl_slist_foreach:stop')

    n5 = rep.rule('N5', 'count adjusted exactly once per primitive; concat adds once and re-initialises the source', floor=3)
    adj = []
    for f in fns:
        if listrules.count_once(m, f, n5, SL, 'count', node=NODE, links=('n',)):
            adj.append(f)
    plus = [f for f in adj if any(s.op == 'store' and unit_step(f, s.o[0])[1] == 1 and resolve_addr(f, s.o[1]).fsteps[-1:] == ((SL, 'count'),) for s in f.all_insts())]
    minus = [f for f in adj if any(s.op == 'store' and unit_step(f, s.o[0])[1] == -1 and resolve_addr(f, s.o[1]).fsteps[-1:] == ((SL, 'count'),) for s in f.all_insts())]
    if not plus:
        n5.violation('slist:insertion', 'no function of the list increments the element count although elements can be inserted', 'src/slist.c', {})
    if not minus:
        n5.violation('slist:removal', 'no function of the list decrements the element count although elements can be removed '
                     '(size() keeps counting erased elements)', 'src/slist.c', {})
    f = m.focus('slist').fn('cstl_slist_concat')       # private splice helpers inlined
    if f is None:
        n5.undecided('cstl_slist_concat', 'not in the model')
    else:
        adds = []
        for s in f.all_insts():
            if s.op == 'store':
                a = resolve_addr(f, s.o[1])
                if a.fsteps[-1:] == ((SL, 'count'),) and a.root == '$0':
                    adds.append(s)
        ok = len(adds) == 1
        if ok:
            v = f.get(adds[0].o[0])
            roots = set()
            if v is not None and v.op == 'add':
                for o in v.o:
                    oi = f.get(o)
                    if oi is not None and oi.op == 'load' and resolve_addr(f, oi.o[0]).fsteps[-1:] == ((SL, 'count'),):
                        roots.add(resolve_addr(f, oi.o[0]).root)
            ok = roots == {'$0', '$1'}
        inits = [c for c in f.calls('cstl_slist_init') if c.o and c.o[0] == '$1']
        reinit_by_stores = False
        if not inits:
            # re-initialised by explicit stores (directly or in a private helper): judged on the inlined body --
            # h.n := NULL, t := &h and count := 0 of the source, all after the count was added
            fi = m.ifn('cstl_slist_concat')
            if fi is not None:
                adds_i = [s2 for s2 in fi.all_insts() if s2.op == 'store' and resolve_addr(fi, s2.o[1]).fsteps[-1:] == ((SL, 'count'),) and resolve_addr(fi, s2.o[1]).root == '$0']
                got = set()
                for s2 in fi.all_insts():
                    if s2.op != 'store' or strip_bitcasts(fi, resolve_addr(fi, s2.o[1]).root) != '$1':
                        continue
                    if not all(fi.dominates(a2, s2) for a2 in adds_i):
                        continue
                    names = [x[1] for x in resolve_addr(fi, s2.o[1]).fsteps]
                    v = s2.o[0]
                    if names == ['h', 'n'] and (v == 'null' or const_int(v) == 0):
                        got.add('h.n')
                    if names == ['count'] and const_int(v) == 0:
                        got.add('count')
                    if names == ['t'] and isinstance(v, str):
                        av = resolve_addr(fi, v)
                        if strip_bitcasts(fi, av.root) == '$1' and (av.steps == ('h',) or (av.steps == () and av.coff == 0)):
                            got.add('t')
                if got == {'h.n', 'count', 't'} and adds_i:
                    reinit_by_stores = True
        # the destination's tail may only become the source's tail when the source has a node: an empty source's tail is
        # the address of its own head link
        pvc = Prover(f)
        empty_splice = None
        for s2 in tail_stores(f):
            if resolve_addr(f, s2.o[1]).root != '$0':
                continue
            nonempty = False
            for (op, x, y) in pvc.facts_at(s2):
                for val, other, side in ((x, y, 'l'), (y, x, 'r')):
                    vi = f.get(val) if isinstance(val, str) else None
                    if vi is None or vi.op != 'load':
                        continue
                    a = resolve_addr(f, vi.o[0])
                    if a.root == '$1' and a.fsteps[-1:] == ((SL, 'count'),) and const_int(other) is not None and \
                            ((op == 'ne' and const_int(other) == 0) or (op == 'ult' and side == 'r') or (op == 'ule' and side == 'r' and const_int(other) >= 1)):
                        nonempty = True
            if not nonempty:
                empty_splice = s2
        # path-sensitive: whenever anything of the source was handed to the destination (links / tail written, or the two objects
        # exchanged as a block), the source is re-initialised before the function returns
        from .. import typestate as _ts
        left_behind = []

        def _tr(ins, st, ps):
            moved, reinit = st
            if ins.op == 'call':
                if ins.x.get('noreturn'):
                    return None
                if ins.callee == 'cstl_slist_init' and ins.o and strip_bitcasts(f, ins.o[0]) == '$1':
                    return (moved, True)
                if ins in listrules.exchange_events(f):
                    return (True, False)
            if ins.op == 'store':
                a_ = resolve_addr(f, ins.o[1])
                r_ = strip_bitcasts(f, a_.root) if isinstance(a_.root, str) else a_.root
                if r_ == '$0' and a_.fsteps[-1:] in (((SL, 't'),), ((NODE, 'n'),)):
                    return (True, reinit)
                if r_ == '$1' and a_.fsteps[-1:] == ((SL, 'count'),) and const_int(ins.o[0]) == 0:
                    return (moved, True)
            if ins.op == 'ret' and moved and not reinit:
                left_behind.append(ins)
            return st
        try:
            _ts.run(f, (False, False), _tr, track=lambda r: False, limit=60000)
        except _ts.Limit:
            left_behind = []
        if left_behind:
            n5.violation('cstl_slist_concat', 'a path to the return at %s hands the source\'s nodes (or its whole object) to the destination without re-initialising '
                         'the source: it keeps a tail that points into the other list' % left_behind[0].loc(), floc(m, f), {})
        elif empty_splice is not None:
            n5.violation('cstl_slist_concat', 'the destination tail is re-pointed at %s without knowing that the source has any node (source count > 0): '
                         'for an empty source the tail would become the address of the source\'s own head link' % empty_splice.loc(), floc(m, f), {})
        elif ok and ((inits and all(f.dominates(adds[0], c) for c in inits)) or reinit_by_stores):
            n5.ok('cstl_slist_concat', 'count := dst.count + src.count once, then init(src)', floc(m, f))
        else:
            n5.violation('cstl_slist_concat', 'concat does not add the source count exactly once and then re-initialise the source '
                         '(the source would keep pointing at nodes now owned by the destination)', floc(m, f), {})

    # ---- N10: unlinking the last node moves the tail to its predecessor ---------------------------
    n10 = rep.rule('N10', 'the unlink primitive re-points the tail at the predecessor when the node it removes is the last one', floor=1)
    n_prim = 0
    for f in fns:
        # e->n := (old e->n)->n  : unlinks the node after one of its (node) parameters, whichever position that has
        unl = []
        prm = None
        for s2 in link_stores(f):
            a = resolve_addr(f, s2.o[1])
            v = f.get(strip_bitcasts(f, s2.o[0])) if isinstance(s2.o[0], str) else None
            ar = strip_bitcasts(f, a.root) if isinstance(a.root, str) else None
            if isinstance(ar, str) and ar.startswith('$') and ar[1:].isdigit() and int(ar[1:]) < len(f.args) and \
                    NODE in (f.args[int(ar[1:])].get('ty') or '') and v is not None and v.op == 'load':
                b = resolve_addr(f, v.o[0])
                bi = f.get(strip_bitcasts(f, b.root)) if isinstance(b.root, str) else None
                if b.fsteps[-1:] == ((NODE, 'n'),) and bi is not None and bi.op == 'load' and strip_bitcasts(f, resolve_addr(f, bi.o[0]).root) == ar \
                        and resolve_addr(f, bi.o[0]).fsteps[-1:] == ((NODE, 'n'),):
                    unl.append((s2, bi))
                    prm = ar
        if not unl:
            continue
        n_prim += 1
        removed = {bi.ref for _, bi in unl}
        pv = Prover(f)
        ok = False
        for ts in tail_stores(f):
            if strip_bitcasts(f, ts.o[0]) != prm:
                continue
            # ... under "the removed node was the tail" (tail == removed) or "the removed node had no successor"
            for (op, x, y) in pv.facts_at(ts):
                if op != 'eq':
                    continue
                xs, ys = f.get(x) if isinstance(x, str) else None, f.get(y) if isinstance(y, str) else None
                if (x in removed and ys is not None and ys.op == 'load' and resolve_addr(f, ys.o[0]).fsteps[-1:] == ((SL, 't'),)) or \
                        (y in removed and xs is not None and xs.op == 'load' and resolve_addr(f, xs.o[0]).fsteps[-1:] == ((SL, 't'),)):
                    ok = True
                if y == 'null' and xs is not None and xs.op == 'load' and resolve_addr(f, xs.o[0]).fsteps[-1:] == ((NODE, 'n'),) \
                        and strip_bitcasts(f, resolve_addr(f, xs.o[0]).root) in removed:
                    ok = True
        if ok:
            n10.ok(f.name, 'tail := predecessor when the removed node was the last', floc(m, f))
        else:
            n10.violation(f.name, 'the node after the given one is unlinked, but no path sets the tail to the given (preceding) node when the removed node '
                          'was the last: the tail keeps pointing at the removed element, and the next push_back links behind it', floc(m, f), {})
    if n_prim == 0:
        n10.undecided('slist-unlink', 'no function that unlinks the node after its node argument found')

    # ---- N9: (function pointer, context) pairing ---------------------------------------------
    from .util import check_callback_context
    _cb = rep.rule('N9', 'every call through a caller-supplied function pointer passes the context supplied with it', floor=1)
    check_callback_context(m, _cb, ('slist.c',))

    # ---- N8: link primitive direction vs. anchors ----------------------------------------
    n8 = rep.rule('N8', 'push_front / push_back / insert_after pass the anchor after which the link primitive links', floor=3)
    listrules.check_insert_anchors(m, n8, 'slist', '__cstl_slist_insert_after', 'cstl_slist', 'cstl_slist_node',
                                   {'cstl_slist_push_front': 'front', 'cstl_slist_push_back': 'back', 'cstl_slist_insert_after': ('after', '$1')},
                                   nxt='n', prv='__none__', tail='t',
                                   null_fns={n_ for n_, d_ in decls.items() if any(rv.split()[:1] == ['NULL'] for rv in d_.retvals)})

    # ---- N7: swap completeness ------------------------------------------------------------
    from .util import check_swap_complete
    _sw = rep.rule('N7', 'swap exchanges every member of the two lists before re-anchoring', floor=1)
    for _n in ('cstl_slist_swap',):
        check_swap_complete(m, _n, _sw)

    # ---- N11: the NDEBUG build does what the assertion build does ---------------------------------
    from .util import check_assert_effects
    _ae = rep.rule('N11', 'every store / effectful call made with assertions enabled is also made by the NDEBUG build (no work inside assert())', floor=1)
    check_assert_effects(m, _ae, ('slist.c', 'slist.h'))

    # ---- N12: erase_after / pop_front hand back the element that was unlinked ---------------------------
    n12 = rep.rule('N12', 'erase_after / pop_front return the element of the node the unlink primitive removed (or NULL)', floor=1)
    from ..facts import phi_leaves as _pl
    for _nm in ('cstl_slist_erase_after', 'cstl_slist_pop_front'):
        f = m.pfn(_nm)
        if f is None:
            n12.undecided(_nm, 'not in the model')
            continue
        mod_ = f.module
        unl = [c for c in f.all_insts() if c.op == 'call' and c.callee and mod_.fn(c.callee) is not None and not mod_.fn(c.callee).decl
               and mod_.fn(c.callee).linkage == 'internal' and any(unit_step(mod_.fn(c.callee), s2.o[0])[1] == -1 and resolve_addr(mod_.fn(c.callee), s2.o[1]).fsteps[-1:] == ((SL, 'count'),)
                                                                   for s2 in mod_.fn(c.callee).all_insts() if s2.op == 'store')]
        if not unl:
            n12.ok(_nm, 'NOT DECIDED: no call of a private unlink primitive (the unlink is written in place or delegated)', floc(m, f))
            continue
        pv = Prover(f)
        bad = []
        for r in f.returns():
            if not r.o:
                continue
            for leaf, lb, lf in _pl(f, pv.fc, r.o[0]):
                if leaf == 'null' or const_int(leaf) == 0:
                    continue
                node = listrules.handed_node(f, leaf) if isinstance(leaf, str) else None
                src = strip_bitcasts(f, node) if isinstance(node, str) else (strip_bitcasts(f, leaf) if isinstance(leaf, str) else None)
                if src not in {c.ref for c in unl}:
                    bad.append('the value returned at %s is not computed from the node the unlink primitive handed back (it is read from the list after '
                               'the unlink, or is another node): the caller gets the wrong element' % r.loc())
        if bad:
            n12.violation(_nm, '; '.join(sorted(set(bad))[:2]), floc(m, f), {})
        else:
            n12.ok(_nm, 'every non-NULL result is the element of the unlinked node', floc(m, f))

    # ---- N13 ---------------------------------------------------------------------------------------------
    from .util import check_no_mutable_globals
    n13 = rep.rule('N13', 'slist.c defines no writable static object', floor=1)
    check_no_mutable_globals(m, n13, ('slist',))
