"""C03 - hash lookups stay exact while the table is incrementally rehashed (decided: the plumbing).

L1 bucket provenance   insert / find / erase never subscript the bucket array or call the checked lookup
        themselves: every bucket they read or write is the value returned by the pending-aware lookup.
L2 pending-aware lookup   (inlined body, path-sensitive) on every path with a rehash pending the key is
        hashed under the current AND the pending geometry, the cleaner examined both buckets, and the
        returned bucket is the pending-geometry one; on every path with nothing pending the returned
        bucket is the current-geometry one.  (A dirty old bucket still holds the key's nodes; returning
        the old bucket after adoption loses inserts.)
L3 relocation         inside the cleaner every relocation hashes the node's key with rh.hash / rh.count; on the
        dirty path the chain is detached (bucket->n := NULL) before any node is re-inserted and the
        bucket's cst is set to the table's on every path through the dirty branch.
L4 size bookkeeping    insert: exactly one `count + 1` and one chain-head insertion on every path; erase:
        on every path the number of `count - 1` equals the number of chain splices, both at most one.
L5 resize ordering     the forced rehash dominates the flip of bucket.cst, the flip dominates the stores of
        rh.count / rh.hash / rh.clean, and the added buckets get n = NULL and the flipped cst.
L6 find                the caller's visit function is invoked only under node.key == k.
L7 allocation size     sizeof(bucket) * count cannot wrap (no-wrap rule on every hash entry point).
NOT decided: that the sweep visits every bucket; chain contents over histories; swap.
"""
from .. import nw, typestate
from ..facts import Prover, _k, strip_bitcasts
from ..hashmodel import Roles, callgraph, reach, fld, is_load_of, hash_calls, at_subscripts, writer_between
from ..ir import const_int, resolve_addr, mem_access, unit_step
from .util import header_functions, floc

KEYED = ('cstl_hash_insert', 'cstl_hash_find', 'cstl_hash_erase')


def bucket_field(f, ins):
    """('n'|'cst', address) for loads/stores on a struct cstl_hash_bucket"""
    ma = mem_access(ins)
    if not ma:
        return None, None
    a = ma[1]
    if a.fsteps[-1:] and a.fsteps[-1][0] == 'cstl_hash_bucket':
        return a.fsteps[-1][1], a
    return None, None


def run(m, rep, tier):
    from .. import canaries
    canaries.run(m, rep, ('nw',))
    roles = Roles(m)
    mod = roles.unit
    if mod is None:
        rep.analysis_broken('unit hash.c not in the model')
        return
    rep.extra['roles'] = {k: roles.names(k) for k in ('checked', 'cleaner', 'sweep', 'pa_lookup', 'walkers')}
    pal = set(roles.names('pa_lookup'))
    chk = set(roles.names('checked'))

    # ---- L1 --------------------------------------------------------------------------
    l1 = rep.rule('L1', 'keyed operations use only the bucket returned by the pending-aware lookup', floor=3)
    for e in KEYED:
        f = mod.fn(e)
        if f is None or f.decl:
            l1.undecided(e, 'not found')
            continue
        bad = []
        if at_subscripts(f):
            bad.append('subscripts the bucket array directly at %s' % at_subscripts(f)[0][0].loc())
        if [c for c in f.all_insts() if c.op == 'call' and c.callee in chk]:
            bad.append('calls the geometry-specific lookup directly (bypasses the pending-aware one)')
        pcalls = [c for c in f.all_insts() if c.op == 'call' and c.callee in pal]
        if not pcalls:
            bad.append('never calls the pending-aware lookup')
        okroots = {c.ref for c in pcalls}
        n = 0
        for i in f.all_insts():
            fld_, a = bucket_field(f, i)
            if fld_ is None:
                continue
            n += 1
            if a.root not in okroots:
                bad.append('accesses bucket.%s at %s through a bucket that is not the pending-aware lookup\'s result' % (fld_, i.loc()))
        if bad:
            l1.violation(e, '; '.join(bad[:3]), floc(m, f), {})
        else:
            l1.ok(e, '%d bucket access(es), all through the pending-aware lookup\'s result' % n, floc(m, f))

    # ---- L2 --------------------------------------------------------------------------
    l2 = rep.rule('L2', 'pending-aware lookup: both geometries hashed and cleaned when pending, pending bucket returned; current one otherwise', floor=1)
    for pl in roles.pa_lookup:
        f = m.ifn(pl.name)
        if f is None:
            l2.undecided(pl.name, 'no inlined body')
        else:
            check_pa_lookup(m, f, l2)
    if not roles.pa_lookup:
        l2.undecided('pending-aware-lookup', 'role not found: no function hashes a key under both geometries')

    # ---- L3 --------------------------------------------------------------------------
    l3 = rep.rule('L3', 'cleaner relocates with the pending geometry, detaches the chain first, marks the bucket clean on every dirty path', floor=1)
    for cl in roles.cleaner:
        f = m.ifn(cl.name)
        if f is None:
            l3.undecided(cl.name, 'no inlined body')
        else:
            check_cleaner(m, f, l3)
    if not roles.cleaner:
        l3.undecided('cleaner', 'role not found')

    # ---- L4 --------------------------------------------------------------------------
    l4 = rep.rule('L4', 'element count changes exactly with chain insertions / splices', floor=2)
    for e in ('cstl_hash_insert', 'cstl_hash_erase'):
        f = m.ifn(e)
        if f is None:
            l4.undecided(e, 'not in the inlined model')
        else:
            check_count(m, f, e, l4)

    # ---- L5 --------------------------------------------------------------------------
    l5 = rep.rule('L5', 'resize: forced rehash, then flip of the clean bit, then pending geometry; new buckets empty and clean', floor=1)
    from ..hashmodel import focus_hash
    fmod = focus_hash(m)
    f = fmod.fn('cstl_hash_resize')
    if f is None or f.decl:
        l5.undecided('cstl_hash_resize', 'not found')
    else:
        check_resize_order(m, f, l5)

    # ---- L6 --------------------------------------------------------------------------
    l6 = rep.rule('L6', 'find offers an element to the caller\'s visit function only when its key equals the probe', floor=1)
    f = m.ifn('cstl_hash_find')
    if f is None:
        l6.undecided('cstl_hash_find', 'not in the inlined model')
    else:
        pv = Prover(f)
        calls = [c for c in f.all_insts() if c.op == 'call' and c.callee is None and c.x.get('cv') == '$2']
        if not calls:
            l6.undecided('cstl_hash_find', 'the call of the user visit function was not found')
        for c in calls:
            facts = pv.facts_at(c)
            ok = False
            for (op, x, y) in facts:
                if op == 'eq':
                    for p, q in ((x, y), (y, x)):
                        pi = f.get(p)
                        if q == '$1' and pi is not None and pi.op == 'load' and resolve_addr(f, pi.o[0]).fsteps[-1:] == (('cstl_hash_node', 'key'),):
                            ok = True
            if ok:
                l6.ok('cstl_hash_find:visit', 'visit call dominated by node.key == k', c.loc())
            else:
                l6.violation('cstl_hash_find:visit', 'the caller\'s visit function can be invoked for an element whose key was not compared equal to the probe key '
                             '(elements of other keys sharing the bucket would be offered)', c.loc(), {})

    # L6 (result): what find reports is an element its caller's visit accepted (or the first key match when no visit was
    # given) -- the adapter records a candidate only under that acceptance
    pfind = mod.fn('cstl_hash_find')
    adapters = []
    if pfind is not None and not pfind.decl:
        for c in pfind.all_insts():
            if c.op == 'call':
                adapters += [mod.fn(o[1:]) for o in c.o if isinstance(o, str) and o.startswith('@') and mod.fn(o[1:]) is not None and not mod.fn(o[1:]).decl]
    for ad in adapters:
        pva = Prover(ad)
        recs = [s2 for s2 in ad.all_insts() if s2.op == 'store' and strip_bitcasts(ad, s2.o[0]) == '$0' and resolve_addr(ad, s2.o[1]).steps[-1:] == ('e',)]
        if not recs:
            l6.ok('%s:result' % ad.name, 'NOT DECIDED: no store of the candidate into the result slot found', floc(m, ad))
            continue

        def accepted(facts):
            for (op, x, y) in facts:
                xi = ad.get(x) if isinstance(x, str) else None
                if op == 'eq' and y == 'null' and xi is not None and xi.op == 'load' and resolve_addr(ad, xi.o[0]).steps[-1:] == ('visit',):
                    return True
                if op == 'ne' and const_int(y) == 0 and xi is not None and xi.op == 'call' and xi.callee is None and xi.o and strip_bitcasts(ad, xi.o[0]) == '$0':
                    return True
            return False
        badr = []
        for s2 in recs:
            ok = accepted(pva.facts_at(s2))
            if not ok and len(s2.block.pred) >= 2:
                ok = all(accepted(pva.fc.edge_facts(pb, s2.block)) for pb in s2.block.pred)
            if not ok:
                badr.append('the candidate is recorded as the result at %s before (or regardless of whether) the caller\'s visit function accepted it: '
                            'when the visit rejects every element of that key, find reports the last one offered instead of NULL' % s2.loc())
        if badr:
            l6.violation('%s:result' % ad.name, '; '.join(badr), floc(m, ad), {})
        else:
            l6.ok('%s:result' % ad.name, 'candidate recorded only under visit == NULL or visit(e) != 0', floc(m, ad))

    # ---- L8 --------------------------------------------------------------------------
    l8 = rep.rule('L8', 'the bucket array is only ever grown, or cut to the bucket count read after the forced rehash', floor=2)
    setters = [g for g in mod.defined() if any(c.op == 'call' and c.callee == 'realloc' and is_load_of(g, strip_bitcasts(g, c.o[0]), 'bucket.at') for c in g.all_insts())]
    if not setters:
        l8.undecided('capacity-setter', 'no function reallocating the bucket array found')
    for g in setters:
        for f in mod.defined():
            for c in f.calls(g.name):
                check_capacity_request(m, f, c, g, l8)

    # ---- L7 --------------------------------------------------------------------------
    l7 = rep.rule('L7', 'the bucket array byte size cannot wrap', floor=1)
    for name in sorted(header_functions(m, ('hash.h',))):
        f = m.ifn(name)
        if f is not None:
            nw.check_entry(f, l7)

    # ---- L10: the sweep index only moves past a clean bucket ---------------------------------
    # everything below rh.clean is taken to be clean by the completion test; a bucket the index steps over without it
    # being cleaned (stamped) or known to carry the table's stamp keeps a stale stamp, and nodes inserted into it later
    # are skipped by the next rehash
    l10 = rep.rule('L10', 'the sweep index is advanced only past a bucket that was just cleaned or is known to carry the table\'s clean stamp', floor=1)
    bmod = m.focus('hash', set(roles.names('checked')) | set(roles.names('cleaner')))
    hosts = [g for g in bmod.defined() if g.name != 'cstl_hash_resize' and any(_is_sweep_step(g, s_) for s_ in g.all_insts())]
    if not hosts:
        l10.undecided('sweep', 'no function advancing the sweep index found')
    for g in hosts:
        check_sweep_steps(m, g, set(roles.names('cleaner')), l10)
    # ... and it never jumps: the only other value it is given is 0 (a new rehash starts, the table is reset)
    for g in mod.defined():
        for s_ in g.all_insts():
            if s_.op == 'store' and fld(g, s_) == 'bucket.rh.clean' and not _is_sweep_step(g, s_) and const_int(s_.o[0]) != 0:
                if is_load_of(g, strip_bitcasts(g, s_.o[0]) if isinstance(s_.o[0], str) else s_.o[0], 'bucket.rh.clean'):
                    continue            # the other table's index, member by member (swap; completeness is L9's business)
                if _local_sweep_cursor(g, s_.o[0]):
                    continue            # the skip loop run on a local copy of the index and stored back once
                l10.violation(g.name + ':sweep-jump', 'the sweep index is set at %s to a value that is neither 0 nor its own value + 1: the buckets it jumps over are '
                              'taken for clean by the completion test without having been stamped' % s_.loc(), floc(m, g), {})

    # ---- L11: keys are never narrowed -------------------------------------------------------
    l11 = rep.rule('L11', 'a key (size_t) is never narrowed on its way to the lookup, the comparison or the node', floor=3)
    for g in mod.defined():
        keys = set()
        for k, a_ in enumerate(g.args):
            if (a_.get('name') or '') in ('k', 'key') and a_.get('ty') == 'i64':
                keys.add('$%d' % k)
        for i_ in g.all_insts():
            if i_.op == 'load' and resolve_addr(g, i_.o[0]).fsteps[-1:] == (('cstl_hash_node', 'key'),):
                keys.add(i_.ref)
        if not keys:
            continue
        tr = [i_ for i_ in g.all_insts() if i_.op == 'trunc' and isinstance(i_.o[0], str) and strip_bitcasts(g, i_.o[0]) in keys]
        if tr:
            l11.violation(g.name, 'the key is truncated to %s bits at %s: keys that differ only above that width hash to, and compare equal with, '
                          'the wrong elements' % (tr[0].x.get('bits'), tr[0].loc()), floc(m, g), {})
        else:
            l11.ok(g.name, '%d key value(s), none narrowed' % len(keys), floc(m, g))

    # ---- L13: a chain link is followed only where it is known to be a node ----------------------
    # a value read from bucket.n / node.next is NULL at the end of every chain and in every empty bucket: an access through
    # it must sit under its own != NULL test (an open-coded walk that is right only for a non-empty bucket)
    l13 = rep.rule('L13', 'an access through a walk cursor over chain links (bucket.n / node.next) is dominated by the cursor\'s != NULL test', floor=1)

    def chain_val(f_, r_, seen=None):
        seen = seen if seen is not None else set()
        r_ = strip_bitcasts(f_, r_) if isinstance(r_, str) else r_
        i_ = f_.get(r_) if isinstance(r_, str) else None
        if i_ is None:
            return False
        if r_ in seen:
            return True
        seen.add(r_)
        if i_.op == 'load':
            return resolve_addr(f_, i_.o[0]).fsteps[-1:] in ((('cstl_hash_bucket', 'n'),), (('cstl_hash_node', 'next'),))
        if i_.op in ('phi', 'select'):
            ops_ = [o for o in (i_.o if i_.op == 'phi' else i_.o[1:]) if o != 'null']
            return bool(ops_) and all(chain_val(f_, o, seen) for o in ops_)
        return False
    n13 = 0
    for g in mod.defined():
        pv13 = None
        bad13 = []
        k13 = 0
        for i_ in g.all_insts():
            if i_.op not in ('load', 'store'):
                continue
            a_ = resolve_addr(g, i_.o[0] if i_.op == 'load' else i_.o[1])
            if not a_.fsteps or not isinstance(a_.root, str) or not chain_val(g, a_.root):
                continue
            ri_ = g.get(strip_bitcasts(g, a_.root))
            if ri_ is None or ri_.op != 'phi':
                continue        # only walk cursors: a link read once may be known to be a node for reasons of its own (it was just found)
            k13 += 1
            pv13 = pv13 or Prover(g)
            if not pv13.prove_at(('ne', strip_bitcasts(g, a_.root), 'null'), i_):
                bad13.append('%s is accessed at %s through a chain link value that is not known to be non-NULL there (the bucket may be empty, the '
                             'walk may have reached the end of the chain)' % (a_.path, i_.loc()))
        if k13:
            n13 += 1
            if bad13:
                l13.violation(g.name, '; '.join(sorted(set(bad13))[:2]), floc(m, g), {})
            else:
                l13.ok(g.name, '%d access(es) through chain link values, each under the != NULL test' % k13, floc(m, g))
    if n13 == 0:
        l13.ok('hash.c', 'NOT DECIDED: no access through a value read from a chain link (walks take the node as a parameter)')

    # ---- L9: swap completeness ------------------------------------------------------------
    from .util import check_swap_complete
    _sw = rep.rule('L9', 'swap exchanges every member of the two tables (array, geometry, pending geometry, clean bit, count, offset)', floor=1)
    for _n in ('cstl_hash_swap',):
        check_swap_complete(m, _n, _sw)

    # ---- L12: the NDEBUG build does what the assertion build does ---------------------------------
    from .util import check_assert_effects
    _ae = rep.rule('L12', 'every store / effectful call made with assertions enabled is also made by the NDEBUG build (no work inside assert())', floor=1)
    check_assert_effects(m, _ae, ('hash.c', 'hash.h'))


def _is_sweep_step(f, s):
    if s.op != 'store' or fld(f, s) != 'bucket.rh.clean':
        return False
    base, step = unit_step(f, s.o[0])
    return step == 1 and is_load_of(f, base, 'bucket.rh.clean')


def _local_sweep_cursor(f, v):
    """v is the sweep index advanced in a local: a merge of the stored index (a load of rh.clean) and of `c + 1` for members c
    of the same merge, each increment made where bucket.at[c] is known to carry the table's stamp"""
    pv = Prover(f)
    subs = {g_.ref: idx for g_, idx in at_subscripts(f)}
    family, leaves, work = set(), [], [strip_bitcasts(f, v) if isinstance(v, str) else v]
    while work:
        r = work.pop()
        i = f.get(r) if isinstance(r, str) else None
        if i is not None and i.op == 'phi':
            if r not in family:
                family.add(r)
                work.extend(i.o)
        else:
            leaves.append(r)
    if not family:
        return False

    def core(x):
        i = f.get(x) if isinstance(x, str) else None
        while i is not None and i.op in ('zext', 'trunc', 'bitcast') and isinstance(i.o[0], str):
            x = i.o[0]
            i = f.get(x)
        return x
    for r in leaves:
        if is_load_of(f, r, 'bucket.rh.clean'):
            continue
        base, step = unit_step(f, r) if isinstance(r, str) else (None, 0)
        if step != 1 or base not in family:
            return False
        ok = False
        for (op, x, y) in pv.facts_at(f.get(r)):
            if op != 'eq':
                continue
            for a, b in ((core(x), core(y)), (core(y), core(x))):
                ai = f.get(a) if isinstance(a, str) else None
                if ai is None or ai.op != 'load' or not is_load_of(f, b, 'bucket.cst'):
                    continue
                if resolve_addr(f, ai.o[0]).fsteps[-1:] != (('cstl_hash_bucket', 'cst'),):
                    continue
                g_ = f.get(ai.o[0]) if isinstance(ai.o[0], str) else None
                while g_ is not None and g_.op in ('getelementptr', 'bitcast'):
                    if g_.ref in subs and core(subs[g_.ref]) == base:
                        ok = True
                    g_ = f.get(g_.o[0]) if isinstance(g_.o[0], str) else None
        if not ok:
            return False
    return True


def check_sweep_steps(m, f, cleaners, rule):
    steps = [s for s in f.all_insts() if _is_sweep_step(f, s)]
    subs = {g.ref: idx for g, idx in at_subscripts(f)}
    bad = set()

    def swept_bucket(ref):
        # &bucket.at[load rh.clean]
        r = strip_bitcasts(f, ref) if isinstance(ref, str) else ref
        return r in subs and is_load_of(f, subs[r], 'bucket.rh.clean')

    def core(v):
        # a _Bool member is loaded as i8, narrowed to i1 and widened again for the comparison
        i = f.get(v) if isinstance(v, str) else None
        while i is not None and i.op in ('zext', 'trunc', 'bitcast') and isinstance(i.o[0], str):
            v = i.o[0]
            i = f.get(v)
        return v

    def stamp_known(ps):
        for (op, x, y) in ps.known:
            if op != 'eq':
                continue
            for a, b in ((core(x), core(y)), (core(y), core(x))):
                ai = f.get(a) if isinstance(a, str) else None
                if ai is None or ai.op != 'load' or not is_load_of(f, b, 'bucket.cst'):
                    continue
                aa = resolve_addr(f, ai.o[0])
                if aa.fsteps[-1:] != (('cstl_hash_bucket', 'cst'),):
                    continue
                g = f.get(ai.o[0]) if isinstance(ai.o[0], str) else None
                while g is not None and g.op in ('getelementptr', 'bitcast'):
                    if swept_bucket(g.ref):
                        return True
                    g = f.get(g.o[0]) if isinstance(g.o[0], str) else None
        return False

    def transfer(ins, st, ps):
        if ins.op == 'call':
            if ins.x.get('noreturn'):
                return None
            if ins.callee in cleaners and any(isinstance(o, str) and swept_bucket(o) for o in ins.o):
                return 'clean'
        if ins in steps:
            if st != 'clean' and not stamp_known(ps):
                bad.add('the sweep index is advanced at %s past a bucket that was neither cleaned nor found to carry the table\'s clean stamp '
                        '(e.g. an empty one): it keeps its stale stamp, the next resize takes it for already clean, and nodes inserted into it '
                        'in between are never relocated' % ins.loc())
            return 'none'
        return st
    try:
        res = typestate.run(f, 'none', transfer, limit=200000)
    except typestate.Limit as e:
        rule.undecided(f.name + ':sweep-step', str(e), floc(m, f))
        return
    if bad:
        rule.violation(f.name + ':sweep-step', '; '.join(sorted(bad)[:2]), floc(m, f), {})
    else:
        rule.ok(f.name + ':sweep-step', '%d step(s), each after cleaning the bucket or seeing its stamp equal the table\'s' % len(steps), floc(m, f))


def check_capacity_request(m, f, c, setter, rule):
    """the size handed to the capacity setter: larger than the present capacity (growth cuts nothing), or the table's
    bucket count read after the completer ran (nothing pending, so no bucket beyond it is in use)"""
    pv = Prover(f)
    site = '%s->%s' % (f.name, setter.name)
    # which argument is the size: the one the setter multiplies / stores as capacity = its non-table integer parameter
    args = [o for o in c.o[1:]]
    if len(args) != 1:
        rule.undecided(site, 'capacity setter with %d size arguments' % len(args), c.loc())
        return
    v = args[0]
    comp = [x for x in f.all_insts() if x.op == 'call' and x.callee and x is not c and writer_of_count(f, x)]
    facts = pv.facts_at(c)
    grows = any((op == 'ult' and y == v and is_load_of(f, x, 'bucket.capacity')) for (op, x, y) in facts)
    vi = f.get(v) if isinstance(v, str) else None
    if grows:
        rule.ok(site, 'requested size is above the present capacity (growth)', c.loc())
    elif vi is not None and vi.op == 'load' and fld(f, vi) == 'bucket.count':
        w = writer_between(f, vi, c, 'bucket.count')
        doms = [x for x in comp if f.dominates(x, vi)]
        if w is not None:
            rule.violation(site, 'the array is cut to a bucket count read at %s, before %s() at %s may adopt a larger pending count: buckets beyond the '
                           'stale count, and the elements in them, are cut off' % (vi.loc(), w.callee, w.loc()), c.loc(), {})
        elif not doms:
            rule.violation(site, 'the array is cut to the current bucket count at %s without first forcing a pending rehash to finish: while a grow is '
                           'pending, relocated elements live in buckets beyond that count' % c.loc(), c.loc(), {})
        else:
            rule.ok(site, 'cut to bucket.count read after %s()' % doms[0].callee, c.loc())
    else:
        w = None
        for ld in f.all_insts():
            if ld.op == 'load' and fld(f, ld) in ('bucket.count', 'bucket.rh.count') and f.dominates(ld, c):
                w = w or writer_between(f, ld, c, 'bucket.count')
        from ..hashmodel import classify_pa
        eff, why = classify_pa(f, v, c, 'count')
        if eff and any(f.dominates(x, c) for x in comp):
            rule.ok(site, 'cut to the effective bucket count (%s), which is what the forced rehash adopts' % why, c.loc())
        elif w is not None and not grows:
            rule.violation(site, 'the array is resized to %s, computed before %s() at %s may adopt a pending geometry, and not known to exceed the '
                           'present capacity: buckets in use can be cut off' % (nw.describe(f, v), w.callee, w.loc()), c.loc(), {})
        else:
            rule.ok(site, 'NOT DECIDED: requested size %s is neither a growth nor the bucket count' % nw.describe(f, v), c.loc())


def writer_of_count(f, call):
    from ..hashmodel import may_store
    return may_store(f.module, f.module.fn(call.callee), 'bucket.count')


def check_pa_lookup(m, f, rule):
    rh_loads = [i for i in f.all_insts() if i.op == 'load' and fld(f, i) == 'bucket.rh.hash']
    keycalls = [c for c in hash_calls(f) if c.o and c.o[0] == '$1']
    kind = {}
    for c in keycalls:
        cv = f.get(c.x.get('cv'))
        mm = f.get(c.o[1])
        kind[c.ref] = (fld(f, cv), fld(f, mm))
    bad = set()
    # automaton: (key-hash calls executed, hash results whose bucket's cst was examined, results made stale by
    # a later adoption of the pending geometry on the same path)
    init = (frozenset(), frozenset(), frozenset())

    def transfer(ins, st, ps):
        calls, cleaned, stale = st
        if ins.op == 'call':
            if ins.x.get('noreturn'):
                return None
            if ins.ref in kind:
                return (calls | {ins.ref}, cleaned, stale - {ins.ref})
        elif ins.op == 'load':
            fl, a = bucket_field(f, ins)
            if fl == 'cst' and a.idx:
                r = ps.lookup(a.idx[-1])
                if r in kind:
                    return (calls, cleaned | {r}, stale)
        elif ins.op == 'store' and fld(f, ins) in ('bucket.count', 'bucket.hash'):
            # the sweep completed inside this lookup: what was hashed under the old current geometry is stale
            return (calls, cleaned, stale | {c for c in calls if kind[c] == ('bucket.hash', 'bucket.count')})
        return st

    keep = {L.ref for L in rh_loads} | {i.ref for i in f.all_insts() if i.op == 'phi' and i.ty.endswith('*')}
    # ... and merges that carry a checked index instead of a bucket pointer (the lookup converts once at the end)
    changed = True
    carries = set(kind)
    while changed:
        changed = False
        for i in f.all_insts():
            if i.op == 'phi' and i.ref not in carries and any(isinstance(o, str) and o in carries for o in i.o):
                carries.add(i.ref)
                changed = True
    keep |= {r for r in carries if r not in kind}
    try:
        res = typestate.run(f, init, transfer, track=lambda r: r in keep, limit=150000)
    except typestate.Limit as e:
        rule.undecided(f.name, str(e), floc(m, f))
        return
    npend = nnot = 0
    for ret, ps in res.exits:
        calls, cleaned, stale = ps.auto
        rv = ps.lookup(_k(strip_bitcasts(f, ret.o[0]))) if ret.o else None
        g = f.get(rv) if isinstance(rv, str) else None
        # the lookup may hand out the address of a member of the selected bucket (its chain head) instead of the bucket
        for _ in range(4):
            if g is None or g.op != 'getelementptr' or not g.x.get('path') or 'idx' in g.x['path'][0]:
                break
            if any('idx' in st for st in g.x['path']):
                break
            rv = ps.lookup(_k(strip_bitcasts(f, g.o[0])))
            g = f.get(rv) if isinstance(rv, str) else None
        idx = None
        if g is not None and g.op == 'getelementptr' and g.x.get('path') and 'idx' in g.x['path'][0]:
            idx = g.x['path'][0]['idx']
            idx = ps.lookup(_k(idx)) if isinstance(idx, str) else idx
        pend = None
        # the table's state when the lookup was entered: the pending marker as first read on the path
        entry_loads = [L for L in rh_loads if all(f.dominates(L, M) for M in rh_loads)] or rh_loads
        for L in entry_loads:
            k = ps.knows(('eq', L.ref, 'null'))
            if k is True:
                pend = False
            elif k is False:
                pend = True
        if pend is None:
            bad.add('an exit path at %s does not distinguish pending from not pending' % ret.loc())
            continue
        if idx in stale:
            bad.add('the returned bucket was selected under a geometry that this very call has since replaced (the sweep completed after the key was hashed)')
        kinds = {kind[c] for c in calls}
        if pend:
            npend += 1
            cur = [c for c in calls if kind[c] == ('bucket.hash', 'bucket.count')]
            pen = [c for c in calls if kind[c] == ('bucket.rh.hash', 'bucket.rh.count')]
            if not cur or not pen:
                bad.add('with a rehash pending the key is not hashed under both the current and the pending geometry')
                continue
            if not all(c in cleaned for c in cur + pen):
                bad.add('with a rehash pending the bucket of the key under the %s geometry is not cleaned before use' %
                        ('current' if not all(c in cleaned for c in cur) else 'pending'))
            if idx not in pen:
                bad.add('with a rehash pending the lookup returns the bucket computed under the current geometry (after adoption the element would be '
                        'looked for / inserted in the wrong chain)')
        else:
            nnot += 1
            if kinds != {('bucket.hash', 'bucket.count')} or len(calls) != 1:
                bad.add('with nothing pending the key is hashed %d time(s) with geometry %s' % (len(calls), sorted(kinds)))
            elif idx not in calls:
                bad.add('with nothing pending the returned bucket is not the one the hash selected')
    if not npend or not nnot:
        rule.undecided(f.name, 'pending / not-pending exit paths not both found (%d / %d)' % (npend, nnot), floc(m, f))
    elif bad:
        rule.violation(f.name, '; '.join(sorted(bad)[:3]), floc(m, f), {})
    else:
        rule.ok(f.name, '%d pending and %d not-pending exit state(s) conform' % (npend, nnot), floc(m, f))


def check_cleaner(m, f, rule):
    pv = Prover(f)
    bad = []
    reloc = [c for c in hash_calls(f) if c.o and c.o[0] != '$1']
    if not reloc:
        rule.undecided(f.name, 'no relocation hash call found in the cleaner', floc(m, f))
        return
    for c in reloc:
        cv, mm = f.get(c.x.get('cv')), f.get(c.o[1])
        if (fld(f, cv), fld(f, mm)) != ('bucket.rh.hash', 'bucket.rh.count'):
            bad.append('a node is relocated with geometry (%s, %s) instead of the pending one at %s' % (fld(f, cv), fld(f, mm), c.loc()))
        k = f.get(c.o[0])
        if k is None or k.op != 'load' or resolve_addr(f, k.o[0]).fsteps[-1:] != (('cstl_hash_node', 'key'),):
            bad.append('the relocation at %s does not hash the node\'s own key' % c.loc())
    # detach before re-insertion: store NULL to (param bucket)->n dominating every relocation
    detach = []
    for s in f.all_insts():
        if s.op == 'store':
            fl, a = bucket_field(f, s)
            if fl == 'n' and a.root == '$1' and const_int(s.o[0]) == 0:
                detach.append(s)
    for c in reloc:
        if not any(f.dominates(d, c) for d in detach):
            bad.append('the dirty bucket\'s chain is not detached (bucket->n := NULL) before nodes are re-inserted at %s: a node hashed back into the '
                       'same bucket would be walked again' % c.loc())
    # mark clean on every path through the dirty branch
    marks = []
    for s in f.all_insts():
        if s.op == 'store':
            fl, a = bucket_field(f, s)
            if fl == 'cst' and a.root == '$1':
                marks.append(s)
    if not marks:
        bad.append('the cleaned bucket is never marked clean')
    for d in detach:
        for r in f.returns():
            if f.dominates(d, r) or d.block.idx in {x.idx for x in f.blocks if r.block.idx in {y.idx for y in f.reachable_from(x)}}:
                # every path from the detach to this return must pass a mark: check by removing mark blocks
                if _reach_avoiding(f, d, r, marks):
                    bad.append('a path from the detached chain to the return at %s does not mark the bucket clean' % r.loc())
    for s in marks:
        v = f.get(strip_bitcasts(f, s.o[0]))
        while v is not None and v.op in ('zext', 'trunc'):
            v = f.get(v.o[0])
        if not (v is not None and v.op == 'load' and fld(f, v) == 'bucket.cst'):
            bad.append('the bucket\'s clean bit is set to something other than the table\'s at %s' % s.loc())
    # path-sensitive: every return is reached either knowing the bucket was clean already (its bit equals the table's)
    # or after the bucket has been marked -- whatever else the dirty path tests (an empty dirty bucket must be
    # stamped too: nodes relocated into it later are otherwise skipped by the next rehash)
    def core(r):
        i = f.get(r) if isinstance(r, str) else None
        while i is not None and i.op in ('zext', 'trunc', 'and'):
            i = f.get(i.o[0]) if isinstance(i.o[0], str) else None
        return i

    def was_clean(ps):
        for (op, x, y) in ps.known:
            if op != 'eq':
                continue
            cx, cy = core(x), core(y)
            if cx is None or cy is None or cx.op != 'load' or cy.op != 'load':
                continue
            kinds = set()
            for c in (cx, cy):
                if fld(f, c) == 'bucket.cst':
                    kinds.add('table')
                a = resolve_addr(f, c.o[0])
                if a.root == '$1' and a.fsteps[-1:] == (('cstl_hash_bucket', 'cst'),):
                    kinds.add('bucket')
            if kinds == {'table', 'bucket'}:
                return True
        return False

    def transfer(ins, st, ps):
        if ins.op == 'call' and ins.x.get('noreturn'):
            return None
        if ins in marks:
            return True
        return st
    rel = set()
    for i in f.all_insts():
        if i.op == 'load' and (fld(f, i) == 'bucket.cst' or (resolve_addr(f, i.o[0]).root == '$1' and resolve_addr(f, i.o[0]).fsteps[-1:] == (('cstl_hash_bucket', 'cst'),))):
            rel.add(i.ref)
    ch = True
    while ch:
        ch = False
        for i in f.all_insts():
            if i.ref not in rel and i.op in ('zext', 'trunc', 'and', 'icmp', 'xor') and any(o in rel for o in i.o):
                rel.add(i.ref)
                ch = True
    try:
        res = typestate.run(f, False, transfer, track=lambda r: r in rel, limit=50000)
        for r, ps in res.exits:
            if not ps.auto and not was_clean(ps):
                bad.append('a path reaches the return at %s with the bucket dirty and not marked clean (e.g. a dirty bucket that is empty): nodes '
                           'relocated into it later in the same rehash are skipped by the next one' % r.loc())
        if not res.exits:
            bad.append('no return reached in the cleaner')
    except typestate.Limit as e:
        rule.undecided(f.name, str(e), floc(m, f))
        return
    if bad:
        rule.violation(f.name, '; '.join(sorted(set(bad))[:4]), floc(m, f), {})
    else:
        rule.ok(f.name, '%d relocation site(s) with the pending geometry; chain detached first; bucket marked clean' % len(reloc), floc(m, f))


def _reach_avoiding(f, a, ret, avoid_insts):
    """is `ret` reachable from instruction a without executing any of avoid_insts?"""
    av_blocks = {}
    for s in avoid_insts:
        av_blocks.setdefault(s.block.idx, []).append(s.pos)
    seen = set()
    st = [(a.block, a.pos)]
    while st:
        b, pos = st.pop()
        hit = [p for p in av_blocks.get(b.idx, []) if p > pos]
        if hit:
            continue
        if b is ret.block and ret.pos > pos:
            return True
        for s in b.succ:
            if s.idx not in seen:
                seen.add(s.idx)
                st.append((s, -1))
    return False


def check_count(m, f, entry, rule):
    bad = set()
    _r = Roles(m)
    role_fns = set(_r.names('checked')) | set(_r.names('cleaner')) | set(_r.names('sweep')) | set(_r.names('pa_lookup'))
    init = (0, 0, 0)     # increments, decrements, chain writes by the entry point's own code

    def transfer(ins, st, ps):
        inc, dec, link = st
        if ins.op == 'call' and ins.x.get('noreturn'):
            return None
        if ins.op == 'store':
            if fld(f, ins) == 'count':
                base, step = unit_step(f, ins.o[0])
                if step and is_load_of(f, base, 'count'):
                    if step == 1:
                        return (min(inc + 1, 3), dec, link)
                    return (inc, min(dec + 1, 3), link)
                bad.add('the element count is written with a value that is not count +/- 1 at %s' % ins.loc())
            elif ins.srcfn not in role_fns and not any(fn_ in role_fns for fn_, _ln in ins.ia):
                # the entry point's own chain update: written in place, in a link helper or in its visitor -- but not what
                # the lookup / cleaner / sweep do on the way (those are inlined here as well)
                a = resolve_addr(f, ins.o[1])
                last = a.fsteps[-1:] if a.fsteps else ()
                chain = last in ((('cstl_hash_bucket', 'n'),), (('cstl_hash_node', 'next'),))
                if not chain:
                    # erase splices through a pointer-to-pointer: the stored value is a node's successor
                    v = f.get(strip_bitcasts(f, ins.o[0]))
                    if v is not None and v.op == 'load' and resolve_addr(f, v.o[0]).fsteps[-1:] == (('cstl_hash_node', 'next'),) and ins.ty == 'void' \
                            and 'cstl_hash_node' in (f.get(ins.o[1]).ty if f.get(ins.o[1]) is not None else ''):
                        chain = True
                if chain:
                    return (inc, dec, min(link + 1, 5))
        return st

    # result flags (a visitor's "found, stop" value merged from constants) are followed, nothing else
    flags = set()
    changed = True
    while changed:
        changed = False
        for i_ in f.all_insts():
            if i_.op == 'phi' and i_.ref not in flags and all(const_int(o) is not None or (isinstance(o, str) and o in flags) for o in i_.o):
                flags.add(i_.ref)
                changed = True
    try:
        res = typestate.run(f, init, transfer, track=lambda r: r in flags, limit=150000)
    except typestate.Limit as e:
        rule.undecided(entry, str(e), floc(m, f))
        return
    for ret, ps in res.exits:
        inc, dec, link = ps.auto
        if entry == 'cstl_hash_insert':
            if inc != 1 or dec != 0:
                bad.add('a path to the return at %s changes the element count by +%d/-%d (expected exactly +1)' % (ret.loc(), inc, dec))
            if link != 2:
                bad.add('a path to the return at %s performs %d chain write(s) in insert (expected: node->next := head; head := node)' % (ret.loc(), link))
        else:
            if inc != 0 or dec > 1 or dec != link:
                bad.add('a path to the return at %s decrements the count %d time(s) but splices %d node(s) out of the chain' % (ret.loc(), dec, link))
    if not res.exits:
        rule.undecided(entry, 'no exit path explored', floc(m, f))
    elif bad:
        rule.violation(entry, '; '.join(sorted(bad)[:3]), floc(m, f), {})
    else:
        rule.ok(entry, 'count bookkeeping matches chain updates on all %d exit state(s)' % len(res.exits), floc(m, f))


def strip_ext(f, ref):
    i = f.get(ref) if isinstance(ref, str) else None
    while i is not None and i.op in ('zext', 'sext', 'trunc'):
        ref = i.o[0]
        i = f.get(ref) if isinstance(ref, str) else None
    return ref


def check_resize_order(m, f, rule):
    bad = []
    comp = [c for c in f.calls('cstl_hash_rehash')]
    flips = [s for s in f.all_insts() if s.op == 'store' and fld(f, s) == 'bucket.cst']
    rh = [s for s in f.all_insts() if s.op == 'store' and fld(f, s) in ('bucket.rh.count', 'bucket.rh.hash', 'bucket.rh.clean') and const_int(s.o[0]) != 0 or
          (s.op == 'store' and fld(f, s) == 'bucket.rh.clean')]
    if not flips:
        bad.append('resize never flips the table\'s clean bit: no bucket would be regarded as dirty')
    for fl in flips:
        if not any(f.dominates(c, fl) for c in comp):
            bad.append('the clean bit is flipped at %s without first forcing the previous rehash to finish (buckets still dirty from it would look clean)' % fl.loc())
    for s in rh:
        if fld(f, s) == 'bucket.rh.hash' and const_int(s.o[0]) == 0:
            continue
        if not any(f.dominates(fl, s) for fl in flips):
            bad.append('the pending geometry is stored at %s before the clean bit is flipped' % s.loc())
        if not any(f.dominates(c, s) for c in comp):
            bad.append('the pending geometry is overwritten at %s while a previous rehash may still be pending' % s.loc())
    # every flip must be followed, on every path to a return, by recording a pending function: a flipped clean
    # bit with no rehash pending makes every bucket look dirty now and clean after the next flip
    rh_set = [s for s in f.all_insts() if s.op == 'store' and fld(f, s) == 'bucket.rh.hash' and const_int(s.o[0]) != 0]
    # the very first resize adopts the geometry directly (no bucket is in use yet, so a flipped bit harms nothing)
    pv0 = Prover(f)
    rh_set += [s for s in f.all_insts() if s.op == 'store' and fld(f, s) == 'bucket.hash' and const_int(s.o[0]) != 0 and
               any(op == 'eq' and y == 'null' and is_load_of(f, x, 'bucket.hash') for (op, x, y) in pv0.facts_at(s))]
    for fl in flips:
        for r in f.returns():
            if _reach_avoiding(f, fl, r, rh_set):
                bad.append('after the clean bit is flipped at %s a return at %s is reachable without a pending rehash having been recorded (e.g. when the '
                           'bucket allocation then fails): all buckets now look dirty and will look clean after the next resize' % (fl.loc(), r.loc()))
    # adopting a geometry without sweeping is only sound while no bucket is in use (first resize)
    pv = Prover(f)
    stamps_all = any(s.op == 'store' and bucket_field(f, s)[0] == 'cst' and bucket_field(f, s)[1].idx and
                     (lambda i: i is not None and i.op == 'phi' and any(const_int(o) == 0 for o in i.o))(
                         f.get(strip_ext(f, bucket_field(f, s)[1].idx[-1]))) for s in f.all_insts())
    for s in f.all_insts():
        if s.op == 'store' and fld(f, s) in ('bucket.count', 'bucket.hash') and const_int(s.o[0]) != 0:
            first = any(op == 'eq' and y == 'null' and is_load_of(f, x, 'bucket.hash') for (op, x, y) in pv.facts_at(s))
            if not first and not stamps_all:
                bad.append('the new geometry is adopted at %s without a sweep although the table may already have buckets in use: their clean bits '
                           'stay stale, and after the next resize dirty buckets look clean (elements become unreachable)' % s.loc())
    # new buckets: n = NULL and cst = table's (after the flip)
    n_init = cst_init = False
    # look in resize itself and in internal helpers it calls after the flip (e.g. an extracted init loop)
    helpers = []
    for c in f.all_insts():
        if c.op == 'call' and c.callee and any(f.dominates(x, c) for x in flips):
            g = f.module.fn(c.callee)
            if g is not None and not g.decl and g.linkage == 'internal':
                helpers.append(g)
    for g in helpers:
        for s in g.all_insts():
            if s.op != 'store':
                continue
            fl, a = bucket_field(g, s)
            if fl == 'n' and a.idx and const_int(s.o[0]) == 0:
                n_init = True
            if fl == 'cst' and a.idx:
                v = g.get(strip_bitcasts(g, s.o[0]))
                while v is not None and v.op in ('zext', 'trunc'):
                    v = g.get(v.o[0])
                if v is not None and v.op == 'load' and fld(g, v) == 'bucket.cst':
                    cst_init = True       # read inside a helper that only runs after the flip
                else:
                    bad.append('added buckets are stamped with a clean bit that is not the table\'s flipped one at %s' % s.loc())
    for s in f.all_insts():
        if s.op != 'store':
            continue
        fl, a = bucket_field(f, s)
        if fl == 'n' and a.idx and const_int(s.o[0]) == 0:
            n_init = True
        if fl == 'cst' and a.idx:
            v = f.get(strip_bitcasts(f, s.o[0]))
            while v is not None and v.op in ('zext', 'trunc'):
                v = f.get(v.o[0])
            def core(r):
                i = f.get(strip_bitcasts(f, r)) if isinstance(r, str) else None
                while i is not None and i.op in ('zext', 'trunc'):
                    i = f.get(i.o[0])
                return i
            if v is not None and v.op == 'load' and fld(f, v) == 'bucket.cst' and any(f.dominates(x, v) for x in flips):
                cst_init = True
            elif v is not None and any(core(x.o[0]) is v and f.dominates(x, s) for x in flips):
                cst_init = True     # the very value the flip stored (store-to-load forwarding)
            else:
                bad.append('added buckets are stamped with a clean bit that is not the table\'s flipped one at %s' % s.loc())
    # the range initialised: [current bucket count, requested count)
    for g, call in [(f, None)] + [(g, c) for g in helpers for c in f.calls(g.name)]:
        for s in g.all_insts():
            if s.op != 'store':
                continue
            fl, a = bucket_field(g, s)
            if fl != 'n' or not a.idx or const_int(s.o[0]) != 0:
                continue
            ix = g.get(strip_ext(g, a.idx[-1]))
            if ix is None or ix.op != 'phi':
                bad.append('the added buckets emptied at %s are not enumerated by a loop index' % s.loc())
                continue
            inits = [o for o in ix.o if not (unit_step(g, o)[0] == ix.ref)]

            def up(v):
                # a helper's parameter is the caller's argument
                v = strip_ext(g, v)
                if call is not None and isinstance(v, str) and v.startswith('$') and v[1:].isdigit() and int(v[1:]) < len(call.o):
                    return f, strip_ext(f, call.o[int(v[1:])]), call
                return g, v, s
            for o in inits:
                hf, v, at = up(o)
                vi = hf.get(v) if isinstance(v, str) else None
                if const_int(v) == 0:
                    if not any(op == 'eq' and y == 'null' and is_load_of(hf, x, 'bucket.hash') for (op, x, y) in Prover(hf).facts_at(at)):
                        bad.append('every bucket from 0 is emptied at %s although the table may hold elements' % s.loc())
                elif vi is not None and vi.op == 'load' and fld(hf, vi) == 'bucket.count':
                    w = writer_between(hf, vi, at, 'bucket.count')
                    if w is not None:
                        bad.append('the first added bucket is taken from a bucket count read at %s, before %s() at %s may adopt a pending geometry: '
                                   'buckets between the adopted count and the stale one keep an old clean bit (or buckets in use are emptied)'
                                   % (vi.loc(), w.callee, w.loc()))
                else:
                    bad.append('the added buckets emptied at %s do not start at the table\'s current bucket count' % s.loc())
            # upper bound: the requested count
            okb = False
            for (op, x, y) in Prover(g).facts_at(s):
                if op == 'ult' and strip_ext(g, x) == ix.ref:
                    hf, v, _ = up(y)
                    if hf is f and v == '$1':
                        okb = True
            if not okb:
                bad.append('the loop emptying added buckets at %s is not bounded by the requested count' % s.loc())
    if not n_init:
        bad.append('added buckets are not emptied (n := NULL)')
    if not cst_init:
        bad.append('added buckets are not marked clean')
    if bad:
        rule.violation('cstl_hash_resize', '; '.join(sorted(set(bad))[:4]), floc(m, f), {})
    else:
        rule.ok('cstl_hash_resize', 'rehash() -> flip -> rh.*; new buckets n = NULL, cst = flipped', floc(m, f))
