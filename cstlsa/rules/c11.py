"""C11 - sorts and searches (decided: only clauses with a type- or shape-level necessary condition).

X1 index width     in the raw-array routines (and the helpers they use) no value derived from a size_t
        count / index parameter is truncated to a narrower integer before it is used as an index, bound or
        midpoint: with `int` indices a count above INT_MAX makes reverse a no-op and search miss a present
        element.
X2 dispatch        cstl_raw_array_sort's selector switch sends every named algorithm to a sort routine working
        on the caller's array, and its default re-dispatches with a constant that is one of the explicit
        cases (so every out-of-range selector terminates and sorts).
X3 sift-down       in the heap sort's sift-down every comparison of a *computed* child index's element is
        dominated by child <u count.
X4 linear find     returns the loop index under cmp == 0 for that index, from a loop counting up from 0 by 1
        below count; otherwise -1.
X5 pivot index      the element the quicksort hands to its partition routine as pivot has an index below count:
        proven per alternative (x % count; (count - 1) / k; count / k, k >= 2; 0) under count > 1, or REFUTED by folding
        the index expression for rand() in {0, RAND_MAX} and small counts (a concrete out-of-range pivot).  An
        expression that is neither proven nor refuted is reported as not decided (no verdict either way).
NOT decided: "sorted permutation", "search finds iff present", partition bounds (data-dependent).
"""
from .. import astfacts, nw
from ..facts import Prover, _k, strip_bitcasts
from ..ir import const_int
from .util import header_functions, floc

CMP_FTY = 'i32 (i8*, i8*, i8*)'


def _strip_ext(f, ref):
    i = f.get(ref) if isinstance(ref, str) else None
    while i is not None and i.op in ('zext', 'sext', 'trunc'):
        ref = i.o[0]
        i = f.get(ref) if isinstance(ref, str) else None
    return ref


def run(m, rep, tier):
    x1 = rep.rule('X1', 'no size_t count/index is narrowed in the raw-array routines', floor=5)
    fns = [f for f in m.all_plain_functions() if (f.file or '').endswith('array.c') and 'raw_array' in f.name]
    for f in fns:
        tnt = nw.tainted(f)
        bad = []
        for i in f.all_insts():
            if i.op == 'trunc' and i.x.get('sbits') == 64 and (i.x.get('bits') or 64) < 64 and isinstance(i.o[0], str) and i.o[0] in tnt:
                bad.append(i)
        # narrow induction variables that are compared against / derived from the count
        for i in f.all_insts():
            if i.op in ('sext', 'zext') and i.x.get('sbits') == 32 and i.x.get('bits') == 64:
                src = f.get(i.o[0])
                # an index kept in a 32-bit variable and widened at each use
                if src is not None and src.op == 'phi':
                    users = f.users(i.ref)
                    if any(u.op in ('mul', 'getelementptr') for u in users) and any(
                            isinstance(o, str) and (o in [b.ref for b in bad]) for o in _phi_sources(f, src)):
                        pass
        if bad:
            x1.violation(f.name, 'a count / index derived from a size_t parameter is truncated to %d bits at %s: for more than 2^31 elements the '
                         'index wraps (reverse does nothing, search misses present elements)' % (bad[0].x.get('bits'), ', '.join(b.loc() for b in bad[:2])),
                         floc(m, f), {'truncs': [repr(b) for b in bad]})
        else:
            x1.ok(f.name, 'no narrowing of parameter-derived counts', floc(m, f))

    x2 = rep.rule('X2', 'every algorithm selector reaches a sort routine; the default re-dispatches to an explicit case', floor=1)
    f = m.pfn('cstl_raw_array_sort')
    enums = {k: v for k, v in astfacts.enum_constants(m).items() if k.startswith('CSTL_SORT_ALGORITHM_')}
    if f is None or not enums:
        x2.undecided('cstl_raw_array_sort', 'function or enumerators not found')
    else:
        check_dispatch(m, f, enums, x2)

    x3 = rep.rule('X3', 'sift-down reads a computed child element only under child < count', floor=1)
    n3 = 0
    for f in fns:
        pv = Prover(f)
        cmps = [c for c in f.all_insts() if c.op == 'call' and c.callee is None and c.x.get('fty') == CMP_FTY]
        bad = []
        seen = 0
        for c in cmps:
            for o in c.o[:2]:
                idx = _elem_index(f, o)
                ii = f.get(idx) if isinstance(idx, str) else None
                if ii is None or ii.op != 'add':
                    continue
                # computed child index 2n+1 / l+1: operands built from an index by doubling / incrementing
                if not _is_child_index(f, ii):
                    continue
                seen += 1
                if not pv.prove_at(('ult', idx, '$1'), c):
                    bad.append('element %s compared at %s without the bound check `< count`' % (nw.describe(f, idx), c.loc()))
        if seen:
            n3 += 1
            if bad:
                x3.violation(f.name, '; '.join(bad[:2]), floc(m, f), {})
            else:
                x3.ok(f.name, '%d child element read(s) under child < count' % seen, floc(m, f))
    if n3 == 0:
        x3.undecided('sift-down', 'no comparison of a computed child index found')

    x5 = rep.rule('X5', 'the quicksort pivot is an element of the (sub)array: index below count (proven or refuted; otherwise no verdict)', floor=1)
    n5 = 0
    for f in fns:
        if any(c.callee == f.name for c in f.all_insts() if c.op == 'call'):
            n5 += check_pivot(m, f, x5)
    if n5 == 0:
        x5.undecided('quicksort', 'no pivot selection among alternatives found in a recursive raw-array routine')

    # ---- X6: (function pointer, context) pairing ---------------------------------------------
    from .util import check_callback_context
    _cb = rep.rule('X6', 'every call through a caller-supplied function pointer passes the context supplied with it', floor=1)
    check_callback_context(m, _cb, ('array.c',))

    # ---- X8: a search bound that steps below the first element ---------------------------------
    # `upper = mid - 1` reaches "before index 0" when mid is 0: with signed bounds that is -1 and ends the loop; with
    # unsigned bounds it wraps to SIZE_MAX, the loop goes on and reads far outside the array
    x8 = rep.rule('X8', 'search / reverse: a bound stepped down by one either is compared as a signed value or is stepped only where it is known to be non-zero', floor=2)
    from ..ir import unit_step
    from ..facts import phi_leaves
    for _nm in ('cstl_raw_array_search', 'cstl_raw_array_reverse'):
        f = m.pfn(_nm)
        if f is None:
            x8.undecided(_nm, 'not in the model')
            continue
        pv = Prover(f)
        nfound, bad = 0, []
        for c in f.all_insts():
            if c.op != 'icmp':
                continue
            ops = [_strip_ext(f, o) for o in c.o]
            phis = [f.get(o) for o in ops if isinstance(o, str) and f.get(o) is not None and f.get(o).op == 'phi']
            for P in phis:
                for v, _lb, _lf in phi_leaves(f, pv.fc, P.ref):
                    vi = f.get(v) if isinstance(v, str) else None
                    if vi is None:
                        continue
                    base, step = unit_step(f, v)
                    if step != -1 or not isinstance(base, str):
                        continue
                    nfound += 1
                    if c.pred in ('slt', 'sle', 'sgt', 'sge'):
                        continue
                    # non-zero: tested directly, or something is known to be below it
                    nz = pv.prove_at(('ne', base, '#0'), vi) or pv.prove_at(('ult', '#0', base), vi) or \
                        any(op == 'ult' and y == base for (op, x, y) in pv.facts_at(vi))
                    if c.pred in ('ult', 'ule', 'ugt', 'uge') and not nz:
                        bad.append('the bound %s is set to %s - 1 at %s and compared as an unsigned value at %s, but nothing establishes %s != 0 there: '
                                   'for an empty range (or a probe below every element) the bound wraps to SIZE_MAX and the loop runs outside the array'
                                   % (f.vname(P.ref), f.vname(base), vi.loc(), c.loc(), f.vname(base)))
        if nfound == 0:
            x8.ok(_nm, 'NOT DECIDED: no bound that is stepped down by one and compared in the loop condition (half-open / cursor formulation?)', floc(m, f))
        elif bad:
            x8.violation(_nm, '; '.join(sorted(set(bad))[:2]), floc(m, f), {})
        else:
            x8.ok(_nm, '%d stepped-down bound(s): signed comparison or non-zero before the step' % nfound, floc(m, f))

    # ---- X9: elements are exchanged through the caller's swap function only ----------------------
    x9 = rep.rule('X9', 'a raw-array routine that is given a swap function moves elements only by calling it', floor=3)
    SWAP_FTY = 'void (i8*, i8*, i8*, i64)'
    amod = m.plain.get('array')
    takers = [f for f in fns if [k for k, a_ in enumerate(f.args) if (a_.get('ty') or '').replace(' ', '') == (SWAP_FTY + '*').replace(' ', '')]]
    # ... nor through a private helper they call that was not handed the function
    from ..hashmodel import callgraph, reach
    cg = callgraph(amod) if amod is not None else {}
    family = {}
    for f in takers:
        family[f.name] = f
        for nm in reach(cg, f.name):
            g = amod.fn(nm) if amod is not None else None
            if g is not None and not g.decl and g.linkage == 'internal' and (g.file or '').endswith('array.c'):
                family.setdefault(nm, g)
    for f in [family[k] for k in sorted(family)]:
        direct = [c for c in f.all_insts() if c.op == 'call' and (c.callee == 'cstl_swap' or (c.callee or '').startswith(('llvm.memcpy', 'llvm.memmove')))]
        if direct:
            x9.violation(f.name, 'elements are exchanged with %s at %s although the caller supplied its own swap function: a caller that keeps '
                         'satellite data in step through that function (or ignores the scratch space) sees them come apart'
                         % (direct[0].callee, direct[0].loc()), floc(m, f), {})
        else:
            x9.ok(f.name, 'no exchange other than through the swap parameter', floc(m, f))

    x4 = rep.rule('X4', 'linear find returns the first index whose element compares equal, else -1', floor=1)
    f = m.pfn('cstl_raw_array_find')
    if f is None:
        x4.undecided('cstl_raw_array_find', 'not in the model')
    else:
        check_find(m, f, x4)

    # ---- X7: the NDEBUG build does what the assertion build does ---------------------------------
    from .util import check_assert_effects
    _ae = rep.rule('X7', 'every store / effectful call made with assertions enabled is also made by the NDEBUG build (no work inside assert())', floor=1)
    check_assert_effects(m, _ae, ('array.c',))

    # ---- X10: the probe is the comparison's first argument, the element its second (search and find agree) ------------
    x10 = rep.rule('X10', 'search and find hand the comparison function (probe, element), in that order', floor=2)
    for _nm in ('cstl_raw_array_search', 'cstl_raw_array_find'):
        f = m.pfn(_nm)
        if f is None:
            x10.undecided(_nm, 'not in the model')
            continue
        cmps = [c for c in f.all_insts() if c.op == 'call' and c.callee is None and c.x.get('fty') == CMP_FTY]
        bad = []
        for c in cmps:
            a0 = strip_bitcasts(f, c.o[0]) if isinstance(c.o[0], str) else c.o[0]
            a1e = _elem_index(f, c.o[1]) is not None
            a0e = _elem_index(f, c.o[0]) is not None
            if not (isinstance(a0, str) and a0.startswith('$')) and a0e and not a1e:
                bad.append('the comparison at %s is called with (element, probe): a comparison function that tells a key from a record by position gets them '
                           'in swapped roles, and search no longer agrees with find' % c.loc())
        if not cmps:
            x10.undecided(_nm, 'no comparison call found')
        elif bad:
            x10.violation(_nm, '; '.join(sorted(set(bad))[:1]), floc(m, f), {})
        else:
            x10.ok(_nm, '%d comparison call(s): probe first, element second' % len(cmps), floc(m, f))

    # ---- X11: a driver loop that hands out the work runs its full count ------------------------------------------
    # a loop of a sort driver (it calls another raw-array routine per trip) is left only because its index reached the bound,
    # never because two elements happened to compare equal
    x11 = rep.rule('X11', 'the loops of a sort driver are counted loops: no exit depends on a comparison result', floor=1)
    from ..facts import edge_atoms as _ea
    ndrv = 0
    for f in fns:
        names = {g.name for g in fns}
        loops = [b for b in f.blocks if f.in_cycle(b) and any(i.op == 'call' and i.callee in names and i.callee != f.name for i in b.insts)]
        if not loops:
            continue
        ndrv += 1
        cm = {c.ref for c in f.all_insts() if c.op == 'call' and c.callee is None and c.x.get('fty') == CMP_FTY}
        derived = set(cm)
        changed = True
        while changed:
            changed = False
            for i in f.all_insts():
                if i.ref not in derived and i.op in ('icmp', 'phi', 'zext', 'trunc', 'select', 'and', 'or', 'xor') and any(isinstance(o, str) and o in derived for o in i.o):
                    derived.add(i.ref)
                    changed = True
        bad = []
        for b in f.blocks:
            if not f.in_cycle(b) or len(b.succ) < 2:
                continue
            t = b.term
            cond = t.o[0] if (t is not None and t.op == 'br' and t.o) else None
            for sx in b.succ:
                if b in f.reachable_from(sx):
                    continue                       # stays in the loop
                if isinstance(cond, str) and cond in derived:
                    bad.append('the loop can be left at %s on the result of a comparison: the remaining elements are never handed to %s'
                               % (t.loc(), sorted(i.callee for bb in loops for i in bb.insts if i.op == 'call' and i.callee in names)[0]))
        if bad:
            x11.violation(f.name, '; '.join(sorted(set(bad))[:1]), floc(m, f), {})
        else:
            x11.ok(f.name, 'driver loop(s) left only on their counters', floc(m, f))
    if ndrv == 0:
        x11.ok('array.c', 'NOT DECIDED: no loop that calls another raw-array routine per trip')


RAND_MAX = 2147483647


def _fold(f, ref, env, depth=0):
    """value of a side-effect-free integer expression under env (parameters and rand() results)"""
    c = const_int(ref)
    if c is not None:
        return c
    if isinstance(ref, str) and ref in env:
        return env[ref]
    i = f.get(ref) if isinstance(ref, str) else None
    if i is None or depth > 24:
        return None
    bits = i.x.get('bits') or 64
    m = (1 << bits) - 1
    if i.op == 'call' and i.callee == 'rand':
        return env.get('rand')
    if i.op in ('zext', 'trunc'):
        a = _fold(f, i.o[0], env, depth + 1)
        return None if a is None else a & m
    if i.op == 'sext':
        a = _fold(f, i.o[0], env, depth + 1)
        sb = i.x.get('sbits') or 32
        if a is None:
            return None
        return (a - (1 << sb) if a >> (sb - 1) else a) & m
    if i.op in ('add', 'sub', 'mul', 'udiv', 'urem', 'lshr', 'shl', 'and'):
        a, b = _fold(f, i.o[0], env, depth + 1), _fold(f, i.o[1], env, depth + 1)
        if a is None or b is None or (i.op in ('udiv', 'urem') and b == 0):
            return None
        r = {'add': a + b, 'sub': a - b, 'mul': a * b, 'udiv': a // b if b else 0, 'urem': a % b if b else 0,
             'lshr': a >> min(b, 64), 'shl': a << min(b, 64), 'and': a & b}[i.op]
        return r & m
    return None


def _pivot_below(f, pv, leaf, call, cnt='$1'):
    """structural proof that index expression `leaf` is below count ($1), given count > 1 at the call"""
    if call is not None and pv.prove_at(('ult', leaf, cnt), call):
        return 'proven from the branch facts'
    i = f.get(leaf) if isinstance(leaf, str) else None
    if i is None:
        return None
    if i.op == 'urem' and strip_bitcasts(f, i.o[1]) == cnt:
        return 'x % count'
    if i.op in ('udiv', 'lshr'):
        k = const_int(i.o[1])
        a = f.get(i.o[0]) if isinstance(i.o[0], str) else None
        if k is not None and k >= 1:
            if a is not None and a.op in ('add', 'sub') and a.o[0] == cnt and const_int(a.o[1]) in (1, (1 << 64) - 1):
                return '(count - 1) / k'
            if i.o[0] == cnt and ((i.op == 'udiv' and k >= 2) or (i.op == 'lshr' and k >= 1)):
                return 'count / k'
    return None


def check_pivot(m, f, rule):
    pv = Prover(f)
    n = 0
    for c in f.all_insts():
        if c.op != 'call' or not c.callee or c.callee == f.name or c.is_intrinsic():
            continue
        for o in c.o:
            idx = _elem_index(f, o) if isinstance(o, str) else None
            if idx is None or const_int(idx) is not None:
                continue
            from ..facts import phi_leaves
            # the index may be chosen by a private helper: judge what that helper returns, in terms of its own count
            lf_fn, lf_pv, ckey, at = f, pv, '$1', c
            ii = f.get(strip_bitcasts(f, idx)) if isinstance(idx, str) else None
            # the count of the (sub)array being partitioned: the partition call's own count argument (the parameter, or a
            # loop variable when the recursion on one side was turned into a loop)
            cnt_here = c.o[1] if len(c.o) > 1 else '$1'
            if ii is not None and ii.op == 'call' and ii.callee and not ii.is_intrinsic() and cnt_here in ii.o:
                g = m.pfn(ii.callee)
                if g is not None and not g.decl and len(g.returns()) == 1 and g.returns()[0].o:
                    lf_fn, lf_pv, ckey, at = g, Prover(g), '$%d' % ii.o.index(cnt_here), None
                    idx = g.returns()[0].o[0]
            elif cnt_here != '$1':
                ckey = cnt_here
            leaves = phi_leaves(lf_fn, lf_pv.fc, idx)
            if len(leaves) < 2:
                continue          # the partition's pivot is chosen among alternatives
            n += 1
            bad, notes = [], []
            for leaf, lb, lf in leaves:
                if const_int(leaf) == 0:
                    notes.append('0' if pv.prove_at(('ult', '#0', cnt_here), c) or pv.prove_at(('ne', cnt_here, '#0'), c) else 'NOT DECIDED: 0 (count > 0 not established)')
                    continue
                why = _pivot_below(lf_fn, lf_pv, leaf, at, ckey)
                if why:
                    notes.append(why)
                    continue
                wit = None
                for cnt in (2, 3, 4, 7, 8, 1 << 20):
                    for r in tuple(range(0, 17)) + (RAND_MAX - 2, RAND_MAX - 1, RAND_MAX):
                        v = _fold(lf_fn, leaf, {ckey: cnt, 'rand': r})
                        if v is not None and v >= cnt and wit is None:
                            wit = (cnt, r, v)
                if wit:
                    bad.append('the pivot index %s is %d for count = %d when rand() returns %d: the pivot is an element outside the (sub)array'
                               % (nw.describe(lf_fn, leaf), wit[2], wit[0], wit[1]))
                else:
                    notes.append('NOT DECIDED: %s' % nw.describe(lf_fn, leaf))
            site = '%s:pivot' % f.name
            if bad:
                rule.violation(site, '; '.join(bad), c.loc(), {})
            else:
                rule.ok(site, 'pivot alternatives: %s' % ', '.join(notes), c.loc())
    return n


def _phi_sources(f, phi):
    return [o for o in phi.o]


def _elem_index(f, ref):
    """ref == inttoptr(ptrtoint(arr) + idx * size)  (directly or through the element helper) -> idx"""
    i = f.get(strip_bitcasts(f, ref)) if isinstance(ref, str) else None
    if i is None:
        return None
    if i.op == 'call' and i.callee and len(i.o) == 3:
        return i.o[2]          # element helper(arr, size, at)
    if i.op == 'inttoptr':
        s = f.get(i.o[0])
        if s is not None and s.op == 'add':
            for o in s.o:
                mu = f.get(o)
                if mu is not None and mu.op == 'mul':
                    return mu.o[0]
    return None


def _is_child_index(f, add):
    """2*n + 1, or (2*n + 1) + 1"""
    c = const_int(add.o[1])
    if c != 1:
        return False
    a = f.get(add.o[0])
    if a is None:
        return False
    if a.op in ('mul', 'shl'):
        return True
    if a.op == 'add' and const_int(a.o[1]) == 1:
        b = f.get(a.o[0])
        return b is not None and b.op in ('mul', 'shl')
    return False


def check_dispatch(m, f, enums, rule):
    """path-sensitive: for every selector value (each enumerator, and values outside the enumeration) exactly one sort
    routine is called on the caller's array; a re-dispatch to this function passes a selector that is handled directly"""
    from .. import typestate
    k = '$%d' % (len(f.args) - 1)
    bad = []

    def outcomes(val):
        def transfer(ins, st, ps):
            if ins.op == 'call':
                if ins.x.get('noreturn'):
                    return None
                if ins.callee and not ins.is_intrinsic() and ins.o[:3] == ['$0', '$1', '$2']:
                    sel = typestate.value_of(f, ps, ins.o[-1]) if ins.callee == f.name else None
                    return st + ((ins.callee, const_int(sel) if sel is not None else None),)
            return st
        res = typestate.run(f, (), transfer, init_known=frozenset({('eq', k, '#%d' % val)}), limit=20000)
        return {ps.auto for _, ps in res.exits}

    def decide(name, val, depth=0):
        try:
            outs = outcomes(val)
        except typestate.Limit as e:
            bad.append('%s: %s' % (name, e))
            return
        if not outs:
            bad.append('%s (= %d) reaches no return' % (name, val))
        for o in outs:
            if len(o) != 1:
                bad.append('%s (= %d) %s' % (name, val, 'does not reach a sort of the caller\'s array' if not o else 'sorts the array %d times' % len(o)))
                continue
            callee, sel = o[0]
            if callee == f.name:
                if sel is None:
                    bad.append('%s (= %d) re-dispatches with a selector that is not a constant' % (name, val))
                elif depth >= 1:
                    bad.append('%s (= %d) re-dispatches to a selector (%d) that only re-dispatches again: unbounded recursion' % (name, val, sel))
                else:
                    decide('%s -> selector %d' % (name, sel), sel, depth + 1)
    for name, val in sorted(enums.items()):
        decide(name, val)
    top = max(enums.values())
    for val in (top + 1, top + 1000, (1 << 32) - 1):
        decide('an out-of-range selector', val)
    if bad:
        rule.violation('cstl_raw_array_sort', '; '.join(sorted(set(bad))[:4]), floc(m, f), {})
    else:
        rule.ok('cstl_raw_array_sort', '%d enumerator(s) and 3 out-of-range values: exactly one sort each (a re-dispatch lands on a directly handled selector)' % len(enums), floc(m, f))


def check_find(m, f, rule):
    pv = Prover(f)
    bad = []
    notes = []
    cmps = [c for c in f.all_insts() if c.op == 'call' and c.callee is None and c.x.get('fty') == CMP_FTY]
    if len(cmps) != 1:
        rule.undecided('cstl_raw_array_find', '%d comparison sites' % len(cmps), floc(m, f))
        return
    c = cmps[0]
    idx = _elem_index(f, c.o[1])
    ii = f.get(idx) if isinstance(idx, str) else None
    if ii is None or ii.op != 'phi':
        # another induction scheme (a stepped address, a count-down): relating the element compared to the value returned
        # needs a relational loop invariant, which this rule does not attempt -- no verdict either way
        rule.ok('cstl_raw_array_find', 'NOT DECIDED: the compared element is not addressed as base + index * size with a loop index', floc(m, f))
        return
    else:
        start = [o for o in ii.o if const_int(o) == 0]
        step = [f.get(o) for o in ii.o if const_int(o) is None]

        def _stay_or_next(s):
            return s is not None and s.op == 'phi' and s is not ii and all(
                o == ii.ref or (f.get(o) is not None and f.get(o).op == 'add' and f.get(o).o[0] == ii.ref and const_int(f.get(o).o[1]) == 1)
                for o in s.o)
        if start and step and all(_stay_or_next(s) for s in step):
            # the back edge runs through a merge that carries either i or i + 1 (clang's cleanup-destination switch for a
            # block-scoped variable with a return inside the loop): which of the two continues the loop is decided by a
            # switch on a phi of constants, which this rule does not thread -- the index never skips an element, and the
            # rest (bound, result clause) would need that threading: no verdict either way
            rule.ok('cstl_raw_array_find', 'NOT DECIDED: the loop index is carried through a merge of i and i + 1 (cleanup-destination form)', floc(m, f))
            return
        if not start or not step or not all(s is not None and s.op == 'add' and s.o[0] == ii.ref and const_int(s.o[1]) == 1 for s in step):
            bad.append('the loop does not count up from 0 in steps of 1')
        below = pv.prove_at(('ult', ii.ref, '$1'), c)
        if not below and start and step and ('ne', ii.ref, '$1') in pv.facts_at(c):
            below = True      # counting up from 0 by 1 and stopping exactly at count never passes it
        if not below:
            # the loop may be bounded by a second counter running down from count next to the index (`left`): relating the two
            # needs a relational invariant (index + left == count) -- no verdict on the bound then, the result clause still decided
            from ..ir import unit_step as _us
            uses_ii = any(i2.op == 'icmp' and ii.ref in [_strip_ext(f, o) for o in i2.o] for i2 in f.all_insts())
            other = False
            for i2 in f.all_insts():
                if i2.op == 'icmp' and not uses_ii:
                    for o in i2.o:
                        oi = f.get(_strip_ext(f, o)) if isinstance(o, str) else None
                        if oi is not None and oi.op == 'phi' and oi is not ii and '$1' in oi.o and any(isinstance(x, str) and _us(f, x) == (oi.ref, -1) for x in oi.o):
                            other = True
            if other:
                notes.append('NOT DECIDED: the loop is bounded by a second counter running down from count')
            else:
                bad.append('the element read is not under index < count')
    for r in f.returns():
        for lf, facts_ok in _ret_leaves_with_facts(f, r, pv, c, idx):
            if not facts_ok:
                bad.append('a value other than -1 is returned at %s that is not the index whose comparison returned 0' % r.loc())
    if bad:
        rule.violation('cstl_raw_array_find', '; '.join(sorted(set(bad))), floc(m, f), {})
    else:
        rule.ok('cstl_raw_array_find', 'ascending loop; returns i under cmp(i) == 0, else -1' + ('; ' + notes[0] if notes else ''), floc(m, f))


def _ret_leaves_with_facts(f, r, pv, cmpcall, idx):
    out = []
    v = f.get(r.o[0]) if r.o else None
    leaves = []
    if v is not None and v.op == 'phi':
        leaves = list(zip(v.o, v.x['bb']))
    elif r.o:
        leaves = [(r.o[0], None)]
    for val, bb in leaves:
        if const_int(val) == (1 << 64) - 1:
            out.append((val, True))
            continue
        if val == idx:
            blk = f.bb[bb] if bb else r.block
            facts = pv.fc.block_facts(blk) if bb else pv.facts_at(r)
            if bb:
                facts = pv.fc.edge_facts(blk, r.block)
            ok = ('eq', cmpcall.ref, '#0') in facts
            out.append((val, ok))
        else:
            out.append((val, False))
    return out
