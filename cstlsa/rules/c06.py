"""C06 - reference counting under every thread interleaving: STRUCTURE ONLY.

No interleaving is explored (the schedule quantifier is out of reach for this family).  Decided are
preconditions without which no schedule argument can hold:

A1 atomic accesses   ref.hard, ref.soft and ref.lock are _Atomic-qualified in the source, and every access to
        them in the IR is an atomic instruction -- except plain initialising stores in the allocating
        function into a block that has not been published (stored into a smart pointer) yet.
A2 gating            every decrement that gates a destroy / free is an atomic read-modify-write with ordering
        at least acq_rel, and the gate tests that RMW's own result (a separate load deciding a free is a
        check-then-act race).  [the test itself is C05.M2]
A3 flag pairing      (typestate) from the exit of the test-and-set spin loop every path to a return passes the
        clear of the same flag; while the flag is held no call to an allocator, free, a user callback or
        any other function happens.
A4 speculative owner increment   in the function that increments `hard` and tests the old value, every RMW on
        `hard` (the increment and its undo) lies inside the flag-held region.
A5 no access after release   after a function's decrement of `soft` on a block, the only use of that block is
        free() under the ==1 fact.
"""
import json
import os
import subprocess

from .. import typestate
from ..facts import Prover, _k, strip_bitcasts, edge_atoms
from ..ir import const_int, resolve_addr, mem_access
from .. import model as _model
from .c05 import counter_of, slot_of, SPD
from .util import header_functions, floc

ORD_OK = ('acq_rel', 'seq_cst')


def ref_field(addr):
    """'hard' | 'soft' | 'lock' for an address inside cstl_shared_ptr_data.ref"""
    if addr.fsteps and addr.fsteps[0][0] == SPD and len(addr.steps) >= 2 and addr.steps[0] == 'ref':
        return addr.steps[1]
    return None


def atomic_qualified_fields(m):
    """field name -> qualType of struct cstl_shared_ptr_data.ref members, from the AST of memory.c"""
    src = None
    for name, path, _, _ in m.units:
        if name == 'memory':
            src = path
    if src is None:
        return {}
    p = subprocess.run([_model.CLANG, '-fsyntax-only', '-w', '-Xclang', '-ast-dump=json', '-Xclang', '-ast-dump-filter=cstl_shared_ptr_data'] + m.flags + [src],
                       stdout=subprocess.PIPE, stderr=subprocess.PIPE)
    out = {}
    txt = p.stdout.decode(errors='replace')
    dec = json.JSONDecoder()
    i = 0
    while i < len(txt):
        j = txt.find('{', i)
        if j < 0:
            break
        try:
            obj, end = dec.raw_decode(txt, j)
        except ValueError:
            break
        i = end

        def walk(n):
            if isinstance(n, dict):
                if n.get('kind') == 'FieldDecl' and n.get('name') in ('hard', 'soft', 'lock'):
                    t = n.get('type', {})
                    out[n['name']] = (t.get('qualType', ''), t.get('desugaredQualType', ''))
                for c in n.get('inner', []) or []:
                    walk(c)
        walk(obj)
    return out


def run(m, rep, tier):
    a1 = rep.rule('A1', 'the three counters are _Atomic and every access to them is an atomic instruction (unpublished initialisation excepted)', floor=8)
    quals = atomic_qualified_fields(m)
    for fld in ('hard', 'soft', 'lock'):
        q = quals.get(fld)
        if q is None:
            a1.undecided('decl:' + fld, 'field declaration not found in the AST of memory.c')
        elif '_Atomic' in q[0] or '_Atomic' in q[1] or 'atomic_' in q[0]:
            a1.ok('decl:' + fld, 'declared %s' % q[0])
        else:
            a1.violation('decl:' + fld, 'ref.%s is declared `%s`, which is not an atomic type: concurrent share/reset would race on it' % (fld, q[0]), 'src/memory.c', {})
    fns = [f for f in m.all_plain_functions() if (f.file or '').endswith(('memory.c', 'memory.h'))]
    for f in fns:
        mallocs = [c for c in f.all_insts() if c.op == 'call' and c.callee in ('malloc', 'calloc')]
        publishes = [s for s in f.all_insts() if (s.op == 'store' and slot_of(f, resolve_addr(f, s.o[1])) is not None) or
                     (s.op == 'call' and s.callee in ('cstl_guarded_ptr_set', 'cstl_guarded_ptr_copy'))]
        for i in f.all_insts():
            ma = mem_access(i)
            if not ma:
                continue
            kind, a = ma
            rf = ref_field(a)
            if rf is None:
                continue
            site = '%s:%s:%s' % (f.name, rf, kind)
            if kind in ('rmw', 'cmpxchg') or i.x.get('atomic'):
                a1.ok(site, '%s %s' % (kind, i.x.get('atomic') or ''), i.loc())
                continue
            # plain access: only initialising an unpublished, freshly allocated block
            root = strip_bitcasts(f, a.root)
            fresh = any(root == c.ref for c in mallocs)
            unpublished = fresh and not any(f.dominates(p, i) and (_mentions(f, p, root)) for p in publishes)
            if kind == 'store' and unpublished:
                a1.ok(site, 'plain initialising store into a block not yet published', i.loc())
            else:
                a1.violation(site, 'non-atomic %s of ref.%s at %s: a data race with any concurrent reference operation on the same block' % (kind, rf, i.loc()), i.loc(), {})

    a2 = rep.rule('A2', 'decrements that gate destruction are RMWs with ordering >= acq_rel', floor=2)
    # on the inlined bodies of the public entry points: a decrement wrapped in a helper is judged where its result is used
    decls0 = header_functions(m, ('memory.h',))
    fns2 = [m.ifn(n) for n in sorted(decls0) if n.startswith(('cstl_shared_ptr_', 'cstl_weak_ptr_')) and m.ifn(n) is not None]
    seen2 = {}
    for f in fns2:
        for i in f.all_insts():
            if i.op == 'atomicrmw' and i.x.get('rmw') == 'sub':
                wh, _ = counter_of(f, resolve_addr(f, i.o[0]))
                if wh is None:
                    continue
                gates = any(u.op == 'icmp' for u in f.users(i.ref))
                site = '%s:%s-decrement' % (f.name, wh)
                seen2[site] = seen2.get(site, 0) + 1
                if seen2[site] > 1:
                    site += '#%d' % seen2[site]
                if not gates:
                    a2.ok(site, 'result unused (undo of a speculative increment)', i.loc())
                elif i.x.get('atomic') in ORD_OK:
                    a2.ok(site, 'atomicrmw sub %s, result tested' % i.x.get('atomic'), i.loc())
                elif i.x.get('atomic') == 'release' and _acquire_fence_guards(f, i):
                    a2.ok(site, 'atomicrmw sub release, and an acquire fence dominates everything done under the tested result', i.loc())
                else:
                    a2.violation(site, 'the decrement that decides destruction has memory ordering `%s`: the destroying thread is not ordered after the other '
                                 'owners\' last accesses (needs at least acq_rel)' % i.x.get('atomic'), i.loc(), {})

    decls = header_functions(m, ('memory.h',))
    a3 = rep.rule('A3', 'spin flag: acquired -> released on every path, nothing is called while it is held', floor=1)
    a4 = rep.rule('A4', 'all RMWs on `hard` in the speculative-increment function lie inside the flag-held region', floor=1)
    a5 = rep.rule('A5', 'no use of a block after this function\'s soft decrement except free under == 1', floor=2)
    for name in sorted(decls):
        if not name.startswith(('cstl_shared_ptr_', 'cstl_weak_ptr_')):
            continue
        f = m.ifn(name)
        if f is None:
            continue
        check_flag(m, f, a3, a4)
        check_after_release(m, f, a5)


def _acquire_fence_guards(f, rmw):
    """release-decrement + acquire fence: every call / store / free in the region entered when the tested result says
    "last reference" is dominated by a fence with ordering >= acquire that the decrement dominates"""
    fences = [x for x in f.all_insts() if x.op == 'fence' and x.x.get('atomic') in ('acquire', 'acq_rel', 'seq_cst') and f.dominates(rmw, x)]
    if not fences:
        return False
    for u in f.users(rmw.ref):
        if u.op != 'icmp':
            continue
        for br in f.users(u.ref):
            if br.op != 'br' or not br.o:
                continue
            for tgt in br.block.succ:
                if not f.edge_dominates(br.block, tgt, tgt):
                    continue
                atoms, _ = edge_atoms(f, br.block, tgt)
                if not any(op == 'eq' and const_int(y) == 1 for (op, x, y) in atoms):
                    continue
                for b in f.blocks:
                    if b is tgt or f.dominates_block(tgt, b):
                        for x in b.insts:
                            if (x.op in ('store', 'atomicrmw') or (x.op == 'call' and not x.is_intrinsic())) and not any(f.dominates(fe, x) for fe in fences):
                                return False
    return True


def _mentions(f, ins, root):
    if ins.op == 'store':
        return strip_bitcasts(f, ins.o[0]) == root
    return any(isinstance(o, str) and strip_bitcasts(f, o) == root for o in ins.o)


def check_flag(m, f, a3, a4):
    xchgs = [i for i in f.all_insts() if i.op == 'atomicrmw' and i.x.get('rmw') == 'xchg' and ref_field(resolve_addr(f, i.o[0])) == 'lock']
    spec0 = [i for i in f.all_insts() if i.op == 'atomicrmw' and i.x.get('rmw') == 'add' and counter_of(f, resolve_addr(f, i.o[0]))[0] == 'hard'
             and any(u.op == 'icmp' for u in f.users(i.ref))]
    if not xchgs:
        if spec0:
            a4.violation(f.name, 'the owner count is incremented speculatively at %s (old value tested) without the serialising flag: two racing lockers '
                         'can each see the other\'s transient increment and take a dead block for live' % spec0[0].loc(), floc(m, f), {})
        return
    problems = set()
    hard_rmw_outside = set()
    hard_rmws = [i for i in f.all_insts() if i.op == 'atomicrmw' and counter_of(f, resolve_addr(f, i.o[0]))[0] == 'hard'
                 and not any(x.srcfn != f.name for x in [i])]
    spec = [i for i in f.all_insts() if i.op == 'atomicrmw' and i.x.get('rmw') == 'add' and counter_of(f, resolve_addr(f, i.o[0]))[0] == 'hard'
            and any(u.op == 'icmp' for u in f.users(i.ref))]

    def held(st, ps):
        return st != '-' and ps.knows(('eq', st, '#0')) is True

    def transfer(ins, st, ps):
        if ins.op == 'atomicrmw':
            a = resolve_addr(f, ins.o[0])
            if ins.x.get('rmw') == 'xchg' and ref_field(a) == 'lock':
                if held(st, ps):
                    problems.add('the flag is taken again at %s while already held (self-deadlock)' % ins.loc())
                return ins.ref
            if spec and counter_of(f, a)[0] == 'hard' and ins.srcfn == f.name and not held(st, ps):
                hard_rmw_outside.add(ins.loc())
            return st
        if ins.op == 'store' and ref_field(resolve_addr(f, ins.o[1])) == 'lock':
            if const_int(ins.o[0]) == 0:
                return '-'
            return st
        if ins.op == 'call':
            if ins.x.get('noreturn'):
                if held(st, ps):
                    problems.add('abort() is reachable at %s while the flag is held' % ins.loc())
                return None
            if held(st, ps) and not ins.is_intrinsic():
                problems.add('%s is called at %s while the spin flag is held (other lockers spin meanwhile)' % (ins.callee or 'a callback', ins.loc()))
            return st
        if ins.op == 'ret':
            if held(st, ps):
                problems.add('a path returns at %s with the flag still set: every later lock of this block spins forever' % ins.loc())
        return st

    keep = {x.ref for x in xchgs}
    try:
        res = typestate.run(f, '-', transfer, track=lambda r: r in keep, limit=200000)
    except typestate.Limit as e:
        a3.undecided(f.name, str(e), floc(m, f))
        return
    if problems:
        a3.violation(f.name, '; '.join(sorted(problems)[:3]), floc(m, f), {})
    else:
        a3.ok(f.name, 'flag released on all %d exit state(s); nothing called while held' % len(res.exits), floc(m, f))
    if spec:
        # the function that only *probes* a block (it holds a weak reference, no owner yet) must not look at the managed
        # pointer inside it: that is plain memory the owners write when the last of them lets go
        r0 = resolve_addr(f, spec[0].o[0]).root
        from ..treewalk import _leaves
        def _norm(x):
            while isinstance(x, str) and f.get(x) is not None and f.get(x).op == 'bitcast':
                x = f.get(x).o[0]
            return x
        same_block = set()
        work_ = [r0]
        while work_:
            x = _norm(work_.pop())
            if not isinstance(x, str) or x == 'null' or x in same_block:
                continue
            same_block.add(x)
            xi = f.get(x)
            if xi is not None and xi.op in ('phi', 'select'):
                work_.extend(xi.o if xi.op == 'phi' else xi.o[1:])
        plain = []
        for i2 in f.all_insts():
            if i2.op not in ('load', 'store') or i2.x.get('atomic'):
                continue
            a2 = resolve_addr(f, i2.o[0] if i2.op == 'load' else i2.o[1])
            if _norm(a2.root) in same_block and a2.steps[:1] == ('up',):
                plain.append(i2)
        if plain:
            a4.violation(f.name + ':managed-pointer', 'the weak-lock path reads / writes the managed pointer of the block it is only probing at %s with a plain '
                         'access: the last owner re-initialises that pointer concurrently (a data race on the bookkeeping, whatever value is seen)'
                         % plain[0].loc(), floc(m, f), {})
        else:
            a4.ok(f.name + ':managed-pointer', 'no plain access to the probed block\'s managed pointer', floc(m, f))
        if hard_rmw_outside:
            a4.violation(f.name, 'an RMW on the owner count at %s is outside the flag-held region: a second locker can observe the transient increment '
                         'and take the dead block for live' % sorted(hard_rmw_outside)[0], floc(m, f), {})
        else:
            a4.ok(f.name, 'speculative increment and its undo both under the flag', floc(m, f))


def check_after_release(m, f, rule):
    decs = [i for i in f.all_insts() if i.op == 'atomicrmw' and i.x.get('rmw') == 'sub' and counter_of(f, resolve_addr(f, i.o[0]))[0] == 'soft']
    if not decs:
        return
    problems = set()

    def transfer(ins, released, ps):
        if ins.op == 'call' and ins.x.get('noreturn'):
            return None
        if released:
            ptr = None
            if ins.op == 'load':
                ptr = ins.o[0]
            elif ins.op == 'store':
                ptr = ins.o[1]
            elif ins.op in ('atomicrmw', 'cmpxchg'):
                ptr = ins.o[0]
            if ptr is not None:
                root = ps.lookup(_k(strip_bitcasts(f, resolve_addr(f, ptr).root)))
                if root in released:
                    problems.add('the block is accessed at %s after this function gave up its reference (another thread may have freed it)' % ins.loc())
            if ins.op == 'call' and ins.callee != 'free' and not ins.is_intrinsic():
                for o in ins.o:
                    if isinstance(o, str) and ps.lookup(_k(strip_bitcasts(f, o))) in released:
                        problems.add('the block is passed to %s at %s after this function gave up its reference' % (ins.callee or 'a callback', ins.loc()))
        if ins in decs:
            root = ps.lookup(_k(strip_bitcasts(f, resolve_addr(f, ins.o[0]).root)))
            return released | {root}
        return released

    tm = typestate.with_memory(f, transfer, lambda a: a.fsteps[-1:] == (('cstl_guarded_ptr', 'ptr'),))
    try:
        res = typestate.run(f, (frozenset(), frozenset()), tm, limit=300000)
    except typestate.Limit as e:
        rule.undecided(f.name, str(e), floc(m, f))
        return
    if problems:
        rule.violation(f.name, '; '.join(sorted(problems)[:3]), floc(m, f), {})
    else:
        rule.ok(f.name, 'nothing but free() touches the block after the reference decrement (%d exit states)' % len(res.exits), floc(m, f))
