"""C18 - public headers are usable by client programs that link the library.

H1 linkage      every function *definition* located in a public header has internal linkage
                (`static`, the repo's idiom `static inline`); every file-scope variable in a header
                is an `extern` declaration without initialiser.                       [clang AST]
H2 provision    every function / variable the headers declare without defining is defined with
                external linkage in exactly one unit of the Makefile's library list.  [AST + IR]
H3 standalone   generated client units -- each header alone, every ordered pair, all together, each
                header included twice -- are accepted by the compiler front end with the project's
                own -std/-pedantic/-W flags (gcc; clang as well in `thorough`).  [compile witnesses]
H4 link         a generated client taking the address of every declared function, as one unit and
                split over two units that both include every header, links against libcstl.a and
                libcstl.so built from the working tree; the client objects define no external
                symbol that comes from a header.                                  [link witnesses]

H6 name space   every macro that is still defined after all public headers were included (and that the
                system headers they include do not define) carries the library prefix.   [preprocessor]

The front end, the preprocessor and the linker are the analysers here; nothing that is built is ever run.
"""
import itertools
import os
import subprocess
from concurrent.futures import ThreadPoolExecutor

from .. import astfacts
from .. import model as _model


def _cc_syntax(cc, flags, text, path):
    with open(path, 'w') as fh:
        fh.write(text)
    p = subprocess.run([cc, '-fsyntax-only'] + flags + [path], stdout=subprocess.PIPE, stderr=subprocess.PIPE)
    return p.returncode, p.stderr.decode(errors='replace')


def _h3(m, rep, tier, hdrs):
    # ---- H3 ------------------------------------------------------------------------
    r3 = rep.rule('H3', 'each header alone / every ordered pair / all / twice is accepted with the project flags', floor=len(hdrs) * (len(hdrs) + 1))
    cfgs = []
    for h in hdrs:
        cfgs.append(('alone:' + os.path.basename(h), [h]))
        cfgs.append(('twice:' + os.path.basename(h), [h, h]))
    for a, b in itertools.permutations(hdrs, 2):
        cfgs.append(('pair:%s,%s' % (os.path.basename(a), os.path.basename(b)), [a, b]))
    cfgs.append(('all', list(hdrs)))
    cfgs.append(('all-reversed', list(reversed(hdrs))))
    ccs = ['gcc'] if tier == 'quick' else ['gcc', 'clang']
    flags = [f for f in m.flags] + m.wflags
    wd = os.path.join(m.work, 'c18')
    os.makedirs(wd, exist_ok=True)
    jobs = []
    # every witness also *uses* each header it includes (names one function the header declares when it is included
    # alone): a header that is silently skipped in some combination -- an include guard shared with another header --
    # leaves that name undeclared
    own = {}
    for h in hdrs:
        try:
            own[h] = astfacts.own_functions(m, h)
        except _model.ModelError:
            own[h] = []          # the header does not parse alone: its `alone:` witness reports that
    rep.extra['headers_with_functions'] = len([h for h in hdrs if own[h]])
    for cc in ccs:
        for i, (label, hs) in enumerate(cfgs):
            text = ''.join('#include "cstl/%s"\n' % os.path.basename(h) for h in hs) + 'int cstl_verif_client_%d;\n' % i
            uses = []
            for h in hs:
                if own[h] and own[h][0] not in uses:
                    uses.append(own[h][0])
            if uses:
                text += 'typedef void cstl_verif_fn(void);\nstatic cstl_verif_fn * const cstl_verif_use_%d[] = { %s };\n' % (
                    i, ', '.join('(cstl_verif_fn *)%s' % u for u in uses))
                text += 'cstl_verif_fn * cstl_verif_get_%d(int k) { return cstl_verif_use_%d[k]; }\n' % (i, i)
            jobs.append((cc, label, text, os.path.join(wd, '%s_%d.c' % (cc, i))))
    with ThreadPoolExecutor(max_workers=16) as ex:
        res = list(ex.map(lambda j: _cc_syntax(j[0], flags, j[2], j[3]), jobs))
    for (cc, label, text, path), (rc, err) in zip(jobs, res):
        site = '%s:%s' % (cc, label)
        if rc == 0:
            r3.ok(site, 'accepted', '')
        else:
            first = [l for l in err.splitlines() if 'error' in l][:3]
            r3.violation(site, 'client unit [%s] is rejected by %s: %s' % (text.replace('\n', ' ').strip(), cc, ' | '.join(first)), '',
                         {'unit': text, 'stderr': err[-3000:], 'flags': flags})
    rep.extra['compile_configurations'] = len(jobs)
    return flags, wd, ccs


def run(m, rep, tier):
    repo = m.repo
    hdrs = astfacts.public_headers(repo)
    hnames = [os.path.basename(h) for h in hdrs]
    try:
        decls = [d for d in astfacts.header_decls(m) if astfacts.in_public_header(m, d) and not d.implicit]
    except _model.ModelError as e:
        # the unit that includes every header once is itself one of H3's witnesses: when the front end rejects
        # it, decide H3 (which names the header and the configuration) and leave the AST rules unevaluated
        _h3(m, rep, tier, hdrs)
        if any(i['verdict'] == 'VIOLATION' for r in rep.rules for i in r.instances):
            rep.analysis_broken('H1, H2 and H4 were not evaluated: the headers do not parse together (%s)' % str(e)[:200])
            return
        raise
    rep.extra['headers'] = hnames

    # ---- H1 ------------------------------------------------------------------------
    r1 = rep.rule('H1', 'header definitions have internal linkage; header variables are extern declarations', floor=10)
    for d in decls:
        site = d.name
        loc = '%s:%d' % (os.path.relpath(d.file, repo), d.line)
        if d.kind == 'FunctionDecl' and d.has_body:
            if d.storage == 'static':
                r1.ok(site, 'static%s definition' % (' inline' if d.inline else ''), loc)
            else:
                r1.violation(site, 'function `%s` is defined in a public header with external linkage (%s): every '
                             'translation unit that includes the header defines the symbol again, so a client of the header '
                             'cannot link against the library, nor can two client units link together'
                             % (d.name, 'inline without static' if d.inline else 'no storage class'), loc,
                             {'decl': repr(d), 'storage': d.storage, 'inline': d.inline})
        elif d.kind == 'VarDecl':
            if d.storage == 'extern' and not d.has_init:
                r1.ok(site, 'extern declaration', loc)
            elif d.storage == 'static':
                r1.ok(site, 'static (internal) variable', loc)
            else:
                r1.violation(site, 'file-scope variable `%s` is defined (not merely declared) in a public header' % d.name, loc,
                             {'decl': repr(d)})

    # ---- H2 ------------------------------------------------------------------------
    r2 = rep.rule('H2', 'every symbol the headers declare without defining is provided by exactly one library unit', floor=50)
    defined_in_header = {d.name for d in decls if (d.kind == 'FunctionDecl' and d.has_body) or (d.kind == 'VarDecl' and d.storage != 'extern')}
    need = {}
    for d in decls:
        if d.name in defined_in_header:
            continue
        need.setdefault(d.name, d)
    providers = {}
    for uname, mod in m.plain.items():
        for f in mod.defined():
            if f.linkage == 'external':
                providers.setdefault(f.name, []).append(uname)
        for g in mod.globals.values():
            if not g['decl'] and g['linkage'] in ('external', 'common', 'weak'):
                providers.setdefault(g['name'], []).append(uname)
    for name, d in sorted(need.items()):
        loc = '%s:%d' % (os.path.relpath(d.file, repo), d.line)
        ps = providers.get(name, [])
        if len(ps) == 1:
            r2.ok(name, 'defined in unit %s' % ps[0], loc)
        elif not ps:
            r2.violation(name, '`%s` is declared in a public header but no library unit defines it with external linkage '
                         '(a client calling it gets an undefined symbol)' % name, loc, {'declared': repr(d), 'units': m.unit_names})
        else:
            r2.violation(name, '`%s` is defined by several library units: %s' % (name, ', '.join(ps)), loc, {'units': ps})

    flags, wd, ccs = _h3(m, rep, tier, hdrs)

    # ---- H4 ------------------------------------------------------------------------
    r4 = rep.rule('H4', 'address-of-everything client links against libcstl.a and libcstl.so (1 and 2 units)', floor=4)
    _link_witness(m, rep, r4, hdrs, flags, wd, ccs)


def _link_witness(m, rep, r4, hdrs, flags, wd, ccs):
    names = m.header_functions()
    cc = 'gcc'
    objs = []
    jobs = []
    for name, src, _, _ in m.units:
        o = os.path.join(wd, name + '.o')
        objs.append(o)
        jobs.append([cc, '-O0', '-fPIC', '-w'] + m.flags + ['-c', src, '-o', o])
    inc = ''.join('#include "cstl/%s"\n' % os.path.basename(h) for h in hdrs)
    half = len(names) // 2
    cl = {
        'client1.c': inc + 'const void * const client_table[] = {\n' + ''.join('  (const void *)%s,\n' % n for n in names) + '  0 };\nint main(void) { return client_table[0] == 0; }\n',
        'client2a.c': inc + 'const void * const client_table_a[] = {\n' + ''.join('  (const void *)%s,\n' % n for n in names[:half]) + '  0 };\nextern const void * const client_table_b[];\nint main(void) { return client_table_a[0] == client_table_b[0]; }\n',
        'client2b.c': inc + 'const void * const client_table_b[] = {\n' + ''.join('  (const void *)%s,\n' % n for n in names[half:]) + '  0 };\n',
    }
    cobjs = {}
    for fn, text in cl.items():
        p = os.path.join(wd, fn)
        with open(p, 'w') as fh:
            fh.write(text)
        o = p[:-2] + '.o'
        cobjs[fn] = o
        jobs.append([cc] + flags + ['-O0', '-c', p, '-o', o])
    # the same single-unit client as a debug build (no NDEBUG) against the release library: what a header compiles to
    # must not depend on symbols the library only has in another configuration
    dflags = [x for x in flags if x != '-DNDEBUG'] + ['-UNDEBUG']
    cobjs['client1d.c'] = os.path.join(wd, 'client1d.o')
    jobs.append([cc] + dflags + ['-O0', '-c', os.path.join(wd, 'client1.c'), '-o', cobjs['client1d.c']])

    def runj(cmd):
        p = subprocess.run(cmd, stdout=subprocess.PIPE, stderr=subprocess.PIPE)
        return p.returncode, p.stderr.decode(errors='replace')
    with ThreadPoolExecutor(max_workers=16) as ex:
        res = list(ex.map(runj, jobs))
    failed = [(j, e) for j, (rc, e) in zip(jobs, res) if rc != 0]
    if failed:
        for j, e in failed[:3]:
            errs = [l for l in e.splitlines() if 'error' in l][:2]
            r4.violation('compile:' + os.path.basename(j[-3]), 'unit does not compile with the project flags: %s' % ' | '.join(errs), '', {'cmd': j, 'stderr': e[-2000:]})
        return
    lib_a = os.path.join(wd, 'libcstl.a')
    lib_so = os.path.join(wd, 'libcstl.so')
    rc, e = runj(['ar', '-rc', lib_a] + objs)
    rc2, e2 = runj([cc, '-fPIC', '-shared', '-o', lib_so] + objs + ['-lm'])
    if rc or rc2:
        r4.violation('library', 'the library itself does not link: %s' % (e + e2)[-500:], '', {})
        return
    links = [
        ('static,1-unit', [cobjs['client1.c'], lib_a]),
        ('static,2-units', [cobjs['client2a.c'], cobjs['client2b.c'], lib_a]),
        ('shared,1-unit', [cobjs['client1.c'], lib_so]),
        ('shared,2-units', [cobjs['client2a.c'], cobjs['client2b.c'], lib_so]),
        ('static,1-unit,client-without-NDEBUG', [cobjs['client1d.c'], lib_a]),
        ('shared,1-unit,client-without-NDEBUG', [cobjs['client1d.c'], lib_so]),
    ]
    for label, inputs in links:
        # --whole-archive: the client must be linkable next to *every* library object, not only
        # those the linker happens to pull in for this client
        cmd = [cc, '-o', os.path.join(wd, 'client_' + label.replace(',', '_'))]
        for i in inputs:
            if i.endswith('.a'):
                cmd += ['-Wl,--whole-archive', i, '-Wl,--no-whole-archive']
            else:
                cmd.append(i)
        cmd.append('-lm')
        rc, e = runj(cmd)
        if rc == 0:
            r4.ok(label, 'links (%d addresses taken)' % len(names))
        else:
            errs = [l for l in e.splitlines() if 'multiple definition' in l or 'undefined reference' in l][:4]
            r4.violation(label, 'client does not link (%s): %s' % (label, ' | '.join(errs) or e[-300:]), '', {'cmd': cmd, 'stderr': e[-3000:]})
    # client objects must not define external symbols that come from headers
    rc, out = subprocess.getstatusoutput('nm -g --defined-only %s %s %s' % (cobjs['client1.c'], cobjs['client2a.c'], cobjs['client2b.c']))
    stray = sorted({l.split()[-1] for l in out.splitlines() if len(l.split()) == 3 and not l.split()[-1].startswith(('client_table', 'main'))})
    r5 = rep.rule('H5', 'client objects define no external symbol of their own that comes from a header', floor=1)
    if stray:
        r5.violation('client-objects', 'including the public headers makes a client object define external symbol(s): %s' % ', '.join(stray), '', {'nm': out[-2000:]})
    else:
        r5.ok('client-objects', 'nm -g --defined-only shows only the client tables and main')
    rep.extra['link_configurations'] = len(links)

    # ---- H6: what the headers leave defined --------------------------------------------
    # a macro a public header defines and does not undefine is part of every client's name space: it must carry the
    # library's prefix, or it retargets (or collides with) the client's own identifiers.  Decided by the preprocessor:
    # macros defined after including every public header, minus those the system headers they include define.
    import re as _re
    r6 = rep.rule('H6', 'every macro the public headers leave defined carries the library prefix (CSTL / cstl)', floor=10)
    sysinc = set()
    for h in hdrs:
        try:
            sysinc |= set(_re.findall(r'^[ \t]*#[ \t]*include[ \t]*(<[^>]+>)', open(h).read(), _re.M))
        except OSError:
            pass

    def macros(text, name):
        path = os.path.join(wd, name)
        with open(path, 'w') as fh:
            fh.write(text)
        p_ = subprocess.run(['gcc', '-dM', '-E'] + flags + [path], stdout=subprocess.PIPE, stderr=subprocess.PIPE)
        if p_.returncode != 0:
            return None
        return {l.split()[1].split('(')[0] for l in p_.stdout.decode(errors='replace').splitlines() if l.startswith('#define ') and len(l.split()) > 1}
    ma = macros(''.join('#include "cstl/%s"\n' % os.path.basename(h) for h in hdrs), 'macros_all.c')
    mb = macros(''.join('#include %s\n' % x for x in sorted(sysinc)), 'macros_sys.c')
    if ma is None or mb is None:
        r6.undecided('macros', 'the preprocessor run failed')
    else:
        for name in sorted(ma - mb):
            if 'cstl' in name.lower():
                r6.ok(name, 'carries the library prefix')
            else:
                r6.violation(name, 'the public headers leave the macro `%s` defined: it has no library prefix, so it silently replaces (or collides '
                             'with) an identifier of the same name in any client that includes a libcstl header' % name, '', {})
