"""C04 - hash enumeration and clear reach every element exactly once, even mid-rehash.

E1 pending-aware bound   every loop that walks the bucket array by index (reachable from cstl_hash_foreach,
        cstl_hash_foreach_const, cstl_hash_clear) is bounded by a value covering both geometries: the
        pending bucket count where a rehash is pending and it is the larger one, the current count
        elsewhere -- or every call path from the entry point to the walker is dominated by a call to
        the completer cstl_hash_rehash.  (During a grow relocated nodes live in buckets
        [count, rh.count); during a shrink unswept nodes still live in [rh.count, count).)
E2 erasing callback      cstl_hash_foreach, whose callback may erase, forces the rehash to completion
        before walking: an erase during a pending rehash runs the cleaner, which can move the
        walker's pre-read successor into another chain.
E3 successor before visit   in the chain walker nothing is read or written through a node after its
        visit callback returned (the successor is already in a local).
E4 clear restores the initial state   every field cstl_hash_init sets to a constant holds that constant
        on every path out of cstl_hash_clear (exempt: bucket.cst, a relative flag); the bucket array
        is freed exactly once, before the pointer is cleared.
E6 added buckets         (shared with C03.L5) resize empties and stamps exactly the buckets from the table's
        current count (read after the forced rehash) up to the requested count.
E5 stop value            in the walkers, after a visit returned non-zero no further visit happens and that
        value is what foreach returns.
"""
from .. import typestate
from ..facts import Prover, _k
from ..hashmodel import Roles, callgraph, reach, classify_pa, fld, at_subscripts, is_load_of
from ..ir import const_int, resolve_addr, strip_casts
from .util import floc

ENTRIES = ('cstl_hash_foreach', 'cstl_hash_foreach_const', 'cstl_hash_clear')
VISIT_FTYS = ('i32 (i8*, i8*)', 'void (i8*, i8*)')


def derived_from(f, ref, root, depth=0):
    """is pointer `ref` computed from `root` (casts, integer arithmetic, GEP)?"""
    if ref == root:
        return True
    if depth > 12 or not isinstance(ref, str):
        return False
    i = f.get(ref)
    if i is None:
        return False
    if i.op in ('bitcast', 'getelementptr', 'ptrtoint', 'inttoptr', 'add', 'sub'):
        return any(derived_from(f, o, root, depth + 1) for o in i.o[:2] if isinstance(o, str))
    return False


def no_touch_after_handoff(f, call, node):
    """accesses through `node` that can execute after `call` before `node` is re-bound"""
    bad = []
    ni = f.get(node)
    header = ni.block if (ni is not None and ni.op == 'phi') else None
    blocks = []
    seen = set()
    st = list(call.block.succ)
    while st:
        b = st.pop()
        if b.idx in seen or (header is not None and b is header):
            continue
        seen.add(b.idx)
        blocks.append(b)
        st.extend(b.succ)
    cands = [i for i in call.block.insts if i.pos > call.pos]
    for b in blocks:
        cands += b.insts
    for i in cands:
        ptr = None
        if i.op == 'load':
            ptr = i.o[0]
        elif i.op in ('store',):
            ptr = i.o[1]
        elif i.op in ('atomicrmw', 'cmpxchg'):
            ptr = i.o[0]
        if ptr is None:
            continue
        a = resolve_addr(f, ptr)
        if derived_from(f, a.root, node) or a.root == node:
            bad.append(i)
    return bad


def visit_calls(f):
    return [c for c in f.all_insts() if c.op == 'call' and c.callee is None and c.x.get('fty') in VISIT_FTYS]


def run(m, rep, tier):
    from .. import canaries
    canaries.run(m, rep, ('handoff',))
    roles = Roles(m)
    mod = roles.unit
    if mod is None:
        rep.analysis_broken('unit hash.c not in the model')
        return
    rep.extra['roles'] = {k: roles.names(k) for k in ('checked', 'cleaner', 'sweep', 'pa_lookup', 'walkers')}
    g = callgraph(mod)

    # ---- E1 / E2 ---------------------------------------------------------------------
    e1 = rep.rule('E1', 'every bucket-array walk reachable from foreach / foreach_const / clear has a pending-aware bound (or the forced rehash dominates it)', floor=3)
    e2 = rep.rule('E2', 'cstl_hash_foreach forces the pending rehash to finish before walking', floor=1)
    walker_ok = {}
    for w in roles.walkers:
        loops = []
        for gep, idx in at_subscripts(w):
            i = w.get(idx)
            while i is not None and i.op in ('zext', 'sext', 'trunc'):
                i = w.get(i.o[0])
            if i is None or i.op != 'phi':
                continue
            # controlling comparison: icmp ult (ext of) the induction variable against the bound
            bound = None
            for u in w.all_insts():
                if u.op == 'icmp' and u.pred in ('ult', 'ugt', 'ule', 'uge', 'ne'):
                    ops = [strip_ext(w, o) for o in u.o]
                    if i.ref in ops:
                        other = u.o[1] if ops[0] == i.ref else u.o[0]
                        bound = (u, other)
            loops.append((gep, i, bound))
        ok_all = True
        whys = []
        verdicts = []
        for gep, iv, bound in loops:
            if bound is None:
                verdicts.append((iv, False, 'loop at %s has no recognisable bound' % gep.loc()))
                continue
            ok, why = classify_pa(w, bound[1], bound[0], 'count', cover=True)
            verdicts.append((iv, ok, why))
        for iv, ok, why in verdicts:
            if not ok:
                # a walk split into consecutive passes over one index: the pass that stops at the current count is
                # continued, from the index it reached, by a pass whose bound covers the pending geometry
                cont = [iv2 for iv2, ok2, _ in verdicts if ok2 and iv2 is not iv and iv.ref in {strip_ext(w, o) for o in iv2.o if isinstance(o, str)}]
                starts0 = any(const_int(o) == 0 for o in iv.o)
                if cont and starts0:
                    ok, why = True, 'first pass of a split walk (%s), continued by the covering pass' % why[:80]
            whys.append(why)
            ok_all = ok_all and ok
        walker_ok[w.name] = (ok_all, '; '.join(whys), loops)
    for e in ENTRIES:
        f = mod.fn(e)
        if f is None or f.decl:
            e1.undecided(e, 'entry point not found in hash.c')
            continue
        rs = reach(g, e)
        ws = [w for w in roles.walkers if w.name in rs]
        if not ws:
            e1.undecided(e, 'no bucket-array walk is reachable from this entry point (walker not recognised)')
            continue
        for w in ws:
            ok, why, loops = walker_ok[w.name]
            site = '%s->%s' % (e, w.name)
            if ok:
                e1.ok(site, 'bound covers both geometries: ' + why, floc(m, w))
                continue
            # otherwise the completer must dominate every call leading to the walker
            if completer_first(f, g, w.name):
                e1.ok(site, 'walk bounded by the current count, but cstl_hash_rehash() is called first in %s' % e, floc(m, f))
            else:
                e1.violation(site, 'the bucket walk in %s is bounded by a value that does not cover a pending rehash (%s) and %s does not force the '
                             'rehash to finish first: while a grow is pending, elements already relocated into buckets at or above the current '
                             'count are never visited' % (w.name, why, e), floc(m, w), {'walker': w.name, 'entry': e})
    f = mod.fn('cstl_hash_foreach')
    if f is None or f.decl:
        e2.undecided('cstl_hash_foreach', 'not found')
    else:
        ws = [w.name for w in roles.walkers if w.name in reach(g, 'cstl_hash_foreach')]
        if ws and all(completer_first(f, g, w) for w in ws):
            e2.ok('cstl_hash_foreach', 'cstl_hash_rehash() dominates the walk')
        else:
            e2.violation('cstl_hash_foreach', 'the walk is not dominated by a call to cstl_hash_rehash(): the callback may erase the visited element, '
                         'and an erase during a pending rehash re-links chains under the walker', floc(m, f), {})

    # ---- E3 --------------------------------------------------------------------------
    e3 = rep.rule('E3', 'chain walker: nothing is accessed through a node after its visit returned', floor=1)
    n3 = 0
    for f in mod.defined():
        for c in visit_calls(f):
            if not c.o:
                continue
            # the node the element pointer was derived from
            elem = c.o[0]
            node = handed_node(f, elem)
            if node is None:
                continue
            n3 += 1
            bad = no_touch_after_handoff(f, c, node)
            site = '%s:visit@%s' % (f.name, f.vname(node))
            if bad:
                e3.violation(site, 'after the visit callback at %s the walker still accesses the visited node (%s): the callback may have erased '
                             'and freed it' % (c.loc(), ', '.join(b.loc() for b in bad[:2])), c.loc(), {})
            else:
                e3.ok(site, 'successor read before the visit; no access through the node afterwards', c.loc())

    # ---- E4 --------------------------------------------------------------------------
    e4 = rep.rule('E4', 'cstl_hash_clear re-establishes every constant cstl_hash_init sets; array freed once before at = NULL', floor=4)
    check_clear_restores(m, e4)

    # clear walks the table as it is: nothing of the table (a pending geometry least of all) is reset before the walk
    pf = mod.fn('cstl_hash_clear')
    if pf is not None and not pf.decl:
        walks = [c for c in pf.all_insts() if c.op == 'call' and c.callee and (c.callee in roles.names('walkers') or set(roles.names('walkers')) & reach(g, c.callee))]
        early = []
        for s2 in pf.all_insts():
            if s2.op == 'store' and fld(pf, s2) is not None:
                for c in walks:
                    before = (s2.block is c.block and s2.pos < c.pos) or (s2.block is not c.block and c.block in pf.reachable_from(s2.block))
                    if before:
                        early.append((s2, c))
        if not walks:
            e4.ok('cstl_hash_clear:order', 'NOT DECIDED: no call of the bucket walk found in cstl_hash_clear itself')
        elif early:
            s2, c = early[0]
            e4.violation('cstl_hash_clear:order', 'the table field %s is reset at %s before the elements are walked at %s: what the walk covers (the pending '
                         'geometry while a rehash is in progress) is decided by the fields as they were' % (fld(pf, s2), s2.loc(), c.loc()), floc(m, pf), {})
        else:
            e4.ok('cstl_hash_clear:order', 'every reset of a table field comes after the walk', floc(m, pf))

    # ---- E5 --------------------------------------------------------------------------
    e5 = rep.rule('E5', 'after a non-zero visit result no further visit happens and that value is returned', floor=2)
    for e in ('cstl_hash_foreach', 'cstl_hash_foreach_const'):
        f = m.ifn(e)
        if f is None:
            e5.undecided(e, 'not in the inlined model')
            continue
        check_stop_value(m, f, e5, user_visit='$1')

    # ---- E7 --------------------------------------------------------------------------
    # the element walk ends only because the index reached its bound or a visit asked to stop: any other way out of
    # the loop (an "all seen" shortcut against a live element count, ...) can leave elements unvisited
    e7 = rep.rule('E7', 'a bucket walk is left only when the index reaches its bound or a visit returned non-zero', floor=1)
    from ..facts import edge_atoms as _ea
    for w in roles.walkers:
        check_walk_exits(m, w, e7)

    # ---- E8: the caller's function gets the element, not the node -------------------------------
    e8 = rep.rule('E8', 'the caller\'s visit / clear function is handed the element (node address minus the table\'s offset), in every enumerating entry point', floor=2)
    for e in ENTRIES:
        f = m.ifn(e)
        if f is None:
            e8.undecided(e, 'not in the inlined model')
            continue
        ucalls = [c for c in f.all_insts() if c.op == 'call' and c.callee is None and c.x.get('cv') == '$1' and c.o]
        if not ucalls:
            e8.ok(e, 'NOT DECIDED: no call through the caller\'s function pointer resolved in the inlined body', floc(m, f))
            continue
        bad = []
        for c in ucalls:
            k = _element_kind(f, c.o[0])
            if k == 'node':
                bad.append('the caller\'s function is handed a chain node itself at %s, not the element that contains it (node - offset): an adapter between '
                           'the internal walk and the caller\'s function was not adapted' % c.loc())
        if bad:
            e8.violation(e, '; '.join(sorted(set(bad))[:2]), floc(m, f), {})
        else:
            e8.ok(e, '%d call(s) through the caller\'s pointer, each with node - offset' % len(ucalls), floc(m, f))

    # ---- E6 --------------------------------------------------------------------------
    # (C03's L5 instance) an element can only be enumerated if the bucket it lives in is swept when the table
    # shrinks: buckets added by a resize must be emptied and stamped from the *current* count on
    e6 = rep.rule('E6', 'resize initialises exactly the buckets [current count, requested count) after the forced rehash and the flip', floor=1)
    from . import c03
    mod = m.plain.get('hash')
    from ..hashmodel import focus_hash
    f = focus_hash(m).fn('cstl_hash_resize') if mod is not None else None
    if f is None or f.decl:
        e6.undecided('cstl_hash_resize', 'not found')
    else:
        c03.check_resize_order(m, f, e6)

    # ---- E9: enumeration keeps no state outside its own frame -----------------------------------------
    from .util import check_no_mutable_globals
    e9 = rep.rule('E9', 'hash.c defines no writable static object (an enumeration started from inside a callback does not disturb the outer one)', floor=1)
    check_no_mutable_globals(m, e9, ('hash',))


def _element_kind(f, v, depth=0, seen=None):
    """'element' when v is computed from a pointer by subtracting / adding a loaded offset, 'node' when it is a chain link
    value (a load of bucket.n / node.next, or a merge of such) used as it is, None otherwise"""
    seen = seen if seen is not None else set()
    i = f.get(v) if isinstance(v, str) else None
    if i is None or depth > 16:
        return None
    if i.op in ('bitcast', 'inttoptr', 'ptrtoint'):
        return _element_kind(f, i.o[0], depth + 1, seen)
    if i.op in ('sub', 'add'):
        return 'element'
    if i.op == 'getelementptr':
        return 'element' if any('idx' in p_ for p_ in i.x.get('path', [])) else _element_kind(f, i.o[0], depth + 1, seen)
    if i.op == 'load':
        a = resolve_addr(f, i.o[0])
        if a.fsteps[-1:] in ((('cstl_hash_bucket', 'n'),), (('cstl_hash_node', 'next'),)):
            return 'node'
        return None
    if i.op in ('phi', 'select'):
        if i.ref in seen:
            return 'again'
        seen.add(i.ref)
        ks = {_element_kind(f, o, depth + 1, seen) for o in (i.o if i.op == 'phi' else i.o[1:]) if o != 'null' and const_int(o) != 0 and o != 'undef'}
        ks.discard('again')
        if ks == {'node'}:
            return 'node'
        if ks == {'element'}:
            return 'element'
    return None


def check_walk_exits(m, f, rule):
    from ..facts import edge_atoms
    n = 0
    for g, idx in at_subscripts(f):
        ii = f.get(strip_ext(f, idx)) if isinstance(idx, str) else None
        if ii is None or ii.op != 'phi':
            continue
        header = ii.block
        loop = [b for b in f.blocks if f.dominates_block(header, b) and header in f.reachable_from(b)]
        if not loop:
            continue
        n += 1
        inloop = {b.idx for b in loop}
        # values that may decide an exit: the index itself, and anything computed from a visit / callee result in the loop
        results = set()
        for b in loop:
            for i in b.insts:
                if i.op == 'call' and not i.is_intrinsic():
                    results.add(i.ref)
        changed = True
        while changed:
            changed = False
            for b in f.blocks:
                for i in b.insts:
                    if i.ref not in results and i.op in ('phi', 'zext', 'trunc', 'select') and any(isinstance(o, str) and o in results for o in i.o):
                        results.add(i.ref)
                        changed = True
        bad = []
        for b in loop:
            for sx in b.succ:
                if sx.idx in inloop:
                    continue
                if sx.insts and sx.term is not None and sx.term.op == 'unreachable':
                    continue
                atoms, _ = edge_atoms(f, b, sx)
                t = b.term
                ci = f.get(t.o[0]) if (t is not None and t.op == 'br' and t.o and isinstance(t.o[0], str)) else None
                if not atoms and ci is not None and ci.op == 'phi':
                    # a short-circuit chain `a && b && c` merged into one i1: the loop is left when any conjunct fails --
                    # a constant alternative stands for the test made in the block it comes from, a value alternative is
                    # the last conjunct itself
                    from ..facts import cond_atoms
                    truth = (sx.name == t.x['succ'][0])
                    atoms = []
                    for v, bb in zip(ci.o, ci.x['bb']):
                        k = const_int(v)
                        if v in ('true', 'false'):
                            k = 1 if v == 'true' else 0
                        if k is not None:
                            if bool(k) == truth:
                                atoms += list(edge_atoms(f, f.bb[bb], b)[0])
                        else:
                            atoms += list(cond_atoms(f, v, truth)[0])
                if not atoms:
                    continue
                # a flag that merges only constants (clang's cleanup destination, a `done` variable) stands for the tests that
                # chose the constant: replace such an atom by the conditions of the edges that set a satisfying constant
                expanded = []
                for (op, x, y) in atoms:
                    xi = f.get(x) if isinstance(x, str) else None
                    if xi is not None and xi.op == 'phi' and all(const_int(o) is not None for o in xi.o) and const_int(y) is not None:
                        cy = const_int(y)
                        for v, bb in zip(xi.o, xi.x['bb']):
                            cv = const_int(v)
                            sat = {'eq': cv == cy, 'ne': cv != cy, 'ult': cv < cy, 'ule': cv <= cy}.get(op, True)
                            if sat:
                                pb = f.bb[bb]
                                # walk up single-predecessor chains to the branch that decided
                                guard = 0
                                while len(pb.pred) == 1 and len(pb.succ) == 1 and guard < 6:
                                    nxt = pb.pred[0]
                                    got = edge_atoms(f, nxt, pb)[0]
                                    if got:
                                        expanded += list(got)
                                        break
                                    pb = nxt
                                    guard += 1
                                else:
                                    expanded += list(edge_atoms(f, pb, xi.block)[0])
                    else:
                        expanded.append((op, x, y))
                for (op, x, y) in expanded:
                    vals = {strip_ext(f, v) for v in (x, y) if isinstance(v, str)}
                    if ii.ref in vals or vals & results:
                        continue
                    bad.append('the walk can be left at %s on a condition that is neither its index bound nor a visit result (%s %s %s): '
                               'buckets after that point are not visited' % (b.term.loc(), f.vname(x) if isinstance(x, str) else x, op, f.vname(y) if isinstance(y, str) else y))
        site = '%s:exits' % f.name
        if bad:
            rule.violation(site, '; '.join(sorted(set(bad))[:2]), floc(m, f), {})
        else:
            rule.ok(site, 'every exit of the bucket loop tests the index or a visit result', floc(m, f))
    if n == 0:
        rule.ok('%s:exits' % f.name, 'NOT DECIDED: no index-driven bucket loop recognised', floc(m, f))


def strip_ext(f, ref):
    i = f.get(ref) if isinstance(ref, str) else None
    while i is not None and i.op in ('zext', 'sext', 'trunc'):
        ref = i.o[0]
        i = f.get(ref) if isinstance(ref, str) else None
    return ref


def completer_first(f, g, walker):
    """in entry function f every call that can reach `walker` is dominated by a call to cstl_hash_rehash"""
    comp = [c for c in f.calls('cstl_hash_rehash')]
    targets = [c for c in f.all_insts() if c.op == 'call' and c.callee and (c.callee == walker or walker in reach(g, c.callee))]
    if not targets:
        return False
    for t in targets:
        if not any(f.dominates(c, t) and c is not t for c in comp):
            return False
    return True


def handed_node(f, elem):
    """element pointer = node - off (ptrtoint/sub/inttoptr): return the node value"""
    i = f.get(elem) if isinstance(elem, str) else None
    seen = 0
    while i is not None and seen < 8:
        seen += 1
        if i.op in ('bitcast', 'inttoptr', 'ptrtoint'):
            i = f.get(i.o[0])
            continue
        if i.op in ('sub', 'add'):
            a = f.get(i.o[0])
            if a is not None:
                i = a
                continue
        if i.op == 'call' and i.callee and len(i.o) == 2:
            # element helper(h, node): the node is the second argument
            i2 = f.get(i.o[1])
            return i.o[1] if i2 is not None else i.o[1]
        break
    if i is not None and i.op in ('phi', 'load'):
        return i.ref
    return None


def check_clear_restores(m, rule):
    init = m.ifn('cstl_hash_init')
    clr = m.ifn('cstl_hash_clear')
    if init is None or clr is None:
        rule.undecided('cstl_hash_clear', 'cstl_hash_init / cstl_hash_clear not in the model')
        return
    consts = {}
    for s in init.all_insts():
        if s.op == 'store':
            p = fld(init, s)
            c = const_int(s.o[0])
            if p and c is not None:
                consts[p] = c
    exempt = {'bucket.cst': 'relative flag: resize flips it and stamps new buckets with the flipped value, any start value is a valid empty state'}
    for p, c in sorted(consts.items()):
        site = 'cstl_hash_clear:' + p
        if p in exempt:
            rule.ok(site, 'exempt: ' + exempt[p])
            continue
        stores = [s for s in clr.all_insts() if s.op == 'store' and fld(clr, s) == p and resolve_addr(clr, s.o[1]).root == '$0']
        good = [s for s in stores if const_int(s.o[0]) == c]
        rets = clr.returns()
        ok = bool(good) and all(any(clr.dominates(s, r) for s in good) for r in rets)
        # no later store of something else
        for s in good:
            for t in stores:
                if t is not s and const_int(t.o[0]) != c and _after(clr, s, t):
                    ok = False
        if ok:
            rule.ok(site, 'reset to %d on every path' % c, good[0].loc())
        else:
            rule.violation(site, 'cstl_hash_init sets %s to %d but cstl_hash_clear does not restore it on every path: the cleared table is not in '
                           'the freshly initialised state (the next resize is not treated as the first one)' % (p, c), floc(m, clr), {'field': p})
    # free exactly once, before at = NULL
    frees = [c for c in clr.calls('free')]
    at_null = [s for s in clr.all_insts() if s.op == 'store' and fld(clr, s) == 'bucket.at' and const_int(s.o[0]) == 0]
    ok = len(frees) == 1 and at_null and all(clr.dominates(frees[0], s) for s in at_null) and is_load_of(clr, strip_casts(clr, frees[0].o[0]), 'bucket.at')
    if ok:
        rule.ok('cstl_hash_clear:free', 'free(bucket.at) once, before bucket.at = NULL', frees[0].loc())
    else:
        rule.violation('cstl_hash_clear:free', 'the bucket array is not freed exactly once before its pointer is cleared', floc(m, clr), {'frees': len(frees)})


def _after(f, a, b):
    if a.block is b.block:
        return b.pos > a.pos
    return b.block.idx in {x.idx for s in a.block.succ for x in f.reachable_from(s)}


def check_stop_value(m, f, rule, user_visit):
    """typestate: auto = result ref of the last user-visit call (None before the first)"""
    bad = set()

    def is_user_visit(c):
        if c.op != 'call' or c.callee is not None:
            return False
        return c.x.get('cv') == user_visit

    def transfer(ins, last, ps):
        if ins.op == 'call':
            if ins.x.get('noreturn'):
                return None
            if is_user_visit(ins):
                if last != '-' and ps.knows(('eq', last, '#0')) is not True:
                    bad.add('the visit at %s can run although the previous visit returned a value not known to be zero' % ins.loc())
                return ins.ref
        elif ins.op == 'ret' and ins.o:
            if last != '-' and ps.knows(('eq', last, '#0')) is not True:
                rv = ps.lookup(_k(ins.o[0]))
                if rv != ps.lookup(last):
                    bad.add('the return at %s does not hand back the non-zero result of the last visit' % ins.loc())
            elif ins.o:
                rv = ps.lookup(_k(ins.o[0]))
                if const_int(rv) != 0 and not (last != '-' and rv == ps.lookup(last)):
                    bad.add('the return at %s yields %s although every visit returned zero' % (ins.loc(), rv))
        return last

    try:
        res = typestate.run(f, '-', transfer, limit=200000)
    except typestate.Limit as e:
        rule.undecided(f.name, str(e), floc(m, f))
        return
    n = len([c for c in f.all_insts() if is_user_visit(c)])
    if n == 0:
        rule.undecided(f.name, 'no call of the user visit function found', floc(m, f))
    elif not res.exits:
        rule.undecided(f.name, 'no path to a return was explored', floc(m, f))
    elif bad:
        rule.violation(f.name, '; '.join(sorted(bad)[:3]), floc(m, f), {})
    else:
        rule.ok(f.name, '%d visit site(s); stop value propagated on all %d exit state(s)' % (n, len(res.exits)), floc(m, f))
