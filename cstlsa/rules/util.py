"""helpers shared by the rule modules"""
import os

from .. import astfacts


def header_functions(m, headers):
    """{name: Decl} of functions declared in the given public headers (basenames)"""
    out = {}
    for d in astfacts.header_decls(m):
        if d.kind == 'FunctionDecl' and not d.implicit and os.path.basename(d.file or '') in headers:
            if d.name not in out or (d.has_body and not out[d.name].has_body):
                out[d.name] = d
    return out


def floc(m, f):
    return '%s:%d' % ((f.file or '').replace(m.repo + '/', ''), f.line)


# ---- swap completeness ----------------------------------------------------------------------------

def _struct_of(argty):
    t = (argty or '').strip()
    if t.startswith('%struct.') and t.endswith('*') and not t.endswith('**'):
        return t[1:-1]
    return None


def _leaf_ranges(mod, sname, base=0, depth=0):
    """byte ranges of the scalar members of a struct (padding excluded)"""
    sd = mod.structs.get(sname)
    if sd is None or depth > 6:
        return None
    out = []
    for fd in sd.get('fields', []):
        ty = fd.get('ty', '')
        inner = ty[1:] if ty.startswith('%struct.') else None
        if inner and inner in mod.structs and not ty.endswith('*'):
            sub = _leaf_ranges(mod, inner, base + fd['off'], depth + 1)
            if sub is None:
                out.append((base + fd['off'], base + fd['off'] + fd['size']))
            else:
                out += sub
        else:
            out.append((base + fd['off'], base + fd['off'] + fd['size']))
    return out


def swap_coverage(m, f, _depth=0):
    """For a function f(struct S *a, struct S *b): which bytes of *a are exchanged with the same bytes of *b.
    Returns (sname, size, covered ranges, missing member ranges, problems)."""
    from ..ir import resolve_addr, const_int
    from ..facts import strip_bitcasts
    problems = []
    if len(f.args) < 2:
        return None
    sname = _struct_of(f.args[0].get('ty'))
    if sname is None or _struct_of(f.args[1].get('ty')) != sname:
        return None
    mod = f.module
    sd = mod.structs.get(sname)
    if sd is None:
        return None
    covered = []
    cover_ins = []
    for c in f.all_insts():
        if c.op != 'call' or not c.callee or c.is_intrinsic():
            continue
        ptrs = []
        for o in c.o[:2]:
            a = resolve_addr(f, o) if isinstance(o, str) else None
            ptrs.append(a)
        if len(ptrs) < 2 or ptrs[0] is None or ptrs[1] is None:
            continue
        roots = (strip_bitcasts(f, ptrs[0].root), strip_bitcasts(f, ptrs[1].root))
        if set(roots) != {'$0', '$1'} or ptrs[0].coff is None or ptrs[0].coff != ptrs[1].coff:
            if set(roots) & {'$0', '$1'} and roots[0] != roots[1]:
                problems.append('the exchange at %s pairs different members of the two objects' % c.loc())
            continue
        off = ptrs[0].coff
        n = None
        if len(c.o) >= 4 and const_int(c.o[3]) is not None:
            n = const_int(c.o[3])                      # cstl_swap(a, b, tmp, bytes)
        else:
            g = m.pfn(c.callee)
            sub = swap_coverage(m, g, _depth + 1) if (g is not None and _depth < 4) else None
            if sub is not None and not sub[3] and not sub[4]:
                n = sub[1]
            elif sub is not None:
                problems.append('%s(), used at %s, does not itself exchange the whole object' % (c.callee, c.loc()))
                n = sub[1]
        if n is not None:
            covered.append((off, off + n))
            cover_ins.append(((off, off + n), c))
    # exchange by whole-structure assignment through a temporary: t = *a; *a = *b; *b = t  (three block copies)
    cps = []
    for c in f.all_insts():
        if c.op == 'call' and (c.callee or '').startswith(('llvm.memcpy', 'llvm.memmove')) and len(c.o) >= 3 and const_int(c.o[2]) is not None:
            d_, s_ = resolve_addr(f, c.o[0]), resolve_addr(f, c.o[1])
            dr = strip_bitcasts(f, d_.root) if isinstance(d_.root, str) else d_.root
            sr = strip_bitcasts(f, s_.root) if isinstance(s_.root, str) else s_.root
            cps.append((dr, d_.coff, sr, s_.coff, const_int(c.o[2]), c))

    def _is_tmp(r):
        ri = f.get(r) if isinstance(r, str) else None
        return ri is not None and ri.op == 'alloca'
    for (d1, do1, s1, so1, n1, c1) in cps:
        if not (_is_tmp(d1) and s1 in ('$0', '$1') and so1 is not None):
            continue
        first, second = s1, ('$1' if s1 == '$0' else '$0')
        for (d2, do2, s2, so2, n2, c2) in cps:
            if not (d2 == first and s2 == second and do2 == so1 and so2 == so1 and n2 == n1 and f.dominates(c1, c2)):
                continue
            for (d3, do3, s3, so3, n3, c3) in cps:
                if d3 == second and s3 == d1 and do3 == so1 and n3 == n1 and f.dominates(c2, c3):
                    covered.append((so1, so1 + n1))
                    cover_ins.append(((so1, so1 + n1), c2))
                    cover_ins.append(((so1, so1 + n1), c3))
    # member-by-member exchange through typed temporaries: a.f := (old b.f) and b.f := (old a.f)
    def ty_size(ty):
        ty = (ty or '').strip()
        if ty.endswith('*'):
            return 8
        if ty.startswith('i') and ty[1:].isdigit():
            return (int(ty[1:]) + 7) // 8
        return {'double': 8, 'float': 4}.get(ty)

    def before(x, y):
        return (x.block is y.block and x.pos < y.pos) or (x.block is not y.block and f.dominates(x, y))
    halves = {}
    for st in f.all_insts():
        if st.op != 'store':
            continue
        a = resolve_addr(f, st.o[1])
        ra = strip_bitcasts(f, a.root) if isinstance(a.root, str) else a.root
        if ra not in ('$0', '$1') or a.coff is None:
            continue
        v = f.get(strip_bitcasts(f, st.o[0])) if isinstance(st.o[0], str) else None
        while v is not None and v.op in ('zext', 'trunc') :
            v = f.get(v.o[0]) if isinstance(v.o[0], str) else None
        if v is None or v.op != 'load':
            continue
        b = resolve_addr(f, v.o[0])
        rb = strip_bitcasts(f, b.root) if isinstance(b.root, str) else b.root
        if rb not in ('$0', '$1') or rb == ra or b.coff != a.coff:
            if rb in ('$0', '$1') and rb != ra and b.coff is not None and b.coff != a.coff:
                problems.append('the exchange at %s pairs different members of the two objects' % st.loc())
            continue
        n = ty_size(v.ty)
        if n is None:
            continue
        halves.setdefault((a.coff, n), {})[ra] = (st, v)
    for (off, n), h in halves.items():
        if '$0' in h and '$1' in h:
            (sa, lb), (sb, la) = h['$0'], h['$1']          # a.f := lb (old b.f) ; b.f := la (old a.f)
            if before(la, sa) and before(lb, sb):
                covered.append((off, off + n))
                cover_ins.append(((off, off + n), sa))
                cover_ins.append(((off, off + n), sb))
            else:
                problems.append('the member at offset %d is overwritten before its old value was read (both objects end up with the same value)' % off)
        else:
            who = 'first' if '$0' in h else 'second'
            problems.append('the member at offset %d of the %s object receives the other object\'s value but not vice versa' % (off, who))
    leaves = _leaf_ranges(mod, sname) or [(0, sd.get('size', 0))]
    # an exchange that some path to the return skips is only complete if, where it is skipped, the members it would have
    # exchanged are known to be equal already (`if (a->n != b->n) exchange n`) or both arguments are the same object
    problems += _skipped_exchanges(f, mod, sname, leaves, cover_ins)
    missing = []
    for lo, hi in leaves:
        pos = lo
        for a, b in sorted(covered):
            if a <= pos < b:
                pos = b
        if pos < hi:
            missing.append((lo, hi))
    return sname, sd.get('size', 0), covered, missing, problems


def _skipped_exchanges(f, mod, sname, leaves, cover_ins):
    from ..ir import resolve_addr
    from ..facts import FactCache, strip_bitcasts
    out = []
    rets = f.returns()
    fc = None
    for (lo, hi), ins in cover_ins:
        if all(f.dominates(ins, r) for r in rets):
            continue
        fc = fc or FactCache(f)
        can_reach = {b.idx for b in f.blocks if ins.block in f.reachable_from(b)}
        for u in f.blocks:
            if u.idx not in can_reach or u is ins.block:
                continue
            for v in u.succ:
                if v.idx in can_reach or v is ins.block:
                    continue
                if v.insts and v.term is not None and v.term.op == 'unreachable':
                    continue
                facts = fc.edge_facts(u, v)
                if ('eq', '$0', '$1') in facts or ('eq', '$1', '$0') in facts:
                    continue
                # every scalar member in the range must be known equal on this edge
                need = [(a, b) for a, b in leaves if lo <= a and b <= hi]
                okall = bool(need)
                for a, b in need:
                    ok = False
                    for (op, x, y) in facts:
                        if op != 'eq':
                            continue
                        xi, yi = (f.get(x) if isinstance(x, str) else None), (f.get(y) if isinstance(y, str) else None)
                        if xi is None or yi is None or xi.op != 'load' or yi.op != 'load':
                            continue
                        ax, ay = resolve_addr(f, xi.o[0]), resolve_addr(f, yi.o[0])
                        rx = strip_bitcasts(f, ax.root) if isinstance(ax.root, str) else ax.root
                        ry = strip_bitcasts(f, ay.root) if isinstance(ay.root, str) else ay.root
                        if {rx, ry} == {'$0', '$1'} and ax.coff == ay.coff == a:
                            ok = True
                    okall = okall and ok
                if not okall:
                    what = ', '.join(sorted({member_at(mod, sname, a) for a, b in (need or [(lo, hi)])}))
                    out.append('the exchange of %s at %s is skipped on the way through %s although those members are not known to be equal there' % (what, ins.loc(), u.term.loc()))
    return sorted(set(out))


def member_at(mod, sname, off, depth=0):
    sd = mod.structs.get(sname) or {}
    for fd in sd.get('fields', []):
        if fd['off'] <= off < fd['off'] + fd['size']:
            ty = fd.get('ty', '')
            inner = ty[1:] if ty.startswith('%struct.') else None
            if inner and inner in mod.structs and not ty.endswith('*') and depth < 6:
                return fd['name'] + '.' + member_at(mod, inner, off - fd['off'], depth + 1)
            return fd['name']
    return '+%d' % off


def check_swap_complete(m, name, rule):
    f = m.pfn(name)
    if f is None:
        rule.undecided(name, 'not in the model')
        return
    r = swap_coverage(m, f)
    if r is None:
        rule.undecided(name, 'not a (struct *, struct *) function or the struct layout is unknown', floc(m, f))
        return
    sname, size, covered, missing, problems = r
    if missing or problems:
        what = ', '.join(sorted({member_at(f.module, sname, lo) for lo, hi in missing}))
        msg = []
        if missing:
            msg.append('member(s) %s of %s are not exchanged: each stays with the object it was in while the rest moves' % (what, sname))
        rule.violation(name, '; '.join(msg + problems), floc(m, f), {'covered': covered, 'missing': missing})
    else:
        rule.ok(name, 'all %d bytes of %s that hold members are exchanged (%d exchange call(s))' % (size, sname, len(covered)), floc(m, f))


# ---- (function pointer, context) pairs travel together ---------------------------------------------

CB_FTYS = {'i32 (i8*, i8*, i8*)': 2, 'i32 (i8*, i8*)': 1, 'void (i8*, i8*)': 1}


def check_callback_context(m, rule, suffixes):
    """every call through a caller-supplied comparison / visit / clear pointer passes the context that was supplied with
    it: a pointer taken from parameter k goes with parameter k+1; a pointer loaded from a structure goes with a context
    loaded from the same structure -- never with the structure itself or an unrelated value"""
    from ..ir import resolve_addr
    from ..facts import strip_bitcasts
    n = 0
    for f in m.all_plain_functions():
        if not (f.file or '').endswith(tuple(suffixes)):
            continue
        for c in f.all_insts():
            if c.op != 'call' or c.callee is not None or c.x.get('fty') not in CB_FTYS:
                continue
            k = CB_FTYS[c.x['fty']]
            if len(c.o) <= k:
                continue
            cv = c.x.get('cv')
            ctx = strip_bitcasts(f, c.o[k]) if isinstance(c.o[k], str) else c.o[k]
            site = '%s:callback@%d' % (f.name, c.line or 0)
            cvi = f.get(cv) if isinstance(cv, str) else None
            n += 1
            if isinstance(cv, str) and cv.startswith('$') and cv[1:].isdigit():
                want = '$%d' % (int(cv[1:]) + 1)
                if ctx == want:
                    rule.ok(site, 'pointer %s with its context %s' % (f.vname(cv), f.vname(ctx)), c.loc())
                elif isinstance(ctx, str) and ctx.startswith('$'):
                    rule.violation(site, 'the function passed as `%s` is called with `%s` as its context instead of the context parameter that '
                                   'accompanies it (`%s`)' % (f.vname(cv), f.vname(ctx), f.vname(want)), c.loc(), {})
                else:
                    rule.ok(site, 'NOT DECIDED: context %s' % ctx, c.loc())
            elif cvi is not None and cvi.op == 'load':
                a = resolve_addr(f, cvi.o[0])
                root = strip_bitcasts(f, a.root) if isinstance(a.root, str) else a.root
                ci = f.get(ctx) if isinstance(ctx, str) else None
                if ctx == root:
                    rule.violation(site, 'the function stored in %s is called with the structure that holds it as its context, not with the context '
                                   'stored beside it: a comparison / visit function that uses its private pointer sees foreign memory'
                                   % ('.'.join(a.steps) or 'the holder'), c.loc(), {})
                elif ci is not None and ci.op == 'load':
                    a2 = resolve_addr(f, ci.o[0])
                    r2 = strip_bitcasts(f, a2.root) if isinstance(a2.root, str) else a2.root
                    if r2 == root and a2.fsteps[:-1] == a.fsteps[:-1]:
                        rule.ok(site, 'pointer %s with the context %s stored beside it' % ('.'.join(a.steps), '.'.join(a2.steps)), c.loc())
                    else:
                        rule.ok(site, 'NOT DECIDED: pointer from %s, context from %s' % ('.'.join(a.steps), '.'.join(a2.steps)), c.loc())
                else:
                    rule.ok(site, 'NOT DECIDED: context %s' % ctx, c.loc())
            else:
                rule.ok(site, 'NOT DECIDED: callee %s' % cv, c.loc())
            # the int a comparison / visit function returns carries its meaning in its sign / in being zero over the whole
            # int range: kept in a narrower variable, +256 becomes 0 and +200 becomes negative
            if c.ty == 'i32':
                work, seen_r = [c.ref], set()
                while work:
                    r0 = work.pop()
                    if r0 in seen_r:
                        continue
                    seen_r.add(r0)
                    for u in f.users(r0):
                        if u.op == 'trunc' and (u.x.get('bits') or 32) < 32 and (u.x.get('bits') or 32) > 1:
                            rule.violation(site + ':result', 'the result of the caller\'s function is narrowed to %s bits at %s: a comparison function only '
                                           'promises the sign of an int, so results outside that width change sign or become 0' % (u.x.get('bits'), u.loc()), u.loc(), {})
                        elif u.op in ('phi', 'select'):
                            work.append(u.ref)
    return n


# ---- no use of a storage pointer read before a reallocation ----------------------------------------

def check_stale_base(m, rule, names, base_pred, what):
    """in each (fully inlined) entry point: an address derived from a load of the storage pointer must not be dereferenced,
    or handed to memcpy / memmove / memset, after a realloc that the load does not post-date (the block may have moved)"""
    from ..ir import resolve_addr
    from ..facts import strip_bitcasts
    n = 0
    for name in names:
        f = m.ifn(name)
        if f is None:
            continue
        reallocs = [c for c in f.all_insts() if c.op == 'call' and c.callee == 'realloc']
        if not reallocs:
            continue
        n += 1
        loads = [i for i in f.all_insts() if i.op == 'load' and base_pred(resolve_addr(f, i.o[0]))]
        # values derived from each load (pointer arithmetic, casts, phis)
        bad = []
        for ld in loads:
            derived = {ld.ref}
            changed = True
            while changed:
                changed = False
                for i in f.all_insts():
                    if i.ref in derived or i.op not in ('getelementptr', 'bitcast', 'ptrtoint', 'inttoptr', 'add', 'sub', 'phi', 'select'):
                        continue
                    if any(isinstance(o, str) and o in derived for o in (i.o if i.op != 'select' else i.o[1:])):
                        derived.add(i.ref)
                        changed = True
            # only the object whose storage the realloc moves: pointers into another object's storage (a distinct source
            # string / vector parameter) are unaffected (the property's domain excludes aliased source and destination)
            ld_root = strip_bitcasts(f, resolve_addr(f, ld.o[0]).root)

            def same_object(r):
                old = f.get(strip_bitcasts(f, r.o[0])) if isinstance(r.o[0], str) else None
                return old is not None and old.op == 'load' and strip_bitcasts(f, resolve_addr(f, old.o[0]).root) == ld_root
            after = [r for r in reallocs if same_object(r) and _reaches(f, ld, r)]
            if not after:
                continue
            for u in f.all_insts():
                addr = None
                if u.op == 'load':
                    addr = [u.o[0]]
                elif u.op == 'store':
                    addr = [u.o[1]]
                elif u.op == 'call' and (u.callee or '').startswith(('llvm.memcpy', 'llvm.memmove', 'llvm.memset')):
                    addr = u.o[:2] if not (u.callee or '').startswith('llvm.memset') else u.o[:1]
                elif u.op == 'call' and u.callee is None:
                    addr = [o for o in u.o if isinstance(o, str)]
                if not addr or not any(isinstance(a, str) and strip_bitcasts(f, a) in derived for a in addr):
                    continue
                for r in after:
                    if r is not u and _reaches(f, r, u) and not (u.op == 'call' and u is r):
                        # the realloc itself receiving the old pointer is the one legitimate use
                        bad.append('%s read at %s is still used at %s after the realloc at %s may have moved the block' % (what, ld.loc(), u.loc(), r.loc()))
                        break
        if bad:
            rule.violation(name, '; '.join(sorted(set(bad))[:2]), floc(m, f), {})
        else:
            rule.ok(name, '%d realloc site(s); no address derived from a storage pointer read before one is used after it' % len(reallocs), floc(m, f))
    return n


def _reaches(f, a, b):
    if a.block is b.block:
        if a.pos < b.pos:
            return True
        # through a loop back to the same block
        return any(a.block in f.reachable_from(s) for s in a.block.succ)
    return b.block in f.reachable_from(a.block)


# ---- the shipped (NDEBUG) build does what the assertion-enabled build does ---------------------------------------

def _fn_has_effects(mod, name, seen=None, depth=0):
    """may a call of `name` write memory other than its own locals (or is its body unknown)?"""
    from ..ir import resolve_addr
    seen = seen if seen is not None else set()
    g = mod.fn(name) if name else None
    if g is None or g.decl:
        return True
    if name in seen or depth > 6:
        return False
    seen.add(name)
    for i in g.all_insts():
        if i.op in ('atomicrmw', 'cmpxchg', 'fence'):
            return True
        if i.op == 'store':
            r = resolve_addr(g, i.o[1]).root
            ri = g.get(r) if isinstance(r, str) else None
            if ri is None or ri.op != 'alloca':
                return True
        if i.op == 'call' and not i.is_intrinsic() and not i.x.get('noreturn'):
            if i.callee is None or _fn_has_effects(mod, i.callee, seen, depth + 1):
                return True
    return False


def check_assert_effects(m, rule, suffixes):
    """An assertion must not do the program's work: every store, atomic operation and effectful call the assertion-enabled
    build makes is also made by the NDEBUG build (the one that ships; the test-suite is built with assertions on).
    `assert((x->count = n) >= k)` computes nothing when NDEBUG is defined."""
    from ..ir import mem_access
    try:
        o = m.other_config()
    except Exception as e:                                   # noqa: BLE001
        rule.undecided('other-config', 'the %s build of the tree could not be modelled: %s' % ('assert' if m.config == 'release' else 'release', str(e)[:200]))
        return
    rel, asr = (m, o) if m.config == 'release' else (o, m)

    def effects(mod, f, seen=()):
        # compared on the units as compiled (no helper inlined, nothing optimised away), function by function
        out = {}
        for i in f.all_insts():
            k = None
            if i.op == 'store':
                a = mem_access(i)
                k = ('store', a[1].path if a else '', i.line)
            elif i.op in ('atomicrmw', 'cmpxchg'):
                k = (i.op, '', i.line)
            elif i.op == 'call' and not i.is_intrinsic() and not i.x.get('noreturn'):
                if i.callee is None or _fn_has_effects(mod, i.callee):
                    k = ('call', i.callee or '*', i.line)
            if k is not None:
                out[k] = out.get(k, 0) + 1
        return out
    n = 0
    for uname in sorted(asr.plain):
        if uname not in rel.plain:
            continue
        am, rm = asr.raw(uname), rel.raw(uname)
        for fa in am.defined():
            if not (fa.file or '').endswith(tuple(suffixes)):
                continue
            fr = rm.fn(fa.name)
            if fr is None or fr.decl:
                continue
            n += 1
            ea, er = effects(am, fa), effects(rm, fr)
            extra = sorted(k for k, c in ea.items() if c > er.get(k, 0))
            if extra:
                k = extra[0]
                what = {'store': 'a store into %s' % (k[1] or 'memory'), 'call': 'a call of %s()' % k[1]}.get(k[0], 'an atomic operation')
                rule.violation(fa.name, '%s at line %d is made only when assertions are enabled: the NDEBUG build (the one that ships) does not '
                               'perform it, while the test-suite, built with assertions, does' % (what, k[2]), floc(m, fa), {'extra': [list(x) for x in extra[:5]]})
            else:
                rule.ok(fa.name, 'the NDEBUG build performs every store / effectful call of the assertion build', floc(m, fa))
    if n == 0:
        rule.undecided('assert-effects', 'no function of %s found in both configurations' % ', '.join(suffixes))


# ---- the library keeps no state of its own ---------------------------------------------------------------

def check_no_mutable_globals(m, rule, units):
    """no writable object with static storage duration in the given units: a function-local `static` context struct makes
    an enumeration non-reentrant (a nested walk from inside a callback redirects the outer one)"""
    n = 0
    for u in units:
        mod = m.plain.get(u)
        if mod is None:
            continue
        n += 1
        bad = [g for g in mod.globals.values() if not g.get('decl') and not g.get('const') and not g['name'].startswith(('.str', 'llvm.', '__PRETTY_FUNCTION__', '__func__'))]
        if bad:
            rule.violation(u + '.c', 'the unit defines writable object(s) with static storage duration (%s): library functions that keep state there are '
                           'not reentrant - a callback that calls back into the same function overwrites the state of the call it runs under'
                           % ', '.join(sorted(g['name'] for g in bad)[:3]), 'src/%s.c' % u, {})
        else:
            rule.ok(u + '.c', 'no writable static / file-scope object')
    if n == 0:
        rule.undecided('globals', 'units not in the model')


def writes_through_param(m, g, k, depth=0, seen=None):
    """may g store into memory reached from its k-th parameter (directly, by a block copy, or through a callee it hands it to)?"""
    from ..ir import resolve_addr
    from ..facts import strip_bitcasts
    seen = seen if seen is not None else set()
    if g is None or g.decl or (g.name, k) in seen or depth > 4:
        return False
    seen.add((g.name, k))
    root = '$%d' % k
    for i in g.all_insts():
        if i.op == 'store':
            r = resolve_addr(g, i.o[1]).root
            if isinstance(r, str) and strip_bitcasts(g, r) == root:
                return True
        elif i.op == 'call':
            cal = i.callee or ''
            if cal.startswith(('llvm.memcpy', 'llvm.memmove', 'llvm.memset')):
                r = resolve_addr(g, i.o[0]).root
                if isinstance(r, str) and strip_bitcasts(g, r) == root:
                    return True
            elif i.callee and not i.is_intrinsic():
                h = g.module.fn(i.callee)
                if h is None or h.decl:
                    h = m.pfn(i.callee)
                for j, o in enumerate(i.o):
                    if isinstance(o, str):
                        r = resolve_addr(g, o).root
                        if isinstance(r, str) and strip_bitcasts(g, r) == root and writes_through_param(m, h, j, depth + 1, seen):
                            return True
    return False


def check_const_params(m, rule, hdrs):
    """a parameter declared pointer-to-const (a probe, a key) is never written through, however the address is converted on
    the way (element <-> node arithmetic casts the qualifier away)"""
    from ..ir import resolve_addr
    from .. import listrules
    from ..facts import strip_bitcasts
    decls = header_functions(m, hdrs)
    n = 0
    for name, d in sorted(decls.items()):
        f = m.pfn(name)
        if f is None:
            continue
        cps = [k for k, (ty, pn) in enumerate(d.params) if ty and '*' in ty and ty.replace(' ', '').startswith('const') and ty.count('*') == 1]
        if not cps:
            continue
        n += 1
        bad = []
        for k in cps:
            root = '$%d' % k
            for s2 in f.all_insts():
                if s2.op != 'store':
                    continue
                r = resolve_addr(f, s2.o[1]).root
                if not isinstance(r, str):
                    continue
                r0 = strip_bitcasts(f, r)
                if r0 == root or listrules.handed_node(f, r0) == root or listrules.derived_from(f, r0, root):
                    bad.append('memory reached from the const parameter `%s` is written at %s: the caller\'s probe / key object is modified (or, when the '
                               'probe is itself a resident element, a node still in the container)' % (d.params[k][1] or root, s2.loc()))
        if bad:
            rule.violation(name, '; '.join(sorted(set(bad))[:2]), floc(m, f), {})
        else:
            rule.ok(name, '%d const pointer parameter(s), none written through' % len(cps), floc(m, f))
    if n == 0:
        rule.undecided('const-params', 'no function with a pointer-to-const parameter found')
