"""helpers shared by the rule modules"""
import os

from .. import astfacts


def header_functions(m, headers):
    """{name: Decl} of functions declared in the given public headers (basenames)"""
    out = {}
    for d in astfacts.header_decls(m):
        if d.kind == 'FunctionDecl' and not d.implicit and os.path.basename(d.file or '') in headers:
            if d.name not in out or (d.has_body and not out[d.name].has_body):
                out[d.name] = d
    return out


def floc(m, f):
    return '%s:%d' % ((f.file or '').replace(m.repo + '/', ''), f.line)
