"""C12 - a doubly-linked list equals a reference sequence in both directions (decided clauses).

D1 documented NULL   front / back / pop_front / pop_back / find are documented `@retval NULL`: some returned
        value must be able to be NULL.
D2 swap re-anchor    after the bitwise swap, for each list: if size == 0 its head links are set to its own
        head (h.n := h.p := &list->h), otherwise the first node's prev and the last node's next are
        pointed at the list's own head (h.n->p := h.p->n := &list->h).  (The sentinel moved.)
D3 concat            the splice happens only under d != s, adds the source size once and re-initialises the
        source afterwards.
D4 foreach           FWD walks through the `n` links and REV through the `p` links (selector bound by
        direction, default = FWD); nothing is accessed through the visited node after its visit; after
        a non-zero visit no further visit happens and that value is returned.
D5 size bookkeeping  a function that adjusts `size` by one does so exactly once on every path; both an
        incrementing and a decrementing primitive exist.
NOT decided: link correctness of reverse / sort / merge.
"""
from .. import astfacts, listrules
from ..facts import Prover, strip_bitcasts
from ..ir import const_int, resolve_addr, unit_step
from .util import header_functions, floc

DL = 'cstl_dlist'
NODE = 'cstl_dlist_node'


def run(m, rep, tier):
    from .. import canaries
    canaries.run(m, rep, ('handoff',))
    decls = header_functions(m, ('dlist.h',))
    d1 = rep.rule('D1', 'functions documented to return NULL can return NULL', floor=5)
    listrules.doc_null(m, d1, decls)

    d2 = rep.rule('D2', 'swap re-anchors both lists to their own sentinel (empty and non-empty case)', floor=2)
    f = m.ifn('cstl_dlist_swap')
    if f is None:
        d2.undecided('cstl_dlist_swap', 'not in the model')
    else:
        check_swap(m, f, d2)

    d3 = rep.rule('D3', 'concat splices only distinct lists, adds the size once, re-initialises the source', floor=1)
    f = m.focus('dlist').fn('cstl_dlist_concat')       # private splice helpers inlined
    if f is None:
        d3.undecided('cstl_dlist_concat', 'not in the model')
    else:
        pv = Prover(f)
        bad = []
        stores = [s for s in f.all_insts() if s.op == 'store']
        link = [s for s in stores if resolve_addr(f, s.o[1]).fsteps[-1:] in (((NODE, 'n'),), ((NODE, 'p'),))]
        for s in link:
            facts = pv.facts_at(s)
            if not (('ne', '$0', '$1') in facts or ('ne', '$1', '$0') in facts):
                bad.append('links are rewritten at %s even when both arguments are the same list' % s.loc())
                break
        # an empty source has no nodes: its sentinel must not be spliced in as if it were one
        for s in link:
            nonempty = False
            for (op, x, y) in pv.facts_at(s):
                for val, other, side in ((x, y, 'l'), (y, x, 'r')):
                    vi = f.get(val) if isinstance(val, str) else None
                    if vi is None or vi.op != 'load' or resolve_addr(f, vi.o[0]).root != '$1':
                        continue
                    a = resolve_addr(f, vi.o[0])
                    if a.fsteps[-1:] == ((DL, 'size'),) and const_int(other) is not None and \
                            ((op == 'ne' and const_int(other) == 0) or (op == 'ult' and side == 'r') or (op == 'ule' and side == 'r' and const_int(other) >= 1)):
                        nonempty = True
            if not nonempty:
                bad.append('links are rewritten at %s without knowing that the source list has any node (source size > 0): for an empty source its '
                           'head sentinel is spliced into the destination as if it were an element' % s.loc())
                break
        sizes = [s for s in stores if resolve_addr(f, s.o[1]).fsteps[-1:] == ((DL, 'size'),) and resolve_addr(f, s.o[1]).root == '$0']
        ok = len(sizes) == 1
        if ok:
            v = f.get(sizes[0].o[0])
            roots = set()
            if v is not None and v.op == 'add':
                for o in v.o:
                    oi = f.get(o)
                    if oi is not None and oi.op == 'load' and resolve_addr(f, oi.o[0]).fsteps[-1:] == ((DL, 'size'),):
                        roots.add(resolve_addr(f, oi.o[0]).root)
            ok = roots == {'$0', '$1'}
        if not ok:
            bad.append('the destination size is not set to dst.size + src.size exactly once')
        inits = [c for c in f.calls('cstl_dlist_init') if c.o and c.o[0] == '$1']
        if not inits or not all(any(f.dominates(s, c) for c in inits) for s in link):
            bad.append('the source list is not re-initialised after its nodes were moved (it keeps pointing at nodes it no longer owns)')
        if bad:
            d3.violation('cstl_dlist_concat', '; '.join(bad), floc(m, f), {})
        else:
            d3.ok('cstl_dlist_concat', '%d link store(s) under d != s; size added once; source re-initialised' % len(link), floc(m, f))

    d4 = rep.rule('D4', 'foreach: direction binds the right link, no access after the visit, stop value propagated', floor=3)
    check_foreach(m, d4)

    d6 = rep.rule('D6', 'reverse links its two cursor nodes directly to each other only when they are known to be neighbours', floor=1)
    f = m.ifn('cstl_dlist_reverse')
    if f is None:
        d6.undecided('cstl_dlist_reverse', 'not in the model')
    else:
        pv = Prover(f)

        def cursor(ref):
            i = f.get(ref) if isinstance(ref, str) else None
            return i is not None and (i.op == 'phi' or (i.op == 'load' and resolve_addr(f, i.o[0]).root == '$0'))
        bad = []
        n = 0
        for s in f.all_insts():
            if s.op != 'store':
                continue
            a = resolve_addr(f, s.o[1])
            v = s.o[0]
            if a.fsteps[-1:] not in (((NODE, 'n'),), ((NODE, 'p'),)) or not cursor(a.root) or not cursor(v) or a.root == v:
                continue
            n += 1
            # fact: a.root and v are neighbours (x->n == y or y->p == x, either way round)
            ok = False
            for (op, x, y) in pv.facts_at(s):
                if op != 'eq':
                    continue
                for p_, q_ in ((x, y), (y, x)):
                    pi = f.get(p_)
                    if pi is not None and pi.op == 'load':
                        ap = resolve_addr(f, pi.o[0])
                        if ap.fsteps[-1:] in (((NODE, 'n'),), ((NODE, 'p'),)) and {ap.root, q_} == {a.root, v}:
                            ok = True
            if not ok:
                bad.append('cursor nodes are linked directly to each other at %s without knowing they are adjacent: a node between them drops out of '
                           'both chains while size still counts it' % s.loc())
        if bad:
            d6.violation('cstl_dlist_reverse', '; '.join(bad[:2]), floc(m, f), {})
        elif n == 0:
            d6.ok('cstl_dlist_reverse', 'no direct cursor-to-cursor link (general exchange only)', floc(m, f))
        else:
            d6.ok('cstl_dlist_reverse', '%d direct link(s), all under the adjacency test' % n, floc(m, f))

    d5 = rep.rule('D5', 'size adjusted exactly once per primitive; incrementing and decrementing primitives exist', floor=2)
    fns = [f for f in m.all_plain_functions() if (f.file or '').endswith(('dlist.c', 'dlist.h'))]
    adj = [f for f in fns if listrules.count_once(m, f, d5, DL, 'size', node=NODE, links=('n', 'p'))]

    def has(f, c):
        is_size = listrules.field_addr_pred(m, f, DL, 'size')
        for s in f.all_insts():
            if s.op == 'store' and is_size(s.o[1]):
                if unit_step(f, s.o[0])[1] == c:
                    return True
        return False
    if not [f for f in adj if has(f, 1)]:
        d5.violation('dlist:insertion', 'no function increments the element count although elements can be inserted', 'src/dlist.c', {})
    if not [f for f in adj if has(f, -1)]:
        d5.violation('dlist:removal', 'no function decrements the element count although elements can be removed', 'src/dlist.c', {})

    # ---- D11: size - k only where size >= k ---------------------------------------------------
    d11 = rep.rule('D11', 'a value computed as size - k (a pair / half count, a loop bound) is computed only where size >= k is known', floor=1)
    n11 = 0
    for f in m.all_plain_functions():
        if not (f.file or '').endswith('dlist.c'):
            continue
        pv = Prover(f)
        is_size = listrules.field_addr_pred(m, f, DL, 'size')
        for i in f.all_insts():
            if i.op not in ('add', 'sub'):
                continue
            base, step = i.o[0], None
            k = const_int(i.o[1])
            if k is None:
                continue
            if i.op == 'add' and k >= (1 << 63):
                k = (1 << 64) - k
            elif i.op == 'add':
                continue
            ld = f.get(base) if isinstance(base, str) else None
            if ld is None or ld.op != 'load' or not is_size(ld.o[0]) or k < 1:
                continue
            # the bookkeeping decrement itself (stored back into size) belongs to D5
            if any(u.op == 'store' and is_size(u.o[1]) for u in f.users(i.ref)):
                continue
            n11 += 1
            site = '%s:size-%d@%d' % (f.name, k, i.line or 0)
            if pv.prove_at(('ule', '#%d' % k, ld.ref), i):
                d11.ok(site, 'under size >= %d' % k, i.loc())
            else:
                d11.violation(site, 'size - %d is computed at %s without knowing that the list has %d element(s): for an empty list the unsigned '
                              'difference wraps to a huge count (a loop driven by it never ends / walks off the list)' % (k, i.loc(), k), i.loc(), {})
    if n11 == 0:
        d11.ok('dlist', 'no size - k value other than the bookkeeping decrement in dlist.c')

    # ---- D10: (function pointer, context) pairing ---------------------------------------------
    from .util import check_callback_context
    _cb = rep.rule('D10', 'every call through a caller-supplied function pointer passes the context supplied with it', floor=1)
    check_callback_context(m, _cb, ('dlist.c',))

    # ---- D9: visiting walks end at the sentinel ----------------------------------------------
    d9 = rep.rule('D9', 'a walk that visits / compares elements ends at the head sentinel, never at an element (which would go unvisited)', floor=1)
    from ..facts import phi_leaves, FactCache
    nwalk = 0
    for f in m.all_plain_functions():
        if not (f.file or '').endswith('dlist.c'):
            continue
        if not any(c.op == 'call' and c.callee is None for c in f.all_insts()):
            continue
        fc = FactCache(f)
        for ic in f.all_insts():
            if ic.op != 'icmp' or ic.pred not in ('eq', 'ne'):
                continue
            ops = [strip_bitcasts(f, o) if isinstance(o, str) else o for o in ic.o]
            phis = [o for o in ops if isinstance(o, str) and f.get(o) is not None and f.get(o).op == 'phi' and (f.get(o).ty or '').startswith('%struct.cstl_dlist_node')]
            # the cursor is the loop-carried one: a phi with an incoming edge from a block its own block dominates
            def carried(r):
                pi = f.get(r)
                return any(f.dominates_block(pi.block, f.bb[bb]) for bb in pi.x['bb'])
            phis = [o for o in phis if carried(o)]
            if len(phis) != 1:
                continue
            other = ops[1] if ops[0] == phis[0] else ops[0]
            if other == 'null':
                continue
            nwalk += 1
            kinds = [listrules.anchor_kind(f, leaf, 'cstl_dlist', 'cstl_dlist_node') for leaf, _, _ in phi_leaves(f, fc, other)]
            site = '%s:walk-end@%d' % (f.name, ic.line or 0)
            if any(k in ('first', 'last') for k in kinds):
                d9.violation(site, 'the walk in %s stops when its cursor reaches the list\'s %s element instead of the head sentinel: that element is '
                             'never visited / compared (a match located only there is missed)' % (f.name, [k for k in kinds if k in ('first', 'last')][0]), ic.loc(), {})
            elif all(k == 'head' for k in kinds):
                d9.ok(site, 'cursor compared with the head sentinel', ic.loc())
            else:
                d9.ok(site, 'NOT DECIDED: cursor compared with %s' % kinds, ic.loc())
    if nwalk == 0:
        d9.undecided('dlist-walks', 'no visiting walk with a cursor comparison found in dlist.c')

    # ---- D8: link primitive direction vs. anchors ----------------------------------------
    d8 = rep.rule('D8', 'push_front / push_back / insert pass the anchor that matches the direction in which the link primitive links', floor=3)
    listrules.check_insert_anchors(m, d8, 'dlist', '__cstl_dlist_insert', 'cstl_dlist', 'cstl_dlist_node',
                                   {'cstl_dlist_push_front': 'front', 'cstl_dlist_push_back': 'back', 'cstl_dlist_insert': ('after', '$1')},
                                   null_fns={n_ for n_, d_ in decls.items() if any(rv.split()[:1] == ['NULL'] for rv in d_.retvals)})

    # ---- D7: swap completeness ------------------------------------------------------------
    from .util import check_swap_complete
    _sw = rep.rule('D7', 'swap exchanges every member of the two lists before re-anchoring', floor=1)
    for _n in ('cstl_dlist_swap',):
        check_swap_complete(m, _n, _sw)

    # ---- D12: the NDEBUG build does what the assertion build does ---------------------------------
    from .util import check_assert_effects
    _ae = rep.rule('D12', 'every store / effectful call made with assertions enabled is also made by the NDEBUG build (no work inside assert())', floor=1)
    check_assert_effects(m, _ae, ('dlist.c', 'dlist.h'))

    # ---- D13 / D14 ---------------------------------------------------------------------------------------
    from .util import check_no_mutable_globals
    d13 = rep.rule('D13', 'dlist.c defines no writable static object', floor=1)
    check_no_mutable_globals(m, d13, ('dlist',))
    # the sought object is opaque to find: it is only ever handed to the caller's comparison function
    d14 = rep.rule('D14', 'cstl_dlist_find never inspects the sought object pointer itself (it is only handed to the comparison function)', floor=1)
    f14 = m.pfn('cstl_dlist_find')
    if f14 is None:
        d14.undecided('cstl_dlist_find', 'not in the model')
    else:
        tests = [i for i in f14.all_insts() if i.op == 'icmp' and any(isinstance(o, str) and strip_bitcasts(f14, o) == '$1' for o in i.o)]
        derefs = [i for i in f14.all_insts() if i.op in ('load', 'store') and resolve_addr(f14, i.o[0] if i.op == 'load' else i.o[1]).root == '$1']
        if tests or derefs:
            d14.violation('cstl_dlist_find', 'the sought object pointer is %s at %s: a search whose criterion lives in the comparison context (a NULL or '
                          'dummy object) no longer reaches the comparison function' % ('tested' if tests else 'dereferenced', (tests or derefs)[0].loc()), floc(m, f14), {})
        else:
            d14.ok('cstl_dlist_find', 'the sought object is only passed on', floc(m, f14))


def check_swap(m, f, rule):
    # judged on the function as written: the generic exchange stays a call, whatever its body does for small sizes
    pf0 = m.focus('dlist').fn(f.name)       # private fix-up helpers inlined; header functions (cstl_swap) stay calls
    if pf0 is not None and not pf0.decl:
        f = pf0
    pv = Prover(f)
    copies = listrules.exchange_events(f)
    for k in (0, 1):
        root = '$%d' % k
        site = 'cstl_dlist_swap(%s)' % (f.args[k].get('name') or root)

        def is_own_head(ref):
            a = resolve_addr(f, ref)
            return a.root == root and (a.steps == ('h',) or (a.steps == () and a.coff == 0))
        empty_n = empty_p = ne_first = ne_last = False
        sizes = listrules.current_values(f, root, ('size',), copies)
        firsts = listrules.current_values(f, root, ('h', 'n'), copies)
        lasts = listrules.current_values(f, root, ('h', 'p'), copies)
        for s in f.all_insts():
            if s.op != 'store' or not is_own_head(s.o[0]):
                continue
            a = resolve_addr(f, s.o[1])
            facts = pv.facts_at(s)
            size_zero = size_nz = False
            for (op, x, y) in facts:
                if x in sizes and const_int(y) == 0:
                    if op == 'eq':
                        size_zero = True
                    elif op == 'ne' or op == 'ult':
                        size_nz = True
                if op == 'ult' and const_int(x) == 0 and y in sizes:
                    size_nz = True
            if a.root == root and a.steps == ('h', 'n') and size_zero:
                empty_n = True
            if a.root == root and a.steps == ('h', 'p') and size_zero:
                empty_p = True
            # through the first / last node
            ar0 = strip_bitcasts(f, a.root) if isinstance(a.root, str) else a.root
            if size_nz and ar0 in firsts and a.fsteps[-1:] == ((NODE, 'p'),):
                ne_first = True
            if size_nz and ar0 in lasts and a.fsteps[-1:] == ((NODE, 'n'),):
                ne_last = True
        miss = []
        if not (empty_n and empty_p):
            miss.append('an empty list is not re-anchored to its own head (h.n / h.p keep pointing into the other list object)')
        if not ne_first:
            miss.append('the first node\'s prev link is not pointed at the list\'s own head')
        if not ne_last:
            miss.append('the last node\'s next link is not pointed at the list\'s own head')
        if miss:
            rule.violation(site, '; '.join(miss), floc(m, f), {})
        else:
            rule.ok(site, 'size == 0: h.n = h.p = &h; otherwise h.n->p = h.p->n = &h (all read after the swap)', floc(m, f))


def check_foreach(m, rule):
    enums = astfacts.enum_constants(m)
    fwd, rev = enums.get('CSTL_DLIST_FOREACH_DIR_FWD'), enums.get('CSTL_DLIST_FOREACH_DIR_REV')
    # the direction binding is judged on the unit with its private helpers inlined (per-direction walkers, a helper
    # that maps the direction to a selector): how the walk is cut into functions does not matter
    pf = m.focus('dlist').fn('cstl_dlist_foreach')
    f = m.ifn('cstl_dlist_foreach')
    if pf is None or pf.decl or f is None or fwd is None or rev is None:
        rule.undecided('cstl_dlist_foreach', 'function or direction enumerators not found')
        return

    def selector_field(name):
        g = m.pfn(name)
        if g is None:
            return None
        rets = g.returns()
        if len(rets) != 1 or not rets[0].o:
            return None
        a = resolve_addr(g, rets[0].o[0])
        if a.root == '$0' and a.fsteps[-1:] and a.fsteps[-1][0] == NODE:
            return a.fsteps[-1][1]
        return None
    # which selector is bound for which direction (un-inlined body: switch + phi of function addresses)
    bound = {}
    for i in pf.all_insts():
        if i.op == 'phi' and all(isinstance(o, str) and o.startswith('@') for o in i.o):
            sw = [t for t in pf.all_insts() if t.op == 'switch']
            for o, bb in zip(i.o, i.x['bb']):
                fld = selector_field(o[1:])
                # direction values leading to bb
                for t in sw:
                    for cval, target in t.x['cases']:
                        if _leads(pf, target, bb):
                            bound[cval] = fld
                    if _leads(pf, t.x['default'], bb):
                        bound.setdefault('default', fld)
    from ..facts import FactCache, phi_leaves
    fc = FactCache(pf)
    dirkeys = {'$3'} | {i.ref for i in pf.all_insts() if i.op in ('zext', 'sext', 'trunc') and i.o[0] == '$3'}
    if not bound:
        # selector functions chosen by tests of the direction (an if-chain, a helper returning the selector)
        sel = {fwd: set(), rev: set()}
        for c in pf.all_insts():
            if c.op != 'call' or c.callee is not None:
                continue
            cv = c.x.get('cv')
            for leaf, lb, lf in phi_leaves(pf, fc, cv) if isinstance(cv, str) else []:
                if not (isinstance(leaf, str) and leaf.startswith('@')):
                    continue
                fs = set(fc.block_facts(c.block)) | set(lf or ())
                for d in (fwd, rev):
                    excluded = any((op == 'eq' and x in dirkeys and const_int(y) is not None and const_int(y) != d)
                                   or (op == 'ne' and x in dirkeys and const_int(y) == d) for (op, x, y) in fs)
                    if not excluded:
                        sel[d].add(selector_field(leaf[1:]))
        if sel[fwd] and sel[rev]:
            bound = {fwd: '/'.join(sorted(str(x) for x in sel[fwd])), rev: '/'.join(sorted(str(x) for x in sel[rev]))}
    if not bound:
        # no selector functions: the links are read directly under tests of the direction
        fields = {fwd: set(), rev: set()}
        for ld in pf.all_insts():
            if ld.op != 'load':
                continue
            a = resolve_addr(pf, ld.o[0])
            if not a.fsteps or a.fsteps[-1][0] != NODE or a.fsteps[-1][1] not in ('n', 'p'):
                continue
            fs = fc.block_facts(ld.block)
            for d in (fwd, rev):
                excluded = any((op == 'eq' and x in dirkeys and const_int(y) is not None and const_int(y) != d)
                               or (op == 'ne' and x in dirkeys and const_int(y) == d) for (op, x, y) in fs)
                if not excluded:
                    fields[d].add(a.fsteps[-1][1])
        if fields[fwd] and fields[rev]:
            bound = {fwd: '/'.join(sorted(fields[fwd])), rev: '/'.join(sorted(fields[rev]))}
    bad = []
    if bound.get(fwd, bound.get('default')) != 'n':
        bad.append('direction FWD does not walk through the `n` (next) links')
    if bound.get(rev, bound.get('default')) != 'p':
        bad.append('direction REV does not walk through the `p` (prev) links')
    if bad:
        rule.violation('cstl_dlist_foreach:direction', '; '.join(bad), floc(m, pf), {'bound': {str(k): v for k, v in bound.items()}})
    else:
        rule.ok('cstl_dlist_foreach:direction', 'FWD -> n, REV -> p (default %s)' % bound.get('default'), floc(m, pf))
    visits = [c for c in f.all_insts() if c.op == 'call' and c.callee is None and c.x.get('cv') == '$1']
    for c in visits:
        node = listrules.handed_node(f, c.o[0])
        bad = listrules.touches_after(f, c, node) if node else None
        # passing the node to the selector after the visit is an access too
        if node:
            for i in f.all_insts():
                if i.op == 'call' and i.callee is None and i is not c and node in i.o and _after(f, c, i, node):
                    bad.append(i)
        if node is None:
            rule.undecided('cstl_dlist_foreach:handoff', 'element pointer not derived from a node', c.loc())
        elif bad:
            rule.violation('cstl_dlist_foreach:handoff', 'the visited node is accessed after its visit returned (%s): the callback may have removed and freed it'
                           % ', '.join(b.loc() for b in bad[:2]), c.loc(), {})
        else:
            rule.ok('cstl_dlist_foreach:handoff', 'successor fetched before the visit; no access through the node afterwards', c.loc())
    listrules.stop_value(m, f, rule, lambda c: c.callee is None and c.x.get('cv') == '$1', 'cstl_dlist_foreach:stop')


def _leads(f, frm, to):
    a, b = f.bb[frm], f.bb[to]
    return a is b or b.idx in {x.idx for x in f.reachable_from(a)} and len(f.reachable_from(a)) <= 3


def _after(f, call, i, node):
    """i executes after call before `node` (a loop phi) is re-bound"""
    ni = f.get(node)
    header = ni.block if (ni is not None and ni.op == 'phi') else None
    if i.block is call.block:
        return i.pos > call.pos
    seen = set()
    st = list(call.block.succ)
    while st:
        b = st.pop()
        if b.idx in seen or (header is not None and b is header):
            continue
        seen.add(b.idx)
        if b is i.block:
            return True
        st.extend(b.succ)
    return False
