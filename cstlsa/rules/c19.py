"""C19 - rehash is incremental, finishes in bounded operations, lands where requested (decided clauses).

S1 load divisor     the divisor in cstl_hash_load is the effective bucket count: rh.count on every path with
        a rehash pending, bucket.count on every path without.
S2 resize decision  in cstl_hash_resize every comparison of the request (count, hash) with the table's
        geometry -- the test that can skip the update -- reads the effective geometry (pending one while a
        rehash is pending), or the current one at a point dominated by the forced rehash.  A request equal
        to the *current* geometry while a different one is *pending* must still change something.
S3 bounded work     from insert / find / erase: the completer cstl_hash_rehash is unreachable; the sweep is
        called with a constant quota q, 1 <= q, and (cleaner call sites next to it) + q <= 3; inside the
        sweep every cleaner call sits in the quota loop (quota > 0 known, decremented once per cleaning);
        no other loop on a keyed path walks the bucket array.
S4 completion adopts   on the sweep's completion path bucket.count := rh.count, bucket.hash := rh.hash and only
        then rh.hash := NULL; resize records the requested count, and as function the requested one, else
        the existing one, else the default, and restarts the sweep index at 0.
S5 single lookup    when nothing is pending a keyed lookup calls the hash function exactly once
        (path-sensitive, inlined pending-aware lookup).
NOT decided: that the sweep's arithmetic reaches every bucket; histories of requests.
"""
from .. import typestate
from ..facts import Prover, FactCache, _k, strip_bitcasts
from ..hashmodel import Roles, callgraph, reach, classify_pa, fld, is_load_of, hash_calls, at_subscripts, writer_between
from ..ir import const_int, resolve_addr, unit_step
from .util import floc

KEYED = ('cstl_hash_insert', 'cstl_hash_find', 'cstl_hash_erase')


def run(m, rep, tier):
    roles = Roles(m)
    mod = roles.unit
    if mod is None:
        rep.analysis_broken('unit hash.c not in the model')
        return
    rep.extra['roles'] = {k: roles.names(k) for k in ('checked', 'cleaner', 'sweep', 'pa_lookup', 'walkers')}
    g = callgraph(mod)

    # ---- S1 --------------------------------------------------------------------------
    s1 = rep.rule('S1', 'cstl_hash_load divides by the effective (pending-aware) bucket count', floor=1)
    f = m.ifn('cstl_hash_load')
    if f is None:
        s1.undecided('cstl_hash_load', 'not in the model')
    else:
        divs = [i for i in f.all_insts() if i.op in ('fdiv', 'udiv', 'sdiv')]
        if not divs:
            s1.undecided('cstl_hash_load', 'no division found')
        for d in divs:
            v = d.o[1]
            vi = f.get(v)
            while vi is not None and vi.op in ('uitofp', 'sitofp', 'zext'):
                v = vi.o[0]
                vi = f.get(v)
            ok, why = classify_pa(f, v, d, 'count')
            if ok:
                s1.ok('cstl_hash_load', why, d.loc())
            else:
                s1.violation('cstl_hash_load', 'the load factor is computed against a bucket count that is not the effective one: ' + why, d.loc(), {})

    # ---- S2 --------------------------------------------------------------------------
    s2 = rep.rule('S2', 'resize compares the request with the effective geometry (or forces the rehash first)', floor=2)
    from ..hashmodel import focus_hash
    fmod = focus_hash(m)
    f = fmod.fn('cstl_hash_resize')
    if f is None or f.decl:
        s2.undecided('cstl_hash_resize', 'not in the model')
    else:
        check_resize_decision(m, f, s2)

    # ---- S3 --------------------------------------------------------------------------
    s3 = rep.rule('S3', 'keyed operations do a constant, small amount of rehash work and never run the completer', floor=5)
    sweeps = set(roles.names('sweep'))
    cleaners = set(roles.names('cleaner'))
    for e in KEYED:
        if mod.fn(e) is None or mod.fn(e).decl:
            s3.undecided(e, 'entry point not found')
            continue
        rs = reach(g, e)
        if 'cstl_hash_rehash' in rs:
            s3.violation(e + ':completer', 'a keyed operation can reach cstl_hash_rehash(), which works off the whole pending rehash at once '
                         '(work proportional to the table in a single insert/find/erase)', floc(m, mod.fn(e)), {})
        else:
            s3.ok(e + ':completer', 'cstl_hash_rehash is unreachable')
        ws = [w.name for w in roles.walkers if w.name in rs]
        if ws:
            s3.violation(e + ':walk', 'a keyed operation reaches a loop over the whole bucket array (%s)' % ', '.join(ws), floc(m, mod.fn(e)), {})
        else:
            s3.ok(e + ':walk', 'no bucket-array walk reachable')
        if not (rs & sweeps):
            s3.violation(e + ':sweep', 'a keyed operation never advances the incremental sweep: a pending rehash would never finish '
                         'by keyed operations alone', floc(m, mod.fn(e)), {})
    # the work one keyed operation does: view with everything but the cleaner and the checked lookup inlined into the
    # entry points, so that the sweep may be one function with a quota, several specialised ones, or open-coded
    bmod = m.focus('hash', set(roles.names('checked')) | set(cleaners))
    for e in KEYED:
        bf = bmod.fn(e)
        if bf is None or bf.decl:
            continue
        check_keyed_budget(m, bmod, bf, cleaners, s3)

    # ---- S4 --------------------------------------------------------------------------
    s4 = rep.rule('S4', 'completion adopts the pending geometry; resize records the requested one', floor=2)
    hosts = []
    for bf in bmod.defined():
        if bf.name == 'cstl_hash_resize':
            continue
        if any(_is_sweep_step(bf, s) for s in bf.all_insts()):
            hosts.append(bf)
    if not hosts:
        s4.undecided('completion', 'no function advancing the sweep found')
    for bf in hosts:
        check_adopt(m, bf, s4)
    f = fmod.fn('cstl_hash_resize')
    if f is not None and not f.decl:
        check_resize_records(m, f, s4)

    # ---- S5 --------------------------------------------------------------------------
    s5 = rep.rule('S5', 'exactly one hash-function call per keyed lookup when nothing is pending', floor=1)
    for pl in roles.pa_lookup:
        f = m.ifn(pl.name)
        if f is None:
            s5.undecided(pl.name, 'no inlined body')
            continue
        check_single_lookup(m, f, s5)
    if not roles.pa_lookup:
        s5.undecided('pending-aware-lookup', 'role not found')


def check_resize_decision(m, f, rule):
    comp = [c for c in f.calls('cstl_hash_rehash')]

    def completer_dominates(load_ins):
        return any(f.dominates(c, load_ins) for c in comp)

    n = 0
    for i in f.all_insts():
        if i.op != 'icmp' or i.pred not in ('eq', 'ne'):
            continue
        for prm, field in (('$1', 'count'), ('$2', 'hash')):
            ops = [strip_bitcasts(f, o) for o in i.o]
            if prm not in ops:
                continue
            other = ops[1] if ops[0] == prm else ops[0]
            if other == 'null' or const_int(other) is not None:
                continue
            # only comparisons against table geometry
            oi = f.get(other)
            geo = False
            if oi is not None and oi.op == 'load' and fld(f, oi) in ('bucket.' + field, 'bucket.rh.' + field):
                geo = True
            if oi is not None and oi.op in ('phi', 'select'):
                geo = True
            helper = None
            if oi is not None and oi.op == 'call' and oi.callee and oi.o and oi.o[0] == '$0':
                helper = f.module.fn(oi.callee)
                if helper is not None and not helper.decl and len(helper.returns()) >= 1:
                    geo = True
                else:
                    helper = None
            if not geo:
                continue
            n += 1
            if helper is not None:
                # a helper returning the geometry for the same table: classify its return value(s)
                ok, why = True, []
                for r in helper.returns():
                    o2, w2 = classify_pa(helper, r.o[0], r, field)
                    ok = ok and o2
                    why.append(w2)
                why = 'via %s(): %s' % (helper.name, '; '.join(why))
            else:
                ok, why = classify_pa(f, other, i, field, completer_dominates=completer_dominates)
            site = 'cstl_hash_resize:%s' % field
            if ok:
                rule.ok(site, why, i.loc())
            else:
                rule.violation(site, 'the decision whether the request changes anything compares the requested %s with a value that is not the '
                               'effective geometry (%s): a request equal to the current %s while a different one is pending is silently dropped'
                               % (field, why, field), i.loc(), {})
    if n == 0:
        rule.undecided('cstl_hash_resize', 'no comparison of the request with the table geometry found')


def _is_sweep_step(f, s):
    if s.op != 'store' or fld(f, s) != 'bucket.rh.clean':
        return False
    base, step = unit_step(f, s.o[0])
    return step == 1 and is_load_of(f, base, 'bucket.rh.clean')


def _in_cycle(f, block, avoid=()):
    return any(block in f.reachable_from(s, avoid=avoid) for s in block.succ if s not in avoid)


def _leaf_bound(leaf, facts):
    """an upper bound of a quota's initial value: the constant itself, or a constant it is known not to exceed"""
    c = const_int(leaf)
    if c is not None:
        return c
    best = None
    for (op, x, y) in (facts or ()):
        if x != leaf or not (isinstance(y, str) and y.startswith('#')):
            continue
        try:
            k = int(y[1:])
        except ValueError:
            continue
        b = k if op == 'ule' else (k - 1 if op == 'ult' else None)
        if b is not None and (best is None or b < best):
            best = b
    return best


def _call_weight(f, pv, c):
    """how often the call c can run in one execution of f: 1 outside any cycle; inside a cycle the largest initial
    value of a quota (a variable known > 0 at the call, stepped down by one in every iteration that makes the call,
    and whose loop is the one the call sits in); None when no such quota is found"""
    from ..facts import phi_leaves
    if not _in_cycle(f, c.block):
        return 1
    best = None
    done = set()
    for ni in f.all_insts():
        if ni.op != 'phi' or ni.ref in done or ni.ty not in ('i64', 'i32'):
            continue
        # the quota may be carried through several merges (an iteration that only skips leaves it unchanged): the family
        # of phis connected through their operands, its leaves being the initial values and the decrements
        family, leaves, leaf_facts, work = set(), [], {}, [(ni.ref, None)]
        while work:
            r, fs = work.pop()
            i2 = f.get(r) if isinstance(r, str) else None
            if i2 is not None and i2.op == 'phi':
                if r not in family:
                    family.add(r)
                    for v2, bb2 in zip(i2.o, i2.x['bb']):
                        work.append((v2, pv.fc.edge_facts(f.bb[bb2], i2.block)))
            else:
                leaves.append(r)
                leaf_facts.setdefault(r, []).append(fs)
        decs = [f.get(o) for o in leaves if isinstance(o, str) and f.get(o) is not None and unit_step(f, o)[1] == -1 and unit_step(f, o)[0] in family]
        inits = [o for o in leaves if not (isinstance(o, str) and f.get(o) is not None and unit_step(f, o)[1] == -1 and unit_step(f, o)[0] in family)]
        if not decs or not inits:
            continue
        done |= family
        heads = [f.get(r) for r in family if f.dominates_block(f.get(r).block, c.block)]
        if not any(not _in_cycle(f, c.block, avoid=(h.block,)) or h.block is c.block for h in heads):
            continue            # the call can repeat without passing the quota's loop head
        if not any(pv.prove_at(('ult', '#0', r), c) or pv.prove_at(('ne', r, '#0'), c) for r in family):
            continue
        if not all(f.dominates(c, d) for d in decs):
            continue
        bound = 0
        for o in inits:
            # the value as it arrives over each edge that carries it (a trip count min(remaining, quota) is bounded by the
            # comparison made on that edge)
            for lf in leaf_facts.get(o, [None]):
                b = _leaf_bound(o, lf)
                if b is None:
                    bound = None
                    break
                bound = max(bound, b)
            if bound is None:
                break
        if bound is not None and (best is None or bound < best):
            best = bound
    return best


def check_keyed_budget(m, mod, f, cleaners, rule, depth=0):
    """S3 budget of one keyed entry point: total weight of the cleaner call sites it executes (private helpers inlined)"""
    pv = Prover(f)
    site = '%s:budget' % f.name
    total = 0
    swept = 0
    parts = []
    for c in f.all_insts():
        if c.op != 'call' or not c.callee or c.is_intrinsic():
            continue
        if c.callee in cleaners:
            w = _call_weight(f, pv, c)
            if w is None:
                rule.violation(site, 'the cleaner call at %s repeats without a constant quota (a variable known > 0 at the call, '
                               'decremented once per cleaning, starting from a constant): the rehash work of one keyed operation '
                               'is not bounded by a constant' % c.loc(), c.loc(), {})
                return
            total += w
            parts.append('%s x%d' % (c.loc(), w))
            # is the cleaned bucket the one under the sweep index?
            arg = [strip_bitcasts(f, o) for o in c.o if isinstance(o, str)]
            for g, idx in at_subscripts(f):
                if g.ref in arg and is_load_of(f, idx, 'bucket.rh.clean'):
                    swept += w
    if swept < 1:
        rule.violation(site, 'a keyed operation cleans no bucket under the sweep index (quota 0 or no sweep step): a pending rehash '
                       'would never finish by keyed operations alone', floc(m, f), {})
    elif total > 3:
        rule.violation(site, 'one keyed operation can clean %d buckets (%s): more than three per insert/find/erase'
                       % (total, ', '.join(parts)), floc(m, f), {})
    else:
        rule.ok(site, 'at most %d bucket(s) cleaned per operation (%s), %d under the sweep index' % (total, ', '.join(parts), swept), floc(m, f))


def check_adopt(m, sw, rule):
    site = '%s:completion' % sw.name
    nulls = [s for s in sw.all_insts() if s.op == 'store' and fld(sw, s) == 'bucket.rh.hash' and (const_int(s.o[0]) == 0 or s.o[0] == 'null')]
    if not nulls:
        rule.violation(site, 'the sweep never marks the rehash as complete (rh.hash := NULL)', floc(m, sw), {})
        return
    bad = []
    for s0 in nulls:
        cnt = [s for s in sw.all_insts() if s.op == 'store' and fld(sw, s) == 'bucket.count' and is_load_of(sw, s.o[0], 'bucket.rh.count') and sw.dominates(s, s0)]
        hsh = [s for s in sw.all_insts() if s.op == 'store' and fld(sw, s) == 'bucket.hash' and is_load_of(sw, s.o[0], 'bucket.rh.hash') and sw.dominates(s, s0)]
        if not cnt:
            bad.append('completion at %s does not adopt the pending bucket count' % s0.loc())
        if not hsh:
            bad.append('completion at %s does not adopt the pending hash function' % s0.loc())
        for h in hsh:
            ld = sw.get(h.o[0])
            if not sw.dominates(ld, s0):
                bad.append('the pending function is read after it was cleared')
    # no other writes of the current geometry in the sweep
    for s in sw.all_insts():
        if s.op == 'store' and fld(sw, s) in ('bucket.count', 'bucket.hash'):
            p = fld(sw, s)
            if not is_load_of(sw, s.o[0], p.replace('bucket.', 'bucket.rh.')):
                bad.append('%s is set to something other than the pending value at %s' % (p, s.loc()))
    if bad:
        rule.violation(site, '; '.join(sorted(set(bad))), floc(m, sw), {})
    else:
        rule.ok(site, 'count := rh.count, hash := rh.hash, then rh.hash := NULL', nulls[0].loc())


def check_resize_records(m, f, rule):
    pv = Prover(f)
    bad = []
    st_cnt = [s for s in f.all_insts() if s.op == 'store' and fld(f, s) == 'bucket.rh.count']
    st_hsh = [s for s in f.all_insts() if s.op == 'store' and fld(f, s) == 'bucket.rh.hash' and const_int(s.o[0]) != 0]
    st_cln = [s for s in f.all_insts() if s.op == 'store' and fld(f, s) == 'bucket.rh.clean']
    if not st_cnt or any(s.o[0] != '$1' for s in st_cnt):
        bad.append('the pending bucket count recorded is not the requested count')
    if not st_cln or any(const_int(s.o[0]) != 0 for s in st_cln):
        bad.append('the sweep index is not restarted at 0')
    if not st_hsh:
        bad.append('no pending hash function is recorded')
    # path-sensitive: what is recorded as the pending function, judged under what the path to the store knows
    def known_null_existing(ps):
        return any(op == 'eq' and y == 'null' and is_load_of(f, x, 'bucket.hash') for (op, x, y) in ps.known)

    local_table = []

    def transfer(ins, st, ps):
        if ins.op == 'call' and ins.x.get('noreturn'):
            return None
        if ins in st_hsh:
            v = typestate.value_of(f, ps, ins.o[0])
            v = strip_bitcasts(f, v) if isinstance(v, str) else v
            req_null = ps.knows(('eq', '$2', 'null')) is True
            req_nonnull = ps.knows(('ne', '$2', 'null')) is True
            vi = f.get(v) if isinstance(v, str) else None
            if v == '$2':
                if not req_nonnull:
                    bad.append('the requested function is recorded at %s without knowing it is non-NULL' % ins.loc())
            elif is_load_of(f, v, 'bucket.hash'):
                if not req_null or ps.knows(('ne', _k(v), 'null')) is not True:
                    bad.append('the existing function is reused at %s although a function was requested (or none exists)' % ins.loc())
                w = writer_between(f, f.get(v), ins, 'bucket.hash')
                if w is not None:
                    bad.append('the existing function recorded at %s was read at %s, before %s() at %s may adopt a pending one: a function '
                               'requested by an earlier, still pending resize is replaced by the outgoing one'
                               % (ins.loc(), f.get(v).loc(), w.callee, w.loc()))
            elif isinstance(v, str) and v.startswith('@'):
                if not req_null:
                    bad.append('the default function is installed at %s although a function was requested' % ins.loc())
                if not known_null_existing(ps):
                    bad.append('the default function replaces an existing one at %s' % ins.loc())
            elif vi is not None and vi.op in ('phi', 'select'):
                bad.append('NOT-DECIDED')
            elif vi is not None and vi.op == 'load' and isinstance(resolve_addr(f, vi.o[0]).root, str) \
                    and f.get(resolve_addr(f, vi.o[0]).root) is not None and f.get(resolve_addr(f, vi.o[0]).root).op == 'alloca':
                # picked out of a table of candidates the function built on its stack: which entry is not decided here
                local_table.append(ins)
            else:
                bad.append('the pending function recorded at %s is neither the request, the existing one nor the default' % ins.loc())
        return st
    try:
        res = typestate.run(f, 0, transfer, limit=100000)
    except typestate.Limit as e:
        rule.undecided('cstl_hash_resize:records', str(e), floc(m, f))
        return
    if 'NOT-DECIDED' in bad:
        bad = [b for b in bad if b != 'NOT-DECIDED']
        if not bad:
            rule.undecided('cstl_hash_resize:records', 'the recorded function is a merge the path knowledge does not resolve', floc(m, f))
            return
    if bad:
        rule.violation('cstl_hash_resize:records', '; '.join(sorted(set(bad))), floc(m, f), {})
    elif local_table:
        rule.ok('cstl_hash_resize:records', 'NOT DECIDED which function is recorded: it is read from a table of candidates built on the stack (%s); '
                'rh.count := request, rh.clean := 0' % local_table[0].loc(), floc(m, f))
    else:
        rule.ok('cstl_hash_resize:records', 'rh.count := request, rh.hash := request | existing | default, rh.clean := 0', floc(m, f))


def check_single_lookup(m, f, rule):
    rh_loads = [i for i in f.all_insts() if i.op == 'load' and fld(f, i) == 'bucket.rh.hash']
    # the table's state when the lookup was entered: the pending marker as first read (a later read, e.g. by a sweep
    # that checks for itself, says nothing about the state the lookup was called in)
    rh_loads = [L for L in rh_loads if all(f.dominates(L, M) for M in rh_loads)] or rh_loads
    bad = set()

    def transfer(ins, n, ps):
        if ins.op == 'call':
            if ins.x.get('noreturn'):
                return None
            if ins.callee is None and ins.x.get('fty') == 'i64 (i64, i64)':
                return min(n + 1, 3)      # saturating: loops on the pending path call it per relocated node
        elif ins.op == 'ret':
            notpending = any(ps.knows(('eq', L.ref, 'null')) is True for L in rh_loads)
            if notpending and n != 1:
                bad.add('%d hash-function call(s) on a path where no rehash is pending (return at %s)' % (n, ins.loc()))
        return n

    try:
        keep = {L.ref for L in rh_loads}
        res = typestate.run(f, 0, transfer, track=lambda r: r in keep, limit=100000)
    except typestate.Limit as e:
        rule.undecided(f.name, str(e), floc(m, f))
        return
    seen_np = False
    for ret, ps in res.exits:
        if any(ps.knows(('eq', L.ref, 'null')) is True for L in rh_loads):
            seen_np = True
    if not seen_np:
        rule.undecided(f.name, 'no exit path on which "no rehash pending" is known', floc(m, f))
    elif bad:
        rule.violation(f.name, '; '.join(sorted(bad)), floc(m, f), {})
    else:
        rule.ok(f.name, 'exactly one call on every not-pending exit (%d exit states)' % len(res.exits), floc(m, f))
