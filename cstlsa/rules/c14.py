"""C14 - array views never reach outside their buffer, which lives as long as any view (decided clauses).

A1 coupled view update   in every array entry point, on every path to a normal return on which the
        object's buffer pointer was re-targeted, both `off` and `len` were written too; and when the
        pointer ends NULL on the path, the last values written to `off` and `len` are 0 ("a failed
        allocation leaves the object empty").                    [path-sensitive typestate, inlined IR]
A2 allocation size       sizeof(descriptor) + nm * sz is proven non-wrapping.                [nw rule]
A3 slice guard           parameter-derived arithmetic in branch conditions and in the stored off/len is
        proven non-wrapping; the stores of the new off/len are dominated by beg <= end and by
        "off + end <= nm without wrap"; the failing edges abort.
A4 at                    returns only under i <u len, aborts only under len <=u i, and the element index
        is off + i.
A5 release               a non-NULL buffer is handed back only under descriptor != NULL, buffer external
        (buf != descriptor + 1) and cstl_shared_ptr_unique; the object is modified only in that region,
        where it is reset; otherwise NULL is reported.
A6 lifetime              array code never calls free / malloc itself (lifetime only through the shared
        pointer API); slice / unslice share exactly when the two objects differ.
NOT decided: history-level lifetime ("released exactly once") beyond C05's reference accounting.
"""
from .. import nw, typestate
from ..facts import Prover, edge_atoms, _k, strip_bitcasts
from ..ir import const_int, resolve_addr, mem_access, is_arg
from .c17 import abort_only
from .c09 import check_at
from .util import header_functions, floc

ARR = 'cstl_array_t'


def arr_field(f, a):
    """('off'|'len'|'ptr', root) if the address is a field of a cstl_array_t object"""
    if a.fsteps and a.fsteps[0][0] == ARR:
        if a.steps[0] in ('off', 'len'):
            return a.steps[0], a.root
        if a.steps[0] == 'ptr' and a.fsteps[-1] == ('cstl_guarded_ptr', 'ptr'):
            return 'ptr', a.root
    return None, None


def run(m, rep, tier):
    from .. import canaries
    canaries.run(m, rep, ('nw',))
    ents = {n: d for n, d in header_functions(m, ('array.h',)).items() if n.startswith('cstl_array_')}
    rep.extra['array_entry_points'] = sorted(ents)

    a1 = rep.rule('A1', 'buffer pointer, offset and length change together; a NULL pointer ends with off = len = 0', floor=8)
    for name in sorted(ents):
        f = m.ifn(name)
        if f is None:
            a1.undecided(name, 'not in the model')
            continue
        d = ents[name]
        objs = [k for k, (ty, _) in enumerate(d.params) if ARR in ty and '*' in ty and 'const' not in ty.split('*')[0]]
        for k in objs:
            check_coupled(m, f, k, d, a1)

    a2 = rep.rule('A2', 'allocation size of the array descriptor plus elements cannot wrap', floor=2)
    a3 = rep.rule('A3', 'slice arithmetic cannot wrap; new off/len stored only under beg <= end and off + end <= nm; else abort', floor=3)
    for name in sorted(ents):
        f = m.ifn(name)
        if f is None:
            continue
        nw.check_entry(f, a2)
        if 'slice' in name:
            nw.check_entry(f, a3, length_fields=('off', 'len'), compare=True, skip_alloc=True)
    f = m.ifn('cstl_array_slice')
    if f is None:
        a3.undecided('cstl_array_slice', 'not in the model')
    else:
        check_slice(m, f, a3)

    a4 = rep.rule('A4', 'cstl_array_at_const: returns under i < len, aborts only under len <= i, index is off + i', floor=2)
    f = m.ifn('cstl_array_at_const')
    if f is None:
        a4.undecided('cstl_array_at_const', 'not in the model')
    else:
        check_at(m, f, a4, 'len')
        check_at_index(m, f, a4)

    a7 = rep.rule('A7', 'alloc stores the very buffer address by which release recognises a library-owned buffer', floor=1)
    check_internal_buffer_agreement(m, a7)

    a5 = rep.rule('A5', 'release hands back only an external, uniquely referenced buffer and resets; otherwise NULL and no change', floor=1)
    f = m.focus('array').fn('cstl_array_release') if m.plain.get('array') is not None else None     # a private "detach" worker inlined
    if f is None or f.decl:
        a5.undecided('cstl_array_release', 'not in the model')
    else:
        check_release(m, f, a5)

    a6 = rep.rule('A6', 'array code never frees/allocates directly; slice/unslice share exactly when the objects differ', floor=3)
    for name in sorted(ents):
        f = m.pfn(name)
        if f is None:
            continue
        direct = [c for c in f.all_insts() if c.op == 'call' and c.callee in ('free', 'malloc', 'realloc', 'calloc')]
        if direct:
            a6.violation(name, 'array code calls %s directly at %s: the buffer lifetime must go through the shared pointer' % (direct[0].callee, direct[0].loc()), floc(m, f), {})
        else:
            a6.ok(name, 'no direct allocator/free call')
    fmod = m.focus('array')          # private helpers (a shared "refer to" worker) inlined into the public functions
    for name, src, dst in (('cstl_array_slice', '$0', '$3'), ('cstl_array_unslice', '$0', '$1')):
        f = fmod.fn(name)
        if f is None or f.decl:
            a6.undecided(name + ':share', 'not in the model')
            continue
        shares = list(f.calls('cstl_shared_ptr_share'))
        pv = Prover(f)
        bad = []
        if not shares:
            bad.append('the result object never shares the buffer')
        for c in shares:
            facts = pv.facts_at(c)
            if not (('ne', src, dst) in facts or ('ne', dst, src) in facts):
                bad.append('share at %s also runs when both arguments are the same object (sharing into itself resets the buffer first)' % c.loc())
            a0, a1_ = resolve_addr(f, c.o[0]), resolve_addr(f, c.o[1])
            if not (a0.root == src and a1_.root == dst and a0.steps[:1] == ('ptr',) and a1_.steps[:1] == ('ptr',)):
                bad.append('share at %s does not go from the source object to the result object' % c.loc())
        if bad:
            a6.violation(name + ':share', '; '.join(bad), floc(m, f), {})
        else:
            a6.ok(name + ':share', 'shares source -> result under a != s')

    # ---- A8: the NDEBUG build does what the assertion build does ---------------------------------
    from .util import check_assert_effects
    _ae = rep.rule('A8', 'every store / effectful call made with assertions enabled is also made by the NDEBUG build (no work inside assert())', floor=1)
    check_assert_effects(m, _ae, ('array.c', 'array.h'))

    # ---- A9: slice and unslice describe a view with the same members ---------------------------------
    # both make the destination object a view of the source's buffer: every member of the view object one of them
    # writes, the other must write too (a member added to the object and filled in by only one of them keeps a stale value)
    a9 = rep.rule('A9', 'slice and unslice write the same members of the destination view object', floor=1)
    fs_, fu_ = m.ifn('cstl_array_slice'), m.ifn('cstl_array_unslice')
    if fs_ is None or fu_ is None:
        a9.undecided('slice/unslice', 'not in the inlined model')
    else:
        def written(f, dst):
            out = set()
            for s2 in f.all_insts():
                if s2.op == 'store':
                    a = resolve_addr(f, s2.o[1])
                    if a.root == dst and a.steps:
                        out.add(a.steps[0])
            return out
        ws, wu = written(fs_, '$3'), written(fu_, '$1')
        if ws == wu and ws:
            a9.ok('slice/unslice', 'both write %s' % ', '.join(sorted(ws)))
        elif not ws or not wu:
            a9.undecided('slice/unslice', 'no member stores into the destination object found')
        else:
            only_s, only_u = sorted(ws - wu), sorted(wu - ws)
            a9.violation('slice/unslice', 'the two functions do not fill in the same members of the destination view: %s%s: the member keeps whatever the '
                         'destination object held before' % (('only slice writes ' + ', '.join(only_s)) if only_s else '',
                                                             ('; ' if only_s and only_u else '') + (('only unslice writes ' + ', '.join(only_u)) if only_u else '')),
                         floc(m, fu_ if only_s else fs_), {})

    # ---- A10: a descriptor is written only while nobody else can see it -------------------------------------------
    # the descriptor (element size, count, buffer) is shared by every view: its members are filled in right after it was
    # allocated, in the function that allocated it -- never on one that was found in the object
    a10 = rep.rule('A10', 'descriptor members (sz, nm, buf) are written only on a descriptor allocated by the same call', floor=1)
    amod = m.focus('array')
    n10 = 0
    for f in amod.defined():
        ws = [s2 for s2 in f.all_insts() if s2.op == 'store' and resolve_addr(f, s2.o[1]).fsteps[-1:] and resolve_addr(f, s2.o[1]).fsteps[-1][0] == 'cstl_raw_array']
        if not ws:
            continue
        n10 += 1
        allocs = [c for c in f.all_insts() if c.op == 'call' and c.callee in ('cstl_shared_ptr_alloc', 'cstl_array_alloc', 'malloc', 'calloc')]
        late = [s2 for s2 in ws if not any(f.dominates(c, s2) for c in allocs)]
        if late:
            a10.violation(f.name, 'the descriptor member %s is written at %s on a path that did not allocate the descriptor: other views share it and are '
                          'now measured with a geometry they were not created for' % (resolve_addr(f, late[0].o[1]).path, late[0].loc()), floc(m, f), {})
        else:
            a10.ok(f.name, '%d descriptor store(s), all after the allocation made by this call' % len(ws), floc(m, f))
    if n10 == 0:
        a10.undecided('array.c', 'no store into a descriptor found')


def check_coupled(m, f, k, d, rule):
    root = '$%d' % k
    pname = d.params[k][1] or root
    site = '%s(%s)' % (f.name, pname)
    # automaton state: (retargeted, last ptr value, off written, last off value, len written, last len value)
    init = (False, None, False, None, False, None)

    def transfer(ins, st, ps):
        if ins.op == 'store':
            fld, r = arr_field(f, resolve_addr(f, ins.o[1]))
            if r == root and fld:
                v = ps.lookup(_k(ins.o[0]))
                ret, pv_, ow, ov, lw, lv = st
                if fld == 'ptr':
                    return (True, v, ow, ov, lw, lv)
                if fld == 'off':
                    return (ret, pv_, True, v, lw, lv)
                if fld == 'len':
                    return (ret, pv_, ow, ov, True, v)
            else:
                # re-pointing the buffer descriptor itself (its buf / nm) re-targets every view of it just the same
                a2 = resolve_addr(f, ins.o[1])
                if a2.fsteps[-1:] in ((('cstl_raw_array', 'buf'),), (('cstl_raw_array', 'nm'),)):
                    ret, pv_, ow, ov, lw, lv = st
                    return (True, pv_, ow, ov, lw, lv)
        elif ins.op == 'call':
            if ins.x.get('noreturn'):
                return None
            cal = ins.callee or ''
            if cal.startswith('llvm.memcpy') or cal.startswith('llvm.memset'):
                a = resolve_addr(f, ins.o[0])
                if a.root == root:
                    return (True, 'memcpy', True, 'memcpy', True, 'memcpy')
        return st

    # store/load model for the guarded pointer slots of array objects (so that a re-read of the
    # buffer pointer is known to be what the path last stored or first read there)
    tm = typestate.with_memory(f, transfer, lambda a: a.fsteps[-1:] == (('cstl_guarded_ptr', 'ptr'),))
    try:
        res = typestate.run(f, (init, frozenset()), tm, track=lambda r: True, limit=200000)
    except typestate.Limit as e:
        rule.undecided(site, str(e), floc(m, f))
        return
    bad = set()
    for ret, ps in res.exits:
        retg, pv_, ow, ov, lw, lv = ps.auto[0]
        if isinstance(pv_, str):
            pv_ = ps.lookup(pv_)
        if not retg:
            continue
        if not ow:
            bad.add('a path to the return at %s re-targets the buffer pointer of `%s` but never writes its offset: the old view offset is '
                    'applied to the new buffer' % (ret.loc(), pname))
        if not lw:
            bad.add('a path to the return at %s re-targets the buffer pointer of `%s` but never writes its length' % (ret.loc(), pname))
        isnull = pv_ == 'null' or (isinstance(pv_, str) and ps.knows(('eq', pv_, 'null')) is True)
        if isnull:
            if lw and const_int(lv) != 0:
                bad.add('a path to the return at %s leaves `%s` with a NULL buffer but a length that is not 0' % (ret.loc(), pname))
            if ow and const_int(ov) != 0:
                bad.add('a path to the return at %s leaves `%s` with a NULL buffer but an offset that is not 0' % (ret.loc(), pname))
    if bad:
        rule.violation(site, '; '.join(sorted(bad)[:3]), floc(m, f), {'paths': len(res.exits)})
    else:
        rule.ok(site, '%d exit state(s); every re-targeting path writes off and len; NULL ends empty' % len(res.exits), floc(m, f))


def check_slice(m, f, rule):
    pv = Prover(f)
    stores = []
    for s in f.all_insts():
        if s.op == 'store':
            fld, r = arr_field(f, resolve_addr(f, s.o[1]))
            if fld in ('off', 'len') and r == '$3':
                stores.append((s, fld))
    if not stores:
        rule.violation('cstl_array_slice:guard', 'the slice never records its offset/length', floc(m, f), {})
        return
    offs = [i for i in f.all_insts() if i.op == 'load' and arr_field(f, resolve_addr(f, i.o[0])) == ('off', '$0')]
    nms = [i for i in f.all_insts() if i.op == 'load' and resolve_addr(f, i.o[0]).fsteps[-1:] == (('cstl_raw_array', 'nm'),)]
    bad = []
    for s, fld in stores:
        if not pv.prove_at(('ule', '$1', '$2'), s):
            bad.append('the store of the new %s at %s is reachable with end < beg' % (fld, s.loc()))
        inside = False
        facts = pv.facts_at(s)
        for o in offs:
            for nm in nms:
                # (a) off + end <= nm with the sum proven non-wrapping
                for i in f.all_insts():
                    if i.op == 'add' and {_k(i.o[0]), _k(i.o[1])} == {o.ref, '$2'}:
                        if ('ule', i.ref, nm.ref) in facts and pv.prove_at(('nwadd', o.ref, '$2'), i):
                            inside = True
                # (b) end <= nm and off <= nm - end
                if pv.entails(facts, ('ule', '$2', nm.ref)):
                    for i in f.all_insts():
                        if i.op == 'sub' and _k(i.o[0]) == nm.ref and _k(i.o[1]) == '$2' and ('ule', o.ref, i.ref) in facts:
                            inside = True
        if not inside:
            bad.append('the store of the new %s at %s is not dominated by a wrap-free proof of off + end <= nm (the slice could extend '
                       'past the underlying buffer)' % (fld, s.loc()))
    # failing edges abort: every 2-way branch on the guard conditions before the stores
    first = stores[0][0]
    for b in f.blocks:
        if len(b.succ) < 2 or not f.dominates_block(b, first.block):
            continue
        for sx in b.succ:
            if not f.dominates_block(sx, first.block) and first.block.idx not in {x.idx for x in f.reachable_from(sx)}:
                atoms, _ = edge_atoms(f, b, sx)
                mentions = any(x in ('$1', '$2') or y in ('$1', '$2') for _, x, y in atoms)
                if mentions and not abort_only(f, sx):
                    bad.append('a rejected range (%s -> %s) does not abort' % (b.name, sx.name))
    if bad:
        rule.violation('cstl_array_slice:guard', '; '.join(sorted(set(bad))[:4]), floc(m, f), {})
    else:
        rule.ok('cstl_array_slice:guard', '%d store(s) under beg <= end and off + end <= nm (wrap-free); rejected ranges abort' % len(stores), floc(m, f))


def check_at_index(m, f, rule):
    bad = []
    for r in f.returns():
        v = f.get(r.o[0]) if r.o else None
        ok = False
        if v is not None and v.op == 'inttoptr':
            s = f.get(v.o[0])
            if s is not None and s.op == 'add':
                for o in s.o:
                    mu = f.get(o)
                    if mu is not None and mu.op == 'mul':
                        for x in mu.o:
                            xi = f.get(x)
                            if xi is not None and xi.op == 'add':
                                ops = [f.get(y) if isinstance(y, str) else None for y in xi.o]
                                has_off = any(y is not None and y.op == 'load' and arr_field(f, resolve_addr(f, y.o[0])) == ('off', '$0') for y in ops)
                                has_i = '$1' in xi.o
                                if has_off and has_i:
                                    ok = True
        if not ok:
            bad.append('the address returned at %s is not element (off + i) of the buffer' % r.loc())
    if bad:
        rule.violation(f.name + ':index', '; '.join(bad), floc(m, f), {})
    else:
        rule.ok(f.name + ':index', 'returned address = buf + (off + i) * sz', floc(m, f))


def _descriptor_getter(m, name, depth=0):
    """cstl_shared_ptr_get[_const], or a private wrapper that returns what such a getter returns for its own argument"""
    if name in ('cstl_shared_ptr_get_const', 'cstl_shared_ptr_get'):
        return True
    g = m.pfn(name)
    if g is None or depth > 3 or len(g.args) != 1:
        return False
    rets = g.returns()
    if len(rets) != 1 or not rets[0].o:
        return False
    v = g.get(strip_bitcasts(g, rets[0].o[0]))
    return v is not None and v.op == 'call' and bool(v.callee) and _descriptor_getter(m, v.callee, depth + 1) \
        and resolve_addr(g, v.o[0]).root == '$0'


def check_internal_buffer_agreement(m, rule):
    """release tells a library-owned buffer from a caller-supplied one by comparing buf with the address right behind the
    descriptor; alloc must store exactly that address, or release hands out / frees part of the library's own block"""
    fr, fa = m.pfn('cstl_array_release'), m.ifn('cstl_array_alloc')
    if fr is None or fa is None:
        rule.undecided('alloc/release', 'functions not found')
        return

    def behind_descriptor(f, v):
        i = f.get(strip_bitcasts(f, v)) if isinstance(v, str) else None
        return i is not None and i.op == 'getelementptr' and i.x.get('path') and i.x['path'][0].get('idx') == '#1' and len(i.x['path']) == 1
    tests = False
    for i in fr.all_insts():
        if i.op == 'icmp' and i.pred in ('eq', 'ne') and any(behind_descriptor(fr, o) for o in i.o):
            tests = True
    stores = [s2 for s2 in fa.all_insts() if s2.op == 'store' and resolve_addr(fa, s2.o[1]).fsteps[-1:] == (('cstl_raw_array', 'buf'),)]
    if not tests or not stores:
        rule.ok('alloc/release', 'NOT DECIDED: release does not test buf against descriptor + 1, or alloc does not store buf')
        return
    bad = [s2 for s2 in stores if not behind_descriptor(fa, s2.o[0])]
    if bad:
        rule.violation('alloc/release', 'alloc stores a buffer pointer at %s that is not the address right behind the descriptor, which is what release '
                       'compares with to recognise a library-owned buffer: release would hand out (and reset) part of the library\'s own block'
                       % bad[0].loc(), floc(m, fa), {})
    else:
        rule.ok('alloc/release', 'alloc: buf := descriptor + 1; release: external iff buf != descriptor + 1', floc(m, fa))


def check_release(m, f, rule):
    pv = Prover(f)
    bad = []
    ras = [c for c in f.all_insts() if c.op == 'call' and c.callee and _descriptor_getter(m, c.callee)]
    uniq = [c for c in f.calls('cstl_shared_ptr_unique')]
    out_stores = [s for s in f.all_insts() if s.op == 'store' and resolve_addr(f, s.o[1]).root == '$1']
    if not out_stores:
        bad.append('the buffer is never reported through the out-parameter')

    def region_ok(at_ins, facts=None):
        facts = facts if facts is not None else pv.facts_at(at_ins)
        ra_ok = ext_ok = un_ok = False
        for (op, x, y) in facts:
            xi, yi = f.get(x), f.get(y)
            # descriptor != NULL
            for p, q in ((xi, y), (yi, x)):
                if op == 'ne' and q == 'null' and p is not None:
                    base = p
                    while base is not None and base.op == 'bitcast':
                        base = f.get(base.o[0])
                    if base in ras:
                        ra_ok = True
            # buf != ra + 1
            if op == 'ne':
                for p, q in ((xi, yi), (yi, xi)):
                    if p is not None and p.op == 'load' and resolve_addr(f, p.o[0]).fsteps[-1:] == (('cstl_raw_array', 'buf'),):
                        qq = q
                        while qq is not None and qq.op == 'bitcast':
                            qq = f.get(qq.o[0])
                        if qq is not None and qq.op == 'getelementptr' and qq.x.get('path') and qq.x['path'][0].get('idx') == '#1':
                            ext_ok = True
            # unique() returned true
            if op == 'ne' and y == '#0' and xi is not None:
                u = xi
                while u is not None and u.op in ('zext', 'trunc'):
                    u = f.get(u.o[0])
                if u in uniq:
                    un_ok = True
        # the uniqueness result may be branched on directly as i1
        for (op, x, y) in facts:
            if op == 'ne' and y == '#0' and f.get(x) in uniq:
                un_ok = True
        return ra_ok, ext_ok, un_ok

    n = 0
    from ..facts import phi_leaves
    for s in out_stores:
        for val, lb, efacts in phi_leaves(f, pv.fc, s.o[0]):
            if val == 'null':
                continue
            n += 1
            vi = f.get(val) if isinstance(val, str) else None
            at_ins = vi if vi is not None else s
            # the facts that matter are those of the path on which this value is the one reported (the phi's
            # incoming edge), not those at the place the buffer pointer happened to be loaded
            ra_ok, ext_ok, un_ok = region_ok(at_ins, efacts)
            miss = [t for t, ok in (('descriptor != NULL', ra_ok), ('buffer is external (buf != descriptor + 1)', ext_ok), ('cstl_shared_ptr_unique()', un_ok)) if not ok]
            if miss:
                bad.append('a non-NULL buffer is handed back without %s' % ' / '.join(miss))
            # what is handed back is the supplied buffer itself: the descriptor's buf field, not a pointer into it
            core = f.get(strip_bitcasts(f, val)) if isinstance(val, str) else None
            if core is None or core.op != 'load' or resolve_addr(f, core.o[0]).fsteps[-1:] != (('cstl_raw_array', 'buf'),):
                bad.append('the pointer handed back at %s is not the descriptor\'s buffer pointer itself (%s): the caller cannot free or reuse '
                           'the buffer it supplied' % (s.loc(), nw.describe(f, val) if isinstance(val, str) else val))
            # the object must be reset in that region
            resets = [c for c in f.all_insts() if c.op == 'call' and c.callee in ('cstl_array_reset', 'cstl_shared_ptr_reset') and resolve_addr(f, c.o[0]).root == '$0'
                      and (f.dominates_block(c.block, lb) if lb is not None else (vi is not None and f.dominates(vi, c)))]
            if not resets:
                bad.append('the object keeps referring to the buffer after handing it back (no reset)')
    # modifications of the object only in the full region
    for c in f.all_insts():
        touches = False
        if c.op == 'call' and c.callee in ('cstl_array_reset', 'cstl_shared_ptr_reset', 'cstl_array_init', 'cstl_shared_ptr_init') and c.o and resolve_addr(f, c.o[0]).root == '$0':
            touches = True
        if c.op == 'store' and resolve_addr(f, c.o[1]).root == '$0':
            touches = True
        if touches and not all(region_ok(c)):
            bad.append('the object is modified at %s although the buffer is not being handed back' % c.loc())
    if n == 0:
        bad.append('release never reports a buffer')
    if bad:
        rule.violation(f.name, '; '.join(sorted(set(bad))[:4]), floc(m, f), {})
    else:
        rule.ok(f.name, 'buffer handed back only under descriptor/external/unique; object reset there; NULL otherwise', floc(m, f))
