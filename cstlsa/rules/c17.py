"""C17 - bucket selection is fail-stop (decided: the fail-stop clause and cstl_hash_div's range).

B1 checked result   for every call through a hash-function pointer (type size_t(size_t,size_t)) in
                    library code, with result r and table-size argument m: every use of r other than
                    the range comparison itself is dominated by the fact r <u m (same SSA value m that
                    was passed to the hash), and the edge on which r >=u m holds leads only to a
                    noreturn call without touching memory.                    [DF: dominating facts]
B2 coverage         insert / find / erase (whole-library inlined view) each contain such a checked call
                    on every path to the bucket subscript: every variable subscript of the bucket array
                    in those entry points is a checked hash result or a sweep index below the count.
B3 division hash    cstl_hash_div returns `urem k, m`: in [0, m) for every m >= 1 by the instruction's
                    semantics.
NOT decided: cstl_hash_mul in [0, m) -- a statement about single-precision rounding (DESIGN.md 4/C17).
"""
from ..facts import Prover, _k
from ..ir import const_int, resolve_addr
from ..hashmodel import same_value_loads, reaching_store_value

HASH_FTY = 'i64 (i64, i64)'


def hash_calls(fn):
    return [i for i in fn.all_insts() if i.op == 'call' and i.callee is None and i.x.get('fty') == HASH_FTY]


def abort_only(fn, block):
    """every path from block ends in `unreachable` and no instruction on the way writes memory
    or calls anything but a noreturn function"""
    seen = set()
    stack = [block]
    while stack:
        b = stack.pop()
        if b.idx in seen:
            continue
        seen.add(b.idx)
        for i in b.insts:
            if i.op in ('store', 'atomicrmw', 'cmpxchg', 'ret'):
                return False
            if i.op == 'call' and not i.x.get('noreturn') and not i.is_intrinsic():
                return False
        if not b.succ and b.term.op != 'unreachable':
            return False
        stack.extend(b.succ)
    return True


def check_call(fn, call, rule):
    r = call.ref
    m = _k(call.o[1])
    site = '%s@%s' % (call.srcfn, fn.name)
    pv = Prover(fn)
    bad = []
    guards = 0
    for u in fn.users(r):
        if u.op == 'icmp' and {_k(u.o[0]), _k(u.o[1])} == {r, m}:
            # the range comparison: its "out of range" edge must abort
            for br in fn.users(u.ref):
                if br.op != 'br' or not br.o:
                    continue
                guards += 1
                for s in br.x['succ']:
                    sb = fn.bb[s]
                    from ..facts import edge_atoms
                    atoms, _ = edge_atoms(fn, br.block, sb)
                    inrange = ('ult', r, m) in atoms
                    if not inrange and not abort_only(fn, sb):
                        bad.append('the edge taken when the hash result is >= the table size (%s -> %s) does not lead to abort()' % (br.block.name, s))
            continue
        if u.op == 'phi':
            # a merge uses the value at the end of the block it comes from
            if all(('ult', r, m) in pv.fc.edge_facts(fn.bb[bb], u.block) or pv.prove_at(('ult', r, m), fn.bb[bb].term)
                   for v_, bb in zip(u.o, u.x['bb']) if v_ == r):
                continue
        if not pv.prove_at(('ult', r, m), u):
            bad.append('use of the hash result at %s (%s) is not dominated by the range check `result < %s`' % (u.loc(), u.op, fn.vname(call.o[1])))
    if guards == 0 and not bad:
        bad.append('the hash result is never compared with the table size it was computed for')
    if bad:
        rule.violation(site, '; '.join(bad), call.loc(), {'call': repr(call), 'function': fn.name, 'm': m})
    else:
        rule.ok(site, 'all %d use(s) of the result dominated by result <u %s; out-of-range edge aborts' % (len(fn.users(r)), fn.vname(call.o[1])), call.loc())


def run(m, rep, tier):
    b1 = rep.rule('B1', 'every call through a hash-function pointer has its result range-checked against the same m before any use; else abort', floor=1)
    for f in m.all_plain_functions():
        for c in hash_calls(f):
            check_call(f, c, b1)

    b2 = rep.rule('B2', 'keyed entry points subscript the bucket array only with checked hash results (or sweep indexes below the count)', floor=3)
    for name in ('cstl_hash_insert', 'cstl_hash_find', 'cstl_hash_erase'):
        f = m.ifn(name)
        if f is None:
            b2.undecided(name, 'entry point not found in the model')
            continue
        calls = hash_calls(f)
        for c in calls:
            check_call(f, c, b1)
        checked = {c.ref for c in calls}
        pv = Prover(f)
        bad = []
        notes = []
        nsub = 0
        for g in f.all_insts():
            if g.op != 'getelementptr':
                continue
            path = g.x.get('path', [])
            if not path or 'idx' not in path[0]:
                continue
            base = f.get(g.o[0])
            if base is None or base.op != 'load':
                continue
            a = resolve_addr(f, base.o[0])
            if a.path != 'bucket.at':
                continue
            nsub += 1
            idx = path[0]['idx']
            if idx in checked:
                continue
            # an index carried through merges (the lookup converts to a bucket once at the end): every alternative is a checked result
            from ..treewalk import _leaves
            lv = [x for x in _leaves(f, idx)]
            if lv and all(x in checked for x in lv):
                continue
            # sweep index: must be proven below a bucket count loaded from the table
            def below(facts, pred=None):
                ii = f.get(idx) if isinstance(idx, str) else None
                stored = reaching_store_value(f, ii, pred) if (ii is not None and ii.op == 'load') else None
                for (op, x, y) in facts:
                    if op == 'ult' and (x == idx or same_value_loads(f, x, idx) or (stored is not None and x == stored)):
                        yi = f.get(y)
                        if yi is not None and yi.op == 'load' and resolve_addr(f, yi.o[0]).path in ('bucket.count', 'bucket.rh.count'):
                            return True
                return False
            ok = below(pv.fc.block_facts(g.block))
            if not ok and len(g.block.pred) >= 2:
                # a do/while body: entered from its guard and from its own loop test, each with its own reads of the index
                ok = all(below(pv.fc.edge_facts(p, g.block), p) for p in g.block.pred)
            if not ok:
                # is the cursor compared with a bucket count at all on the way here?  If so the bound may rest on a loop
                # invariant this rule does not derive (a trip count min(count - cursor, quota)): no verdict
                ii = f.get(idx) if isinstance(idx, str) else None
                loc_key = resolve_addr(f, ii.o[0]).key() if (ii is not None and ii.op == 'load') else None
                related = False
                from ..facts import edge_atoms
                cands = list(pv.fc.block_facts(g.block))
                for b0 in f.blocks:
                    if len(b0.succ) >= 2 and g.block in f.reachable_from(b0):
                        for sx in b0.succ:
                            cands += list(edge_atoms(f, b0, sx)[0])
                for (op, x, y) in cands:
                    if op not in ('ult', 'ule'):
                        continue
                    xi, yi = f.get(x) if isinstance(x, str) else None, f.get(y) if isinstance(y, str) else None
                    if xi is not None and xi.op == 'load' and loc_key is not None and resolve_addr(f, xi.o[0]).key() == loc_key \
                            and yi is not None and yi.op == 'load' and resolve_addr(f, yi.o[0]).path in ('bucket.count', 'bucket.rh.count'):
                        related = True
                if related:
                    notes.append('NOT DECIDED: subscript at %s (the cursor is compared with the bucket count earlier, the bound inside the loop is not derived)' % g.loc())
                    continue
                bad.append('bucket array subscript at %s uses %s, which is neither a checked hash result nor below a bucket count' % (g.loc(), f.vname(idx)))
        if not calls:
            bad.append('no call through a hash-function pointer reaches this entry point')
        if bad:
            b2.violation(name, '; '.join(bad), '%s:%d' % (f.file.replace(m.repo + '/', ''), f.line), {'subscripts': nsub})
        else:
            b2.ok(name, ('%d bucket subscripts, %d checked hash calls' % (nsub, len(calls))) + ('; ' + '; '.join(notes[:2]) if notes else ''))

    b3 = rep.rule('B3', 'cstl_hash_div returns urem(k, m)', floor=1)
    f = m.pfn('cstl_hash_div')
    if f is None:
        b3.undecided('cstl_hash_div', 'function not found')
    else:
        rets = f.returns()
        ok = len(rets) == 1
        if ok:
            v = f.get(rets[0].o[0]) if rets[0].o else None
            ok = v is not None and v.op == 'urem' and v.o == ['$0', '$1']
        if ok:
            b3.ok('cstl_hash_div', 'ret (urem k, m)', rets[0].loc())
        else:
            b3.undecided('cstl_hash_div', 'body is no longer `k % m`; range of the new expression is not decided by this rule',
                         '%s:%d' % (f.file, f.line))
    rep.assumptions += ['cstl_hash_mul range (float rounding) is not decided', 'calls through pointers are matched by function type %s' % HASH_FTY]
