"""C15 - clear hands over each element exactly once and never touches it again.

K1 no touch after hand-off   after the caller's callback received an element nothing is read or written
        through the node that element was derived from (its successor / children are already in locals):
        slist clear, dlist clear (the node is unlinked before the call), the tree walker (visits with order
        POST or LEAF hand off the node, a recursive call hands off the child), the tree clear adapter,
        the map clear adapter (the library-owned map node is freed after the callback, which only sees a
        detached iterator), the hash clear adapter.
K2 exactly one hand-off      tree: the walker's protocol gives every node exactly one LEAF or POST visit on the
        all-zero path (treewalk), the clear adapter calls the callback exactly for POST / LEAF and returns 0
        for every order, so the walk never stops early.  Lists: the one callback site dominates the loop's
        back edge (every iteration hands off exactly once).
K3 restored state           trees (rbtree, heap and map reach it through their wrappers): every return of
        cstl_bintree_clear is under `root == NULL` already, or dominated by root := NULL and size := 0;
        slist: the initialiser's stores (h.n := NULL, t := &h, count := 0) dominate the return; dlist: a drain
        loop that exits only under size == 0 and unlinks exactly one node per iteration through the
        size-decrementing primitive.
"""
from .. import astfacts, listrules, treewalk, typestate
from ..facts import Prover, FactCache, _k, strip_bitcasts
from ..ir import const_int, resolve_addr, unit_step
from .util import floc

XTOR_FTY = 'void (i8*, i8*)'


def touches_after(f, call, node):
    """like listrules.touches_after, but a node that is (re)loaded by an instruction stops being the
    handed-off instance when that instruction executes again"""
    bad = listrules.touches_after(f, call, node)
    ni = f.get(node) if isinstance(node, str) else None
    if ni is None or ni.op == 'phi':
        return bad
    # drop accesses that can only execute after the defining instruction ran again
    keep = []
    for b in bad:
        if _reaches_without(f, call, b, ni):
            keep.append(b)
    return keep


def _reaches_without(f, a, b, barrier):
    """b reachable after a without executing `barrier`"""
    if a.block is b.block and b.pos > a.pos:
        if not (barrier.block is a.block and a.pos < barrier.pos < b.pos):
            return True
    seen = set()
    st = [(s, -1) for s in a.block.succ] if not (barrier.block is a.block and barrier.pos > a.pos) else []
    while st:
        blk, _ = st.pop()
        if blk.idx in seen:
            continue
        seen.add(blk.idx)
        if blk is b.block:
            if not (barrier.block is blk and barrier.pos < b.pos):
                return True
        if barrier.block is blk:
            continue
        st.extend((s, -1) for s in blk.succ)
    return False


def run(m, rep, tier):
    from .. import canaries
    canaries.run(m, rep, ('handoff',))
    orders = {k.replace('CSTL_BINTREE_VISIT_ORDER_', ''): v for k, v in astfacts.enum_constants(m).items() if k.startswith('CSTL_BINTREE_VISIT_ORDER_')}
    k1 = rep.rule('K1', 'no access through a node after it was handed to the callback', floor=6)
    k2 = rep.rule('K2', 'every element is handed over exactly once', floor=5)
    k3 = rep.rule('K3', 'clear leaves the container in its initial state', floor=4)

    # ---- lists -----------------------------------------------------------------------
    for name, primitive_struct in (('cstl_slist_clear', None), ('cstl_dlist_clear', None)):
        f = m.ifn(name)
        if f is None:
            k1.undecided(name, 'not in the model')
            continue
        calls = [c for c in f.all_insts() if c.op == 'call' and c.callee is None and c.x.get('cv') == '$1']
        if not calls:
            k1.undecided(name, 'the callback call was not found')
            continue
        for c in calls:
            node = listrules.handed_node(f, c.o[0])
            if node is None:
                k1.undecided(name, 'the element handed to the callback is not derived from a node', c.loc())
                continue
            bad = touches_after(f, c, node)
            if bad:
                k1.violation(name, 'after the callback at %s the list still accesses the element\'s node (%s): the callback may have freed it'
                             % (c.loc(), ', '.join(b.loc() for b in bad[:2])), c.loc(), {})
            else:
                k1.ok(name, 'successor / unlink done before the callback; nothing through the node afterwards', c.loc())
        # K2: one site, dominating every back edge
        latches = [(p, b) for b in f.blocks for p in b.pred if f.dominates_block(b, p)]
        if len(calls) == 1 and latches and all(f.dominates_block(calls[0].block, p) for p, _ in latches):
            k2.ok(name, 'one callback site; it dominates the loop back edge')
        else:
            k2.violation(name, 'the callback is not invoked exactly once per loop iteration (%d site(s))' % len(calls), floc(m, f), {})

    # ---- tree walker -------------------------------------------------------------------
    w = treewalk.find_walker(m)
    if w is None or len(orders) != 4:
        k1.undecided('tree-walker', 'the recursive tree walker / the visit-order enumerators were not found')
    else:
        problems, info = treewalk.analyse(m, w, orders)
        if problems:
            k2.violation('tree-walker:protocol', '; '.join(sorted(problems)[:3]), floc(m, w), info)
        else:
            k2.ok('tree-walker:protocol', 'LEAF xor (PRE .. MID .. POST) per node on %d all-zero path(s); early stop propagated' % info.get('all_zero_paths', 0), floc(m, w))
        check_walker_handoff(m, w, orders, k1)
        # children captured before any visit
        first_visit = [c for c in w.all_insts() if c.op == 'call' and c.callee is None and c.x.get('cv') == '$1']
        sels = [c for c in w.all_insts() if c.op == 'call' and c.callee is None and c.x.get('cv') in ('$3', '$4')]
        if sels and all(all(w.dominates(s, v) for v in first_visit) for s in sels):
            k1.ok('tree-walker:children-first', 'both children are read before the first visit')
        else:
            k1.violation('tree-walker:children-first', 'a child pointer is read after a visit of the node could already have run', floc(m, w), {})

    # ---- tree clear adapter ---------------------------------------------------------------
    clr_f = m.ifn('cstl_bintree_clear')
    adapter = None
    if clr_f is not None:
        pclr = m.pfn('cstl_bintree_clear')
        for st in (treewalk.walker_calls(m, pclr, w) if w is not None else []):
            kind, *val = st.args[1]
            if kind == 'v' and isinstance(val[0], str) and val[0].startswith('@'):
                adapter = m.ifn(val[0][1:])
    if adapter is None:
        k2.undecided('tree-clear-adapter', 'the visit adapter passed by cstl_bintree_clear to the walker was not found')
    else:
        check_adapter(m, adapter, orders, k1, k2)

    # ---- map / hash adapters ----------------------------------------------------------------
    check_map_adapter(m, k1, k2)
    f = m.ifn('cstl_hash_clear_visit') or _hash_clear_adapter(m)
    adapter_ok = None
    if f is not None:
        calls = [c for c in f.all_insts() if c.op == 'call' and c.callee is None and c.x.get('fty') == XTOR_FTY]
        bad = []
        for c in calls:
            bad += touches_after(f, c, '$0')
        rets_zero = all(r.o and const_int(r.o[0]) == 0 for r in f.returns())
        adapter_ok = len(calls) == 1 and not bad and rets_zero and all(f.dominates(calls[0], r) for r in f.returns())
    if adapter_ok:
        k1.ok('hash-clear-adapter', 'calls the callback once, returns 0, never touches the element')
    else:
        # no adapter of that shape (clear walks the chains itself, or shares one adapter with foreach_const): judged on
        # clear's own inlined body -- every call through the caller's callback, and what happens to the node afterwards
        from . import c04
        hf = m.ifn('cstl_hash_clear')
        calls = [c for c in hf.all_insts() if c.op == 'call' and c.callee is None and c.x.get('cv') == '$1'] if hf is not None else []
        if not calls:
            if f is None:
                k1.undecided('hash-clear-adapter', 'not found, and cstl_hash_clear does not call the callback itself')
            else:
                k1.violation('hash-clear-adapter', 'the hash clear adapter does not call the callback exactly once and return 0 without touching the element', floc(m, f), {})
        else:
            bad = []
            for c in calls:
                node = c04.handed_node(hf, c.o[0]) if c.o else None
                if node is None:
                    bad.append('the callback at %s is not handed an element computed from a chain node' % c.loc())
                else:
                    bad += ['the node is accessed at %s after its element was handed to the callback at %s' % (b_.loc(), c.loc())
                            for b_ in c04.no_touch_after_handoff(hf, c, node)]
            if bad:
                k1.violation('hash-clear-adapter', '; '.join(sorted(set(bad))[:2]), floc(m, hf), {})
            else:
                k1.ok('hash-clear-adapter', 'judged on clear\'s inlined body: %d call(s) through the callback, the node is not touched afterwards' % len(calls), floc(m, hf))

    # ---- K3 ----------------------------------------------------------------------------------
    check_restored(m, k3)


def check_walker_handoff(m, w, orders, k1):
    """path-sensitive: once a node was handed off (its POST / LEAF visit, or the recursion into a child)
    nothing on the rest of the path may use it"""
    last_orders = (orders.get('POST'), orders.get('LEAF'))
    found = {}
    sites = {}

    def uses(ins, handed):
        out = []
        ptr = None
        if ins.op == 'load':
            ptr = ins.o[0]
        elif ins.op == 'store':
            ptr = ins.o[1]
        if ptr is not None:
            a = resolve_addr(w, ptr)
            for h in handed:
                if a.root == h or listrules.derived_from(w, a.root, h):
                    out.append(h)
        if ins.op == 'call':
            for o in ins.o:
                o2 = strip_bitcasts(w, o) if isinstance(o, str) else o
                if o2 in handed:
                    out.append(o2)
        return out

    def transfer(ins, handed, ps):
        if ins.op == 'call' and ins.x.get('noreturn'):
            return None
        for h in uses(ins, handed):
            found.setdefault(h, set()).add(ins.loc())
        if ins.op == 'call':
            if ins.callee is None and ins.x.get('cv') == '$1' and const_int(ins.o[1]) in last_orders:
                sites['tree-walker:%s' % ('POST' if const_int(ins.o[1]) == orders.get('POST') else 'LEAF')] = ('$0', ins)
                return handed | {'$0'}
            if ins.callee == w.name:
                child = strip_bitcasts(w, ins.o[0])
                which = treewalk.child_origin(w, child, '$3', '$4') or 'child'
                sites['tree-walker:rec-%s' % which] = (child, ins)
                return handed | {child}
        return handed

    try:
        typestate.run(w, frozenset(), transfer, limit=200000)
    except typestate.Limit as e:
        k1.undecided('tree-walker', str(e))
        return
    if not sites:
        k1.undecided('tree-walker', 'no hand-off event found in the walker')
    for site, (node, ins) in sorted(sites.items()):
        if node in found:
            what = 'its last visit' if node == '$0' else 'the recursion into it'
            k1.violation(site, 'after %s the walker still uses the node at %s: the clear callback may have freed it' % (what, sorted(found[node])[0]), ins.loc(), {})
        else:
            k1.ok(site, 'nothing uses the node on any feasible path after the hand-off', ins.loc())


def _hash_clear_adapter(m):
    pf = m.pfn('cstl_hash_clear')
    if pf is None:
        return None
    for c in pf.all_insts():
        if c.op == 'call':
            for o in c.o:
                if isinstance(o, str) and o.startswith('@') and m.ifn(o[1:]) is not None:
                    return m.ifn(o[1:])
    return None


def check_adapter(m, f, orders, k1, k2):
    """adapter(node, order, priv): calls the callback iff order in {POST, LEAF}, once, returns 0 always"""
    site = 'tree-clear-adapter'
    problems = []
    for name, val in sorted(orders.items()):
        cnt = []

        def transfer(ins, n, ps):
            if ins.op == 'call':
                if ins.x.get('noreturn'):
                    return None
                if ins.callee is None and ins.x.get('fty') in (XTOR_FTY, 'i32 (i8*, i8*)'):
                    return min(n + 1, 3)
            return n
        try:
            res = typestate.run(f, 0, transfer, init_known=frozenset({('eq', '$1', '#%d' % val)}), limit=20000)
        except typestate.Limit as e:
            k2.undecided(site, str(e))
            return
        want = 1 if name in ('POST', 'LEAF') else 0
        for ret, ps in res.exits:
            if ps.auto != want:
                problems.append('for visit order %s the callback is invoked %d time(s) instead of %d' % (name, ps.auto, want))
            rv = ps.lookup(_k(ret.o[0])) if ret.o else None
            if const_int(rv) != 0:
                problems.append('for visit order %s the adapter returns %s, which would stop the walk before every element was handed over' % (name, rv))
        if not res.exits:
            problems.append('no return reached for order %s' % name)
    if problems:
        k2.violation(site, '; '.join(sorted(set(problems))[:3]), floc(m, f), {})
    else:
        k2.ok(site, 'callback exactly for POST / LEAF; returns 0 for all four orders', floc(m, f))
    calls = [c for c in f.all_insts() if c.op == 'call' and c.callee is None and c.x.get('fty') in (XTOR_FTY, 'i32 (i8*, i8*)')]
    bad = []
    for c in calls:
        bad += touches_after(f, c, '$0')
    if bad:
        k1.violation(site, 'the adapter accesses the node after the callback at %s' % bad[0].loc(), floc(m, f), {})
    else:
        k1.ok(site, 'no access through the node after the callback', floc(m, f))


def check_map_adapter(m, k1, k2):
    pf = m.pfn('cstl_map_clear')
    f = None
    if pf is not None:
        for c in pf.all_insts():
            if c.op == 'call':
                for o in c.o:
                    if isinstance(o, str) and o.startswith('@') and m.ifn(o[1:]) is not None:
                        f = m.ifn(o[1:])
    site = 'map-clear-adapter'
    if f is None:
        k1.undecided(site, 'the per-node function cstl_map_clear passes to the tree clear was not found')
        return
    bad = []
    calls = [c for c in f.all_insts() if c.op == 'call' and c.callee is None and c.x.get('fty') == XTOR_FTY]
    frees = [c for c in f.calls('free')]
    for c in calls:
        # the callback must see a detached iterator: `_` := NULL stored before the call
        det = [s for s in f.all_insts() if s.op == 'store' and const_int(s.o[0]) == 0 and resolve_addr(f, s.o[1]).fsteps[-1:] == (('cstl_map_iterator_t', '_'),)
               and f.dominates(s, c)]
        # after SROA the iterator may be passed as a fresh local: accept a local alloca argument whose `_` slot got NULL
        if not det:
            bad.append('the iterator handed to the callback at %s is not detached (`_` not cleared): the callback could erase through it' % c.loc())
        for t in touches_after(f, c, '$0'):
            bad.append('the map node is read or written at %s after the user callback' % t.loc())
        if strip_bitcasts(f, c.o[0]) == '$0':
            bad.append('the callback is handed the library-owned map node itself')
    if not frees or not all(any(f.dominates(fr, r) for fr in frees) for r in f.returns()):
        bad.append('the map node is not freed on every path')
    for fr in frees:
        if strip_bitcasts(f, fr.o[0]) != '$0':
            bad.append('something other than the map node is freed at %s' % fr.loc())
        for c in calls:
            if f.dominates(fr, c):
                bad.append('the map node is freed before the user callback ran')
    if bad:
        k1.violation(site, '; '.join(sorted(set(bad))[:3]), floc(m, f), {})
    else:
        k1.ok(site, 'callback sees a detached iterator; node freed afterwards on every path; not touched in between', floc(m, f))
    # path-sensitive: the callback runs exactly once per node unless the caller passed none
    skipped = []
    if len(calls) == 1:
        cv = calls[0].x.get('cv')
        cvi = f.get(cv) if isinstance(cv, str) else None
        same = set()
        if cvi is not None and cvi.op == 'load':
            key = resolve_addr(f, cvi.o[0])
            for ld in f.all_insts():
                if ld.op == 'load':
                    a2 = resolve_addr(f, ld.o[0])
                    if a2.fsteps and a2.fsteps == key.fsteps and strip_bitcasts(f, a2.root) == strip_bitcasts(f, key.root):
                        same.add(ld.ref)

        def transfer(ins, n, ps):
            if ins.op == 'call' and ins.x.get('noreturn'):
                return None
            if ins is calls[0]:
                return min(n + 1, 2)
            return n
        try:
            res = typestate.run(f, 0, transfer, limit=20000)
            for r, ps in res.exits:
                st = [ps.knows(('ne', _k(x), 'null')) for x in same]
                nonnull = any(x is True for x in st)
                isnull = any(x is False for x in st)
                if ps.auto == 0 and not isnull:
                    skipped.append('a path to the return at %s frees the node without handing the entry to the caller\'s callback although a callback '
                                   'was supplied (the callback is skipped on a condition other than callback == NULL)' % r.loc())
                if ps.auto > 1:
                    skipped.append('the callback can run %d times for one node' % ps.auto)
        except typestate.Limit:
            pass
    if skipped:
        k2.violation(site, '; '.join(sorted(set(skipped))[:2]), floc(m, f), {})
    elif len(frees) == 1 and len(calls) <= 1:
        k2.ok(site, 'one callback site, one free; the callback runs on every path on which one was supplied')
    else:
        k2.violation(site, '%d callback site(s) and %d free(s) per node' % (len(calls), len(frees)), floc(m, f), {})


def check_restored(m, k3):
    # trees
    f = m.ifn('cstl_bintree_clear')
    if f is None:
        k3.undecided('cstl_bintree_clear', 'not in the model')
    else:
        bad = []
        # path-sensitive: per path to a return, (root := NULL seen, size := 0 seen); knowledge is kept about the
        # tree's own fields and the flags merging them (clang's cleanup-destination phi included)
        rel = set()
        changed = True
        while changed:
            changed = False
            for i in f.all_insts():
                if i.ref in rel:
                    continue
                add = False
                if i.op == 'load':
                    a = resolve_addr(f, i.o[0])
                    add = a.root == '$0' and a.fsteps[-1:] and a.fsteps[-1][0] == 'cstl_bintree'
                elif i.op in ('bitcast', 'zext', 'trunc'):
                    add = i.o[0] in rel
                elif i.op == 'phi':
                    add = all(o in rel or const_int(o) is not None or o in ('null', 'undef', 'true', 'false') for o in i.o)
                elif i.op == 'icmp':
                    add = any(o in rel for o in i.o)
                if add:
                    rel.add(i.ref)
                    changed = True

        foreign = []

        def transfer(ins, st, ps):
            if ins.op == 'store':
                fs = resolve_addr(f, ins.o[1])
                if fs.root == '$0' and fs.fsteps[:1] and fs.fsteps[0][0] == 'cstl_bintree' and fs.fsteps[0][1] not in ('root', 'size'):
                    # anything else of the tree object (offset, comparison function and its context) must survive clear
                    v = f.get(strip_bitcasts(f, ins.o[0])) if isinstance(ins.o[0], str) else None
                    same = v is not None and v.op == 'load' and resolve_addr(f, v.o[0]).root == '$0' and resolve_addr(f, v.o[0]).fsteps == fs.fsteps
                    if not same:
                        foreign.append('%s is overwritten at %s with something other than its own value' % ('.'.join(fs.steps), ins.loc()))
                if fs.root == '$0' and fs.fsteps[-1:] == (('cstl_bintree', 'root'),):
                    z = ins.o[0] == 'null' or const_int(ins.o[0]) == 0
                    return (z, st[1], st[2] or not z)
                if fs.root == '$0' and fs.fsteps[-1:] == (('cstl_bintree', 'size'),):
                    return (st[0], const_int(ins.o[0]) == 0, st[2] or const_int(ins.o[0]) != 0)
            return st
        try:
            res = typestate.run(f, (False, False, False), transfer, track=lambda r: r in rel, limit=100000)
        except typestate.Limit as e:
            k3.undecided('cstl_bintree_clear', str(e), floc(m, f))
            res = None
        if res is not None and not res.exits:
            k3.undecided('cstl_bintree_clear', 'no return reached', floc(m, f))
            res = None
        for r, ps in (res.exits if res is not None else []):
            empty = any(op == 'eq' and y == 'null' and _is_field_load(f, x, 'cstl_bintree', 'root') for (op, x, y) in ps.known)
            if not ((empty and not ps.auto[2]) or ps.auto[:2] == (True, True)):
                what = 'neither finds the tree empty nor resets root := NULL and size := 0'
                if ps.auto[0] != ps.auto[1]:
                    what = 'resets only %s' % ('the root (size keeps counting the elements handed over)' if ps.auto[0] else 'the size (root still points at handed-over nodes)')
                bad.append('a path to the return at %s %s' % (r.loc(), what))
        if res is not None and foreign:
            bad.append('clear changes more than the contents: %s (a cleared tree must be usable exactly like before, with its own comparison '
                       'function, context and offset)' % '; '.join(sorted(set(foreign))[:2]))
        if res is None:
            pass
        elif bad:
            k3.violation('cstl_bintree_clear', '; '.join(sorted(set(bad))[:3]), floc(m, f), {})
        else:
            k3.ok('cstl_bintree_clear', 'every return is under root == NULL or after root := NULL, size := 0 (%d exit state(s))' % len(res.exits), floc(m, f))
    for wrapper in ('cstl_rbtree_clear', 'cstl_heap_clear', 'cstl_map_clear'):
        pf = m.pfn(wrapper)
        if pf is None:
            k3.undecided(wrapper, 'not in the model')
            continue
        ok = _reaches_call(m, pf, 'cstl_bintree_clear', 3)
        stores = [s for s in pf.all_insts() if s.op == 'store' and resolve_addr(pf, s.o[1]).root == '$0']
        # ... nor through another function it hands the container to (re-initialising it "as it was after init")
        for c in pf.all_insts():
            if c.op != 'call' or not c.callee or c.is_intrinsic() or c.callee == 'cstl_bintree_clear':
                continue
            g = m.pfn(c.callee)
            if g is None or _reaches_call(m, g, 'cstl_bintree_clear', 3):
                continue
            hands = [k for k, o in enumerate(c.o) if isinstance(o, str) and resolve_addr(pf, o).root == '$0']
            from .util import writes_through_param
            if hands and any(writes_through_param(m, g, k) for k in hands):
                stores.append(c)
        if ok and not stores:
            k3.ok(wrapper, 'delegates to cstl_bintree_clear and changes nothing else in the container')
        elif not ok:
            k3.violation(wrapper, 'does not reach cstl_bintree_clear', floc(m, pf), {})
        else:
            k3.violation(wrapper, 'stores into the container besides delegating to the tree clear (%s)' % stores[0].loc(), floc(m, pf), {})
    # slist
    f = m.ifn('cstl_slist_clear')
    if f is None:
        k3.undecided('cstl_slist_clear', 'not in the model')
    else:
        bad = []
        for r in f.returns():
            def dom_store(field, pred):
                return [s for s in f.all_insts() if s.op == 'store' and resolve_addr(f, s.o[1]).root == '$0' and resolve_addr(f, s.o[1]).steps == field
                        and pred(s) and f.dominates(s, r)]
            if not dom_store(('h', 'n'), lambda s: const_int(s.o[0]) == 0):
                bad.append('head link not reset to NULL')
            if not dom_store(('t',), lambda s: resolve_addr(f, s.o[0]).root == '$0' and resolve_addr(f, s.o[0]).steps in (('h',), ())):
                bad.append('tail not re-anchored to the head link')
            if not dom_store(('count',), lambda s: const_int(s.o[0]) == 0):
                bad.append('count not reset to 0')
        if bad:
            k3.violation('cstl_slist_clear', '; '.join(sorted(set(bad))), floc(m, f), {})
        else:
            k3.ok('cstl_slist_clear', 'h.n := NULL, t := &h, count := 0 dominate the return', floc(m, f))
    # dlist: drain loop
    f = m.ifn('cstl_dlist_clear')
    pf = m.pfn('cstl_dlist_clear')
    if f is None or pf is None:
        k3.undecided('cstl_dlist_clear', 'not in the model')
    else:
        pv = Prover(f)
        bad = []
        for r in f.returns():
            facts = pv.facts_at(r)
            if not any(_is_field_load(f, x, 'cstl_dlist', 'size') and ((op == 'ule' and const_int(y) == 0) or (op == 'eq' and const_int(y) == 0)) for (op, x, y) in facts):
                bad.append('the return at %s is not under size == 0' % r.loc())
        unl = [c for c in pf.all_insts() if c.op == 'call' and c.callee and m.pfn(c.callee) is not None and _decrements(m.pfn(c.callee), 'cstl_dlist', 'size', m)]
        # ... or the decrement is made by the loop itself, next to a pure link helper
        is_size = listrules.field_addr_pred(m, pf, 'cstl_dlist', 'size')
        unl += [s2 for s2 in pf.all_insts() if s2.op == 'store' and is_size(s2.o[1]) and unit_step(pf, s2.o[0])[1] == -1]
        latches = [(p, b) for b in pf.blocks for p in b.pred if pf.dominates_block(b, p)]
        if len(unl) != 1 or not latches or not all(pf.dominates_block(unl[0].block, p) for p, _ in latches):
            bad.append('the loop does not unlink exactly one node per iteration through the size-decrementing primitive')
        if bad:
            k3.violation('cstl_dlist_clear', '; '.join(bad), floc(m, f), {})
        else:
            k3.ok('cstl_dlist_clear', 'drain loop: one primitive unlink per iteration, exits only under size == 0', floc(m, f))


def _is_field_load(f, ref, struct, field):
    i = f.get(ref) if isinstance(ref, str) else None
    return i is not None and i.op == 'load' and resolve_addr(f, i.o[0]).fsteps[-1:] == ((struct, field),)


def _decrements(g, struct, field, m=None, depth=2):
    is_field = listrules.field_addr_pred(m, g, struct, field) if m is not None else (lambda r: resolve_addr(g, r).fsteps[-1:] == ((struct, field),))
    for s in g.all_insts():
        if s.op == 'store' and is_field(s.o[1]):
            if unit_step(g, s.o[0])[1] == -1:
                return True
    # ... or the primitive is itself a thin wrapper (unlink, then convert the node to its element)
    if m is not None and depth > 0:
        for c in g.all_insts():
            if c.op == 'call' and c.callee and not c.is_intrinsic():
                h = m.pfn(c.callee)
                if h is not None and h is not g and _decrements(h, struct, field, m, depth - 1):
                    return True
    return False


def _reaches_call(m, f, target, depth):
    for c in f.all_insts():
        if c.op == 'call' and c.callee:
            if c.callee == target:
                return True
            if depth > 0:
                g = m.pfn(c.callee)
                if g is not None and _reaches_call(m, g, target, depth - 1):
                    return True
    return False
