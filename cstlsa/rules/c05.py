"""C05 - shared memory is destroyed exactly once, exactly when its last owner lets go (decided clauses).

M1 reference-effect balance   for every public shared / weak pointer function (whole-library inlined IR,
        path-sensitive typestate with a store/load model of the guarded pointer slots), on every path to a
        return and for every bookkeeping block d touched on the path:
            (increments - decrements of d.hard [+1 at allocation]) = installs(d) - clears(d) in OWNER objects
            (increments - decrements of d.soft [+1 at allocation]) = installs(d) - clears(d) in ALL objects
        where an install / clear is a non-NULL pointer to d being written into / overwritten in a smart
        pointer parameter, and owner objects are the parameters declared cstl_shared_ptr_t (references are
        cstl_weak_ptr_t).  A block that is allocated and freed on the path without ever being installed is
        exempt.  Any imbalance is, by counting, an early free or a leak in some history.
M2 gating                     the managed memory is destroyed (clear callback + free) only under the fact that
        the hard decrement on that block returned 1; the bookkeeping block is freed only under the fact that
        the soft decrement returned 1, or on the allocation path where it was never installed.
M3 unique pointer             reset: guard, then clr(ptr, priv) iff clr.func != NULL, then free(ptr), then
        re-initialise, on every path; alloc resets first and installs only a non-NULL block; release neither
        calls the clear function nor frees, and re-initialises; swap exchanges pointer and clear pair.
M4 allocator sites            malloc / free occur in memory.c only in unique_ptr_alloc / unique_ptr_reset /
        shared_ptr_alloc / weak_ptr_reset.
NOT decided: history-level claims that follow only together with correct client usage; get/unique values.
"""
from .. import typestate
from ..facts import Prover, _k, strip_bitcasts
from ..ir import const_int, resolve_addr, mem_access, is_arg
from .util import header_functions, floc

SPD = 'cstl_shared_ptr_data'
GP = 'cstl_guarded_ptr'


def slot_of(f, addr):
    """parameter ref if addr is the guarded `ptr` slot of a smart-pointer parameter"""
    if addr.fsteps[-1:] == ((GP, 'ptr'),) and isinstance(addr.root, str) and is_arg(addr.root):
        # not a slot inside a bookkeeping block (data->up.gp.ptr)
        if not any(s == SPD for s, _ in addr.fsteps):
            return addr.root
    return None


def counter_of(f, addr):
    """'hard' / 'soft' if addr is a reference counter of a bookkeeping block; returns (which, block root)"""
    if len(addr.steps) >= 2 and addr.steps[-2:] in (('ref', 'hard'), ('ref', 'soft')) and addr.fsteps[0][0] == SPD:
        return addr.steps[-1], addr.root
    return None, None


def run(m, rep, tier):
    decls = header_functions(m, ('memory.h',))
    m1 = rep.rule('M1', 'reference counters move exactly with installs / clears of owner and reference objects, on every path', floor=8)
    m2 = rep.rule('M2', 'destroy only when the hard decrement returned 1; free the bookkeeping block only when the soft decrement returned 1', floor=3)
    names = [n for n in sorted(decls) if n.startswith(('cstl_shared_ptr_', 'cstl_weak_ptr_'))]
    for name in names:
        f = m.ifn(name)
        if f is None:
            m1.undecided(name, 'declared in memory.h but not in the model')
            continue
        d = decls[name]
        if name.endswith('_init'):
            continue          # initialisers write an object that is not a smart pointer yet
        roles = {}
        for k, (ty, pn) in enumerate(d.params):
            if 'cstl_weak_ptr_t' in ty:
                roles['$%d' % k] = 'ref'
            elif 'cstl_shared_ptr_t' in ty:
                roles['$%d' % k] = 'owner'
        if not roles:
            continue
        check_balance(m, f, roles, m1)
        check_gating(m, f, m2)

    m3 = rep.rule('M3', 'unique pointer: reset = guard, clr iff set, free, re-init; alloc installs only non-NULL; release and swap never destroy', floor=4)
    check_unique(m, m3)

    m4 = rep.rule('M4', 'malloc / free in memory.c only in the four lifetime functions', floor=4)
    allowed = {'cstl_unique_ptr_alloc': ('malloc',), 'cstl_unique_ptr_reset': ('free',), 'cstl_shared_ptr_alloc': ('malloc', 'free'), 'cstl_weak_ptr_reset': ('free',)}
    mod = m.plain.get('memory')
    if mod is None:
        m4.undecided('memory.c', 'unit not in the model')
    else:
        fns = list(mod.defined()) + [g for g in m.all_plain_functions() if (g.file or '').endswith('memory.h')]
        callers = {}
        for g in fns:
            for c in g.all_insts():
                if c.op == 'call' and c.callee:
                    callers.setdefault(c.callee, set()).add(g.name)

        def owner_functions(name, seen=()):
            """the lifetime functions a static helper works for (None if it can be reached from anywhere else)"""
            if name in allowed or name in names:
                return {name}
            g = mod.fn(name)
            if g is None or g.linkage != 'internal' or name in seen or not callers.get(name):
                return None
            out = set()
            for cn in callers[name]:
                o = owner_functions(cn, seen + (name,))
                if o is None:
                    return None
                out |= o
            return out

        for f in fns:
            for c in f.all_insts():
                if c.op == 'call' and c.callee in ('malloc', 'calloc', 'realloc', 'free'):
                    site = '%s:%s' % (f.name, c.callee)
                    own = owner_functions(f.name)
                    if c.callee in allowed.get(f.name, ()):
                        m4.ok(site, 'lifetime function', c.loc())
                    elif own and all((c.callee in allowed.get(o, ())) or (o in names and c.callee == 'free') for o in own):
                        # a private helper: what it frees is judged, path by path, in the entry points that reach it (M1/M2
                        # run on their fully inlined bodies and gate every free on the reference decrement that returned 1)
                        m4.ok(site, 'static helper used only by %s' % ', '.join(sorted(own)), c.loc())
                    else:
                        m4.violation(site, '%s is called in %s: blocks must be allocated / released only by the lifetime functions, whose counting M1/M2 check'
                                     % (c.callee, f.name), c.loc(), {})

    # ---- M5: the NDEBUG build does what the assertion build does ---------------------------------
    from .util import check_assert_effects
    _ae = rep.rule('M5', 'every store / effectful call made with assertions enabled is also made by the NDEBUG build (no work inside assert())', floor=1)
    check_assert_effects(m, _ae, ('memory.c', 'memory.h'))

    # ---- M6: shared / weak swap exchanges the bookkeeping pointers on every path ---------------------------------
    # which block an object refers to is the pointer in its own slot; "they manage the same memory" (both report NULL for an
    # ownerless block) is not "they refer to the same block"
    m6 = rep.rule('M6', 'shared / weak swap exchanges the two bookkeeping pointers on every path on which they may differ', floor=1)
    for _nm in ('cstl_shared_ptr_swap', 'cstl_weak_ptr_swap'):
        f6 = m.ifn(_nm)
        if f6 is None:
            continue
        pv6 = Prover(f6)

        def slot_store(root):
            return [s2 for s2 in f6.all_insts() if s2.op == 'store' and resolve_addr(f6, s2.o[1]).root == root and resolve_addr(f6, s2.o[1]).fsteps[-1:] == ((GP, 'ptr'),)
                    and resolve_addr(f6, s2.o[1]).steps[:1] == ('data',)]
        s0, s1 = slot_store('$0'), slot_store('$1')
        if not s0 or not s1:
            m6.violation(_nm, 'the bookkeeping pointer of one of the two objects is never written', floc(m, f6), {})
            continue
        bad6 = []
        for r in f6.returns():
            if any(f6.dominates(a_, r) for a_ in s0) and any(f6.dominates(b_, r) for b_ in s1):
                continue
            facts = pv6.facts_at(r)
            same = ('eq', '$0', '$1') in facts or ('eq', '$1', '$0') in facts
            for (op, x, y) in facts:
                xi, yi = (f6.get(x) if isinstance(x, str) else None), (f6.get(y) if isinstance(y, str) else None)
                if op == 'eq' and xi is not None and yi is not None and xi.op == 'load' and yi.op == 'load':
                    ax, ay = resolve_addr(f6, xi.o[0]), resolve_addr(f6, yi.o[0])
                    if {ax.root, ay.root} == {'$0', '$1'} and ax.steps[:1] == ('data',) and ay.steps[:1] == ('data',) and ax.fsteps[-1:] == ((GP, 'ptr'),) == ay.fsteps[-1:]:
                        same = True
            if not same:
                bad6.append('a path to the return at %s exchanges nothing although the two objects may refer to different bookkeeping blocks (the test that '
                            'skips the exchange compares something else, e.g. the managed memory)' % r.loc())
        if bad6:
            m6.violation(_nm, '; '.join(sorted(set(bad6))[:2]), floc(m, f6), {})
        else:
            m6.ok(_nm, 'both slots written on every path (or the slots are known to hold the same pointer)', floc(m, f6))


def check_balance(m, f, roles, rule):
    """typestate: auto = frozenset of events; memory model tracks the parameter slots"""
    problems = set()
    # event tuples: ('inc'|'dec', which, blockref) ('init', which, blockref) ('install', param, valueref) ('clear', param, valueref) ('free', blockref)
    def add(ev, e):
        # multiset as sorted tuple of (event, count)
        d = dict(ev)
        d[e] = min(d.get(e, 0) + 1, 4)
        return tuple(sorted(d.items()))

    def transfer(ins, st, ps):
        ev, slots = st
        if ins.op == 'call':
            if ins.x.get('noreturn'):
                return None
            if ins.callee == 'free' and ins.o:
                return (add(ev, ('free', ps.lookup(_k(strip_bitcasts(f, ins.o[0]))))), slots)
            return st
        if ins.op == 'atomicrmw':
            a = resolve_addr(f, ins.o[0])
            which, root = counter_of(f, a)
            if which and const_int(ins.o[1]) == 1 and ins.x.get('rmw') in ('add', 'sub'):
                blk = ps.lookup(_k(strip_bitcasts(f, root)))
                return (add(ev, ('inc' if ins.x['rmw'] == 'add' else 'dec', which, blk)), slots)
            if which:
                problems.add('reference counter changed by something other than +/- 1 at %s' % ins.loc())
            return st
        if ins.op == 'store':
            a = resolve_addr(f, ins.o[1])
            which, root = counter_of(f, a)
            if which:
                blk = ps.lookup(_k(strip_bitcasts(f, root)))
                if const_int(ins.o[0]) == 1:
                    return (add(ev, ('init', which, blk)), slots)
                problems.add('reference counter %s is overwritten with %s at %s' % (which, ins.o[0], ins.loc()))
                return st
            p = slot_of(f, a)
            if p is not None:
                p = ps.lookup(p)
                new = ps.lookup(_k(strip_bitcasts(f, ins.o[0])))
                sl = dict(slots)
                old = sl.get(p, ('unknown', p))
                ev2 = add(ev, ('clear', p, old))
                ev2 = add(ev2, ('install', p, new))
                sl[p] = new
                return (ev2, tuple(sorted(sl.items(), key=lambda kv: str(kv))))
            return st
        if ins.op == 'load':
            a = resolve_addr(f, ins.o[0])
            p = slot_of(f, a)
            if p is not None:
                p = ps.lookup(p)
                sl = dict(slots)
                if p not in sl:
                    sl[p] = ins.ref       # the slot's content on entry is whatever this first read returns
                    return (ev, tuple(sorted(sl.items(), key=lambda kv: str(kv))))
        return st

    tm = typestate.with_memory(f, transfer, lambda a: a.fsteps[-1:] == ((GP, 'ptr'),))
    try:
        res = typestate.run(f, (((), ()), frozenset()), tm, limit=400000)
    except typestate.Limit as e:
        rule.undecided(f.name, str(e), floc(m, f))
        return
    nblocks = 0
    for ret, ps in res.exits:
        ev, slots = ps.auto[0]

        def nullness(v):
            if v == 'null':
                return True
            if isinstance(v, tuple):
                return None
            k = ps.knows(('eq', v, 'null'))
            return k

        hard, soft, own, allr, freed, inited = {}, {}, {}, {}, {}, {}
        undecided = []
        maybe = {}
        for e, n in ev:
            kind = e[0]
            if kind in ('inc', 'dec', 'init'):
                tgt = hard if e[1] == 'hard' else soft
                blk = ps.lookup(e[2])
                tgt[blk] = tgt.get(blk, 0) + (n if kind != 'dec' else -n)
                if kind == 'init':
                    inited[blk] = True
            elif kind in ('install', 'clear'):
                p, v = e[1], e[2]
                if isinstance(v, tuple):
                    # content never read on this path: if it was overwritten blindly we cannot tell what was dropped
                    if kind == 'clear':
                        undecided.append('the previous content of `%s` is overwritten without having been read' % f.argname(p))
                    continue
                v = ps.lookup(v)
                nn = nullness(v)
                if nn is True:
                    continue
                sign = 1 if kind == 'install' else -1
                if nn is None:
                    # NULL-ness not decided on this path: fine as long as the writes cancel out per role (swap)
                    maybe.setdefault(v, [0, 0, f.argname(p)])
                    maybe[v][1] += sign * n
                    if roles.get(p) == 'owner':
                        maybe[v][0] += sign * n
                    continue
                allr[v] = allr.get(v, 0) + sign * n
                if roles.get(p) == 'owner':
                    own[v] = own.get(v, 0) + sign * n
                elif roles.get(p) is None:
                    undecided.append('a smart pointer slot of a non-parameter object is written')
            elif kind == 'free':
                freed[ps.lookup(e[1])] = freed.get(ps.lookup(e[1]), 0) + n
        for v, (do, da, pn) in maybe.items():
            if do or da or v in hard or v in soft:
                undecided.append('whether the pointer %s written into / dropped from `%s` is NULL is not decided on the path' % (v, pn))
        for u in undecided:
            problems.add(u + ' (return at %s)' % ret.loc())
        for blk in set(hard) | set(soft) | set(own) | set(allr):
            nblocks += 1
            if inited.get(blk) and freed.get(blk) and not allr.get(blk):
                continue      # allocated and released again without ever being installed
            dh, ds = hard.get(blk, 0), soft.get(blk, 0)
            if dh != own.get(blk, 0):
                problems.add('on a path to the return at %s the owner count of block %s changes by %+d but owning pointers to it change by %+d'
                             % (ret.loc(), f.vname(blk), dh, own.get(blk, 0)))
            if ds != allr.get(blk, 0):
                problems.add('on a path to the return at %s the reference count of block %s changes by %+d but pointers to it change by %+d'
                             % (ret.loc(), f.vname(blk), ds, allr.get(blk, 0)))
    if problems:
        rule.violation(f.name, '; '.join(sorted(problems)[:3]), floc(m, f), {'exit_states': len(res.exits)})
    elif not res.exits:
        rule.undecided(f.name, 'no exit path explored', floc(m, f))
    else:
        rule.ok(f.name, 'balanced on all %d exit state(s) (%d block-path pairs)' % (len(res.exits), nblocks), floc(m, f))


def check_gating(m, f, rule):
    pv = Prover(f)
    for c in f.calls('free'):
        x = strip_bitcasts(f, c.o[0])
        xi = f.get(x)
        site = None
        want = None
        blk = None
        if xi is not None and xi.op == 'load':
            a = resolve_addr(f, xi.o[0])
            ri_ = f.get(strip_bitcasts(f, a.root)) if isinstance(a.root, str) else None
            if a.fsteps[-1:] == ((GP, 'ptr'),) and a.fsteps[0][0] == SPD and ri_ is not None and ri_.op == 'call' and ri_.callee in ('malloc', 'calloc') \
                    and not any(s2.op == 'store' and slot_of(f, resolve_addr(f, s2.o[1])) is not None and strip_bitcasts(f, s2.o[0]) == ri_.ref and f.dominates(s2, c)
                                for s2 in f.all_insts()):
                # the managed pointer of a bookkeeping block this very call allocated and has not published yet (the reset that
                # opens unique_ptr_alloc on the fresh block): nobody else can own it
                rule.ok('%s:destroy-unpublished' % f.name, 'the managed pointer of a block allocated here and not yet installed anywhere', c.loc())
                continue
            if a.fsteps[-1:] == ((GP, 'ptr'),) and a.fsteps[0][0] == SPD:
                site, want, blk = '%s:destroy' % f.name, 'hard', a.root       # free(d->up.gp.ptr): the managed memory
            elif slot_of(f, a) is not None or a.fsteps[-1:] == ((GP, 'ptr'),):
                # free(value read from a smart pointer slot) = the bookkeeping block itself
                site, want, blk = '%s:free-block' % f.name, 'soft', x
        elif xi is not None and xi.op == 'call' and xi.callee in ('malloc', 'calloc'):
            site, want, blk = '%s:free-unpublished' % f.name, None, x
        elif xi is not None and xi.op == 'phi':
            site, want, blk = '%s:free-unpublished' % f.name, None, x
        if site is None:
            continue
        if want is None:
            # allocation path: the block must not have been installed anywhere before
            inst = [s for s in f.all_insts() if s.op == 'store' and slot_of(f, resolve_addr(f, s.o[1])) is not None and f.dominates(s, c)
                    and strip_bitcasts(f, s.o[0]) in (x,) + tuple(o for o in (xi.o if xi.op == 'phi' else []))]
            if inst:
                rule.violation(site, 'a block that was already installed in a smart pointer is freed without consulting its reference count at %s' % c.loc(), c.loc(), {})
            else:
                rule.ok(site, 'never-installed block released on the allocation path', c.loc())
            continue
        ok = False
        for (op, p, q) in pv.facts_at(c):
            if op == 'eq' and const_int(q) == 1:
                r = f.get(p)
                if r is not None and r.op == 'atomicrmw' and r.x.get('rmw') == 'sub':
                    wh, root = counter_of(f, resolve_addr(f, r.o[0]))
                    if wh == want and _same_block(f, root, blk):
                        ok = True
        if ok:
            rule.ok(site, 'under "%s decrement returned 1"' % want, c.loc())
        else:
            rule.violation(site, '%s at %s is not gated on the %s counter\'s own decrement having returned 1: %s' % (
                'the managed memory is destroyed' if want == 'hard' else 'the bookkeeping block is freed', c.loc(), want,
                'another owner may still use it' if want == 'hard' else 'another reference may still use it, or it is freed twice'), c.loc(), {})


def _same_block(f, a, b):
    a, b = strip_bitcasts(f, a), strip_bitcasts(f, b)
    if a == b:
        return True
    from ..hashmodel import same_value_loads
    return same_value_loads(f, a, b)


def check_unique(m, rule):
    f = m.ifn('cstl_unique_ptr_reset')
    if f is None:
        rule.undecided('cstl_unique_ptr_reset', 'not in the model')
    else:
        bad = []
        frees = list(f.calls('free'))
        clrs = [c for c in f.all_insts() if c.op == 'call' and c.callee is None]
        pv = Prover(f)
        if len(frees) != 1:
            bad.append('%d free call(s)' % len(frees))
        else:
            fr = frees[0]
            p = strip_bitcasts(f, fr.o[0])
            pi = f.get(p)
            if pi is None or pi.op != 'load' or resolve_addr(f, pi.o[0]).fsteps[-1:] != ((GP, 'ptr'),) or resolve_addr(f, pi.o[0]).root != '$0':
                bad.append('what is freed is not the pointer the object manages')
            for r in f.returns():
                if not f.dominates(fr, r):
                    bad.append('a path returns without freeing')
            for c in clrs:
                if not f.dominates(c, fr) and fr.block.idx not in {b.idx for b in f.reachable_from(c.block)}:
                    bad.append('the clear function runs after the memory was freed')
                if f.dominates(fr, c):
                    bad.append('the clear function is called on freed memory')
                if strip_bitcasts(f, c.o[0]) != p:
                    bad.append('the clear function is not given the managed pointer')
                cv = f.get(c.x.get('cv'))
                if not pv.prove_at(('ne', c.x.get('cv'), 'null'), c):
                    bad.append('the clear function pointer is called without a NULL check')
            if len(clrs) != 1:
                bad.append('%d clear-function call sites' % len(clrs))
            else:
                # clr is skipped only when it is NULL: the edge that bypasses the call carries clr == NULL
                pass
            # re-initialisation after the free
            for fld, val in ((('gp', 'ptr'), 0), (('clr', 'func'), 0), (('clr', 'priv'), 0)):
                ss = [s for s in f.all_insts() if s.op == 'store' and resolve_addr(f, s.o[1]).root == '$0' and resolve_addr(f, s.o[1]).steps == fld and const_int(s.o[0]) == val
                      and f.dominates(fr, s)]
                if not ss:
                    bad.append('%s is not reset after the free' % '.'.join(fld))
        if bad:
            rule.violation('cstl_unique_ptr_reset', '; '.join(sorted(set(bad))), floc(m, f), {})
        else:
            rule.ok('cstl_unique_ptr_reset', 'guard -> clr iff set -> free -> re-init on every path', floc(m, f))
    f = m.ifn('cstl_unique_ptr_alloc')
    if f is None:
        rule.undecided('cstl_unique_ptr_alloc', 'not in the model')
    else:
        bad = []
        pv = Prover(f)
        mall = [c for c in f.all_insts() if c.op == 'call' and c.callee in ('malloc', 'calloc')]
        frees = list(f.calls('free'))
        if not frees or not all(any(f.dominates(fr, c) for fr in frees) for c in mall):
            bad.append('the previous block is not released before the new allocation')
        for s in f.all_insts():
            if s.op == 'store' and resolve_addr(f, s.o[1]).root == '$0' and resolve_addr(f, s.o[1]).steps == ('gp', 'ptr') and const_int(s.o[0]) != 0:
                v = strip_bitcasts(f, s.o[0])
                if v not in [c.ref for c in mall] or not pv.prove_at(('ne', v, 'null'), s):
                    bad.append('something other than a successfully allocated block is installed at %s' % s.loc())
        if bad:
            rule.violation('cstl_unique_ptr_alloc', '; '.join(bad), floc(m, f), {})
        else:
            rule.ok('cstl_unique_ptr_alloc', 'reset first; installs only a non-NULL malloc result', floc(m, f))
    f = m.ifn('cstl_unique_ptr_release')
    if f is None:
        rule.undecided('cstl_unique_ptr_release', 'not in the model')
    else:
        bad = []
        if list(f.calls('free')) or [c for c in f.all_insts() if c.op == 'call' and c.callee is None]:
            bad.append('release frees or calls the clear function (the caller takes over both)')
        for r in f.returns():
            v = f.get(strip_bitcasts(f, r.o[0])) if r.o else None
            if v is None or v.op != 'load' or resolve_addr(f, v.o[0]).steps != ('gp', 'ptr'):
                bad.append('release does not return the formerly managed pointer')
        if not [s for s in f.all_insts() if s.op == 'store' and resolve_addr(f, s.o[1]).steps == ('gp', 'ptr') and resolve_addr(f, s.o[1]).root == '$0' and const_int(s.o[0]) == 0]:
            bad.append('the object keeps managing the pointer after release')
        # ... and its clear function: an empty unique pointer with a registered clear function runs that function again at the
        # next reset / alloc, for memory that was handed to the caller (path-sensitive: every return, whatever out-parameters
        # the caller passed)
        def tr(ins, st, ps):
            if ins.op == 'call' and ins.x.get('noreturn'):
                return None
            if ins.op == 'store':
                a = resolve_addr(f, ins.o[1])
                if a.root == '$0' and a.steps == ('clr', 'func'):
                    return 'cleared' if (ins.o[0] == 'null' or const_int(ins.o[0]) == 0) else 'set'
            return st
        try:
            res = typestate.run(f, 'kept', tr, limit=20000)
            for r, ps in res.exits:
                if ps.auto != 'cleared':
                    bad.append('a path to the return at %s leaves the clear function registered in the released (now empty) pointer: the next reset '
                               'or alloc runs it again for memory the caller already took over' % r.loc())
        except typestate.Limit:
            pass
        if bad:
            rule.violation('cstl_unique_ptr_release', '; '.join(bad), floc(m, f), {})
        else:
            rule.ok('cstl_unique_ptr_release', 'returns the pointer, re-initialises, destroys nothing', floc(m, f))
    f = m.ifn('cstl_unique_ptr_swap')
    if f is None:
        rule.undecided('cstl_unique_ptr_swap', 'not in the model')
    else:
        bad = []
        if list(f.calls('free')) or [c for c in f.all_insts() if c.op == 'call' and c.callee is None]:
            bad.append('swap frees or calls a clear function')
        st = {}
        for s in f.all_insts():
            if s.op == 'store':
                a = resolve_addr(f, s.o[1])
                if a.steps == ('gp', 'ptr') and a.root in ('$0', '$1'):
                    v = f.get(strip_bitcasts(f, s.o[0]))
                    if v is not None and v.op == 'load':
                        st[a.root] = resolve_addr(f, v.o[0]).root
        if st != {'$0': '$1', '$1': '$0'}:
            bad.append('the managed pointers are not exchanged')
        cp = [c for c in f.all_insts() if c.op == 'call' and (c.callee or '').startswith('llvm.memcpy')]
        touched = set()
        for c in cp:
            for o in c.o[:2]:
                a = resolve_addr(f, o)
                if a.steps[:1] == ('clr',):
                    touched.add(a.root)
        # ... or member by member through typed temporaries
        ex = set()
        for s2 in f.all_insts():
            if s2.op != 'store':
                continue
            a = resolve_addr(f, s2.o[1])
            v = f.get(strip_bitcasts(f, s2.o[0])) if isinstance(s2.o[0], str) else None
            if a.steps[:1] == ('clr',) and a.root in ('$0', '$1') and v is not None and v.op == 'load':
                b = resolve_addr(f, v.o[0])
                if b.root in ('$0', '$1') and b.root != a.root and b.steps == a.steps and \
                        ((v.block is s2.block and v.pos < s2.pos) or f.dominates(v, s2)):
                    ex.add((a.root, a.steps))
        fields = {st2 for (_, st2) in ex}
        memberwise = len(fields) >= 2 and all(('$0', st2) in ex and ('$1', st2) in ex for st2 in fields)
        if touched != {'$0', '$1'} and not memberwise:
            bad.append('the clear function / argument pair does not travel with the pointer')
        # an exchange made only on some paths must be skipped only where the members are already equal
        from .util import swap_coverage
        pf = m.pfn('cstl_unique_ptr_swap')
        cov = swap_coverage(m, pf) if pf is not None else None
        if cov is not None:
            bad += [p_ for p_ in cov[4] if 'is skipped' in p_]
        if bad:
            rule.violation('cstl_unique_ptr_swap', '; '.join(bad), floc(m, f), {})
        else:
            rule.ok('cstl_unique_ptr_swap', 'pointer and clear pair exchanged; nothing destroyed', floc(m, f))
