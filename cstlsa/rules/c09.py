"""C09 - a vector never reports size or capacity it has no storage for (decided clauses).

V1 allocation byte size   every parameter-derived unsigned add/mul on the way to a malloc/realloc size
                          is proven non-wrapping from the dominating facts, in every public vector
                          entry point (whole-library inlined IR).                         [nw rule]
V2 commit on success      every use/commit of a realloc result and every store into the vector after
                          the call is dominated by result != NULL; the old block pointer passed to
                          realloc is the vector's current base (bytes preserved by contract); stores to
                          `cap` / `elem.base` anywhere are either constants (init, clear) or sit in that
                          success region.
V3 access guard           in cstl_vector_at_const every return is dominated by i <u count and every
                          abort() is dominated by count <=u i ("aborts exactly when").
V4 resize is fail-stop    in cstl_vector_resize every store to `count` and every constructor/destructor
                          call is dominated by sz <=u cap (cap re-read after the capacity request), the
                          other edge aborts; cstl_vector_reserve requests capacity only under sz >u cap.
V7 scratch agreement      the scratch pointer handed to sort/reverse is element index `cap`, and the
                          capacity setter allocates (request + 1) * element size while recording
                          `request` as the capacity.
NOT decided: constructor/destructor exactly-once counts, byte preservation beyond realloc's contract.
"""
from .. import nw, typestate
from ..allocrules import alloc_calls, check_alloc, aliases, nonnull_at
from ..facts import Prover, _k, strip_bitcasts
from ..ir import const_int, mem_access, resolve_addr
from .c17 import abort_only
from .util import header_functions, floc

VEC = 'cstl_vector'


def vec_field(a):
    """'count' / 'cap' / 'elem.base' / 'elem.size' ... if the access is to a field of struct cstl_vector"""
    if a.fsteps and a.fsteps[0][0] == VEC:
        return a.path
    return None


def run(m, rep, tier):
    from .. import canaries
    canaries.run(m, rep, ('nw', 'alloc'))
    decls = header_functions(m, ('vector.h',))
    v1 = rep.rule('V1', 'parameter-derived arithmetic reaching an allocation size cannot wrap', floor=2)
    nent = 0
    for name in sorted(decls):
        f = m.ifn(name)
        if f is None:
            continue
        nent += 1
        nw.check_entry(f, v1)
    rep.extra['vector_entry_points'] = nent

    # ---- V2 ------------------------------------------------------------------------
    v2 = rep.rule('V2', 'capacity change committed only when realloc succeeded; old block handed to realloc', floor=2)
    # two faithful views of vector.c: as written (the capacity setter holds both the allocation and the commit), and with
    # the private helpers inlined into their callers (the allocation and the commit may have been split into "get the
    # storage" and "commit it").  Each view is a complete check of the unit; the rule holds if it holds in one of them.
    if m.plain.get('vector') is None:
        v2.undecided('vector', 'unit vector.c not in the model')
    else:
        verdicts = None
        for view, mod in (('as written', m.plain['vector']), ('private helpers inlined', m.focus('vector'))):
            out = _v2_eval(m, mod)
            if verdicts is None or not any(k == 'violation' for k, *_ in out):
                verdicts = out
            if not any(k == 'violation' for k, *_ in out):
                break
        for k, site, text, loc in verdicts:
            if k == 'violation':
                v2.violation(site, text, loc, {})
            else:
                v2.ok(site, text, loc)

    # ---- V3 ------------------------------------------------------------------------
    v3 = rep.rule('V3', 'cstl_vector_at_const: returns under i < count, aborts only under count <= i', floor=1)
    for _nm in ('cstl_vector_at_const', 'cstl_vector_at'):
        f = m.ifn(_nm)
        if f is None:
            v3.undecided(_nm, 'not found')
        else:
            check_at(m, f, v3, 'count')

    # ---- V4 ------------------------------------------------------------------------
    v4 = rep.rule('V4', 'resize: size change and xtor calls only under sz <= cap (else abort); reserve grows only when sz > cap', floor=2)
    f = m.ifn('cstl_vector_resize')
    if f is None:
        v4.undecided('cstl_vector_resize', 'not found')
    else:
        check_resize(m, f, v4)
    f = m.ifn('cstl_vector_reserve')
    if f is None:
        v4.undecided('cstl_vector_reserve', 'not found')
    else:
        pv = Prover(f)
        bad = []
        acs = alloc_calls(f)
        for c in acs:
            ok = False
            for (op, x, y) in pv.facts_at(c):
                xi = f.get(x)
                if op == 'ult' and y == '$1' and xi is not None and xi.op == 'load' and vec_field(resolve_addr(f, xi.o[0])) == 'cap':
                    ok = True
            if not ok:
                bad.append('the allocation at %s is not under `sz > v->cap`: reserve could shrink the buffer below size' % c.loc())
        if bad:
            v4.violation('cstl_vector_reserve', '; '.join(bad), floc(m, f), {})
        else:
            v4.ok('cstl_vector_reserve', '%d allocation(s) under cap < sz' % len(acs), floc(m, f))

    # ---- V7 ------------------------------------------------------------------------
    v7 = rep.rule('V7', 'scratch slot is element index cap; setter allocates (request+1)*size and records request', floor=3)
    check_scratch(m, v7)

    # ---- V9: no storage => no capacity ---------------------------------------------------
    v9 = rep.rule('V9', 'whenever an entry point gives up the storage (base := NULL) it also reports capacity 0 on that path', floor=1)
    n9 = 0
    for name in sorted(header_functions(m, ('vector.h',))):
        f = m.ifn(name)
        if f is None:
            continue
        nulls = [s2 for s2 in f.all_insts() if s2.op == 'store' and vec_field(resolve_addr(f, s2.o[1])) == 'elem.base'
                 and resolve_addr(f, s2.o[1]).root == '$0' and (s2.o[0] == 'null' or const_int(s2.o[0]) == 0)]
        if not nulls:
            continue
        n9 += 1

        def transfer(ins, st, ps, f=f):
            if ins.op == 'call' and ins.x.get('noreturn'):
                return None
            if ins.op == 'store' and resolve_addr(f, ins.o[1]).root == '$0':
                fl = vec_field(resolve_addr(f, ins.o[1]))
                if fl == 'elem.base':
                    return ('null' if (ins.o[0] == 'null' or const_int(ins.o[0]) == 0) else 'set', st[1])
                if fl == 'cap':
                    return (st[0], 'zero' if const_int(ins.o[0]) == 0 else 'other')
            return st
        try:
            # last value written to each of the two fields on the path, in whatever order they are written
            res = typestate.run(f, ('-', '-'), transfer, limit=60000)
            badr = [r for r, ps in res.exits if ps.auto[0] == 'null' and ps.auto[1] != 'zero']
            if badr:
                v9.violation(name, 'a path to the return at %s sets the storage pointer to NULL but leaves the capacity as it was: the vector reports '
                             'capacity it has no storage for, and a later resize within that capacity allocates nothing' % badr[0].loc(), floc(m, f), {})
            else:
                v9.ok(name, 'base := NULL is followed by cap := 0 on all %d exit state(s)' % len(res.exits), floc(m, f))
        except typestate.Limit as e:
            v9.undecided(name, str(e), floc(m, f))
    if n9 == 0:
        v9.undecided('vector', 'no entry point that gives up the storage found')

    # ---- V13: no capacity => no elements --------------------------------------------------------
    # size <= capacity: a function that reports capacity 0 on a path also leaves the size 0 there -- it stores count := 0
    # itself or has resized the vector to 0 (whose contract, V4/V10, is count == request on return)
    v13 = rep.rule('V13', 'whenever a function sets the capacity to 0 the element count is 0 on that path as well (size <= capacity)', floor=1)
    n13 = 0
    for f in m.all_plain_functions():
        if not (f.file or '').endswith(('vector.c', 'vector.h')):
            continue
        zero_caps = [s2 for s2 in f.all_insts() if s2.op == 'store' and vec_field(resolve_addr(f, s2.o[1])) == 'cap' and const_int(s2.o[0]) == 0]
        if not zero_caps:
            continue
        n13 += 1

        def key_of(a, drop):
            r = strip_bitcasts(f, a.root) if isinstance(a.root, str) else a.root
            return (r, tuple(a.steps[:len(a.steps) - drop]))

        def transfer13(ins, st, ps, f=f):
            capz, cntz = st
            if ins.op == 'call':
                if ins.x.get('noreturn'):
                    return None
                if ins.callee == 'cstl_vector_resize' and len(ins.o) >= 2 and const_int(ins.o[1]) == 0 and isinstance(ins.o[0], str):
                    return (capz, key_of(resolve_addr(f, ins.o[0]), 0))
                if ins.callee in ('cstl_vector_clear',) and isinstance(ins.o[0], str):
                    k = key_of(resolve_addr(f, ins.o[0]), 0)
                    return (k, k)
            if ins.op == 'store':
                a = resolve_addr(f, ins.o[1])
                fl = vec_field(a)
                if fl == 'cap':
                    return (key_of(a, 1) if const_int(ins.o[0]) == 0 else None, cntz)
                if fl == 'count':
                    return (capz, key_of(a, 1) if const_int(ins.o[0]) == 0 else None)
            return st
        try:
            res = typestate.run(f, (None, None), transfer13, limit=60000)
            badr = []
            for r, ps in res.exits:
                capz, cntz = ps.auto
                if capz is None or cntz == capz:
                    continue
                # ... or the path knows the count it last read is 0
                known0 = False
                for (op, x, y) in ps.known:
                    xi = f.get(x) if isinstance(x, str) else None
                    if op in ('eq', 'ule') and const_int(y) == 0 and xi is not None and xi.op == 'load' and vec_field(resolve_addr(f, xi.o[0])) == 'count':
                        known0 = True
                if not known0:
                    badr.append(r)
            if badr:
                v13.violation(f.name, 'a path to the return at %s sets the capacity to 0 without the element count being 0 there (no count := 0, no resize '
                              'to 0 on that path): the vector reports a size it has no storage for' % badr[0].loc(), floc(m, f), {})
            else:
                v13.ok(f.name, 'cap := 0 only together with count == 0 on all %d exit state(s)' % len(res.exits), floc(m, f))
        except typestate.Limit as e:
            v13.undecided(f.name, str(e), floc(m, f))
    if n13 == 0:
        v13.undecided('vector', 'no function that sets the capacity to 0 found')

    # ---- V10: resize moves the count toward the request only ---------------------------------
    v10 = rep.rule('V10', 'resize constructs (count + 1) only while count < request and destroys (count - 1) only while count > request', floor=1)
    f = m.ifn('cstl_vector_resize')
    if f is None:
        v10.undecided('cstl_vector_resize', 'not found')
    else:
        from ..ir import unit_step
        bad10 = []

        # judged where the new count is computed (count +/- 1): there the path still knows the value the count was just
        # read as; at the store the stepped value has already replaced it
        steps = {}
        for s2 in f.all_insts():
            if s2.op == 'store' and resolve_addr(f, s2.o[1]).root == '$0' and vec_field(resolve_addr(f, s2.o[1])) == 'count':
                base, step = unit_step(f, s2.o[0])
                if step and isinstance(s2.o[0], str):
                    steps[s2.o[0]] = (base, step)

        def _is_count_value(v):
            vi = f.get(v) if isinstance(v, str) else None
            return vi is not None and vi.op == 'load' and resolve_addr(f, vi.o[0]).root == '$0' and vec_field(resolve_addr(f, vi.o[0])) == 'count'

        def _null_known(ps, field):
            for (op, x, y) in ps.known:
                xi = f.get(x) if isinstance(x, str) else None
                if op == 'eq' and y == 'null' and xi is not None and xi.op == 'load' and vec_field(resolve_addr(f, xi.o[0])) == field:
                    return True
            return False

        undecided10 = []

        def _local_null_known(ps):
            for (op, x, y) in ps.known:
                xi = f.get(x) if isinstance(x, str) else None
                if op == 'eq' and y == 'null' and xi is not None and xi.op == 'load':
                    r = resolve_addr(f, xi.o[0]).root
                    ri = f.get(r) if isinstance(r, str) else None
                    if ri is not None and ri.op == 'alloca':
                        return True
            return False

        def transfer10(ins, st, ps):
            if ins.op == 'call' and ins.x.get('noreturn'):
                return None
            if ins.op == 'store' and resolve_addr(f, ins.o[1]).root == '$0' and vec_field(resolve_addr(f, ins.o[1])) == 'count' \
                    and isinstance(ins.o[0], str) and ins.o[0] not in steps and strip_bitcasts(f, ins.o[0]) == '$1':
                # the count is set to the request directly: only where no element has to be constructed or destroyed
                grows = shrinks = equal = False
                for (op, x, y) in ps.known:
                    if op in ('ult',) and _is_count_value(x) and y == '$1':
                        grows = True
                    if op in ('ult',) and x == '$1' and _is_count_value(y):
                        shrinks = True
                    if op == 'eq' and ((_is_count_value(x) and y == '$1') or (x == '$1' and _is_count_value(y))):
                        equal = True
                le = any(op == 'ule' and _is_count_value(x) and y == '$1' for (op, x, y) in ps.known)
                ge = any(op == 'ule' and x == '$1' and _is_count_value(y) for (op, x, y) in ps.known)
                if le and ge:
                    equal = True
                may_grow = not equal and not shrinks and not ge
                may_shrink = not equal and not grows and not le
                # the function that would have to run was looked up in a table built on the stack (by direction) and that
                # entry was found NULL: which of the two it was is not decided here
                if (may_grow or may_shrink) and _local_null_known(ps):
                    undecided10.append(ins.loc())
                    may_grow = may_shrink = False
                if may_grow and not _null_known(ps, 'elem.xtor.cons'):
                    bad10.append('the count is set to the request at %s on a path on which elements may come into scope while a constructor may be '
                                 'registered: they are never constructed' % ins.loc())
                if may_shrink and not _null_known(ps, 'elem.xtor.dest'):
                    bad10.append('the count is set to the request at %s on a path on which elements may go out of scope while a destructor may be '
                                 'registered (only the constructor was tested): they are never destroyed' % ins.loc())
            if ins.ref in steps:
                base, step = steps[ins.ref]
                cur = ps.lookup(_k(base)) if isinstance(base, str) else base
                if step == 1 and ps.knows(('ult', cur, '$1')) is not True:
                    bad10.append('the count is raised (an element constructed) at %s on a path that has not established count < request: asking for the '
                                 'current size constructs an extra element' % ins.loc())
                if step == -1 and ps.knows(('ult', '$1', cur)) is not True:
                    bad10.append('the count is lowered (an element destroyed) at %s on a path that has not established count > request' % ins.loc())
            return st
        tm = typestate.with_memory(f, transfer10, lambda a: a.root == '$0' and vec_field(a) == 'count')
        try:
            res = typestate.run(f, (0, frozenset()), tm, limit=100000)
            if bad10:
                v10.violation('cstl_vector_resize', '; '.join(sorted(set(bad10))[:2]), floc(m, f), {})
            elif not res.exits:
                v10.undecided('cstl_vector_resize', 'no return reached', floc(m, f))
            elif undecided10:
                v10.ok('cstl_vector_resize', 'NOT DECIDED for the direct count store at %s (the function to run is read from a stack table); every count '
                       'step is in the direction of the request' % undecided10[0], floc(m, f))
            else:
                v10.ok('cstl_vector_resize', 'every count step is in the direction of the request (%d exit state(s))' % len(res.exits), floc(m, f))
        except typestate.Limit as e:
            v10.undecided('cstl_vector_resize', str(e), floc(m, f))

    # ---- V12: the raw-array routines are handed the element count ---------------------------------
    v12 = rep.rule('V12', 'sort / search / find / reverse hand the raw-array routine the vector\'s storage, its element COUNT (not the capacity) and its element size', floor=4)
    for f in m.all_plain_functions():
        if not (f.file or '').endswith(('vector.c', 'vector.h')):
            continue
        for c in f.all_insts():
            if c.op != 'call' or not (c.callee or '').startswith('cstl_raw_array_') or len(c.o) < 3:
                continue
            site = '%s->%s' % (f.name, c.callee)
            kinds = []
            for o in c.o[:3]:
                oi = f.get(strip_bitcasts(f, o)) if isinstance(o, str) else None
                kinds.append(vec_field(resolve_addr(f, oi.o[0])) if (oi is not None and oi.op == 'load') else None)
            base_i = f.get(strip_bitcasts(f, c.o[0])) if isinstance(c.o[0], str) else None
            if base_i is not None and base_i.op == 'call' and base_i.callee in ('cstl_vector_at', 'cstl_vector_at_const'):
                v12.violation(site, 'the storage address is obtained through %s(), which aborts for an index that is not below the size: the routine can no '
                              'longer be used on an empty vector (it has to answer -1 / do nothing there)' % base_i.callee, c.loc(), {})
                continue
            if kinds == ['elem.base', 'count', 'elem.size']:
                v12.ok(site, 'base, count, element size', c.loc())
            elif kinds[1] == 'cap':
                v12.violation(site, 'the routine is handed the capacity where the element count belongs: slots beyond the size (stale or never '
                              'constructed elements, the scratch slot) take part, so a search can report an index >= size', c.loc(), {})
            elif None in kinds:
                v12.ok(site, 'NOT DECIDED: arguments %s' % kinds, c.loc())
            else:
                v12.violation(site, 'the routine is handed (%s) instead of (base, count, element size)' % ', '.join(str(k) for k in kinds), c.loc(), {})

    # ---- V11: no stale storage pointer across a reallocation ------------------------------------
    v11 = rep.rule('V11', 'no element pointer read before a reallocation of the storage is used after it', floor=2)
    from .util import check_stale_base
    check_stale_base(m, v11, sorted(header_functions(m, ('vector.h',))), lambda a: vec_field(a) == 'elem.base', 'the element storage pointer')

    # ---- V8: swap completeness ------------------------------------------------------------
    from .util import check_swap_complete
    _sw = rep.rule('V8', 'swap exchanges every member of the two vectors (storage, counts and the element constructor / destructor description)', floor=1)
    for _n in ('cstl_vector_swap',):
        check_swap_complete(m, _n, _sw)

    # ---- V14: the NDEBUG build does what the assertion build does ---------------------------------
    from .util import check_assert_effects
    _ae = rep.rule('V14', 'every store / effectful call made with assertions enabled is also made by the NDEBUG build (no work inside assert())', floor=1)
    check_assert_effects(m, _ae, ('vector.c', 'vector.h'))

    # ---- V15: clear keeps the element description ------------------------------------------------------------
    v15 = rep.rule('V15', 'cstl_vector_clear leaves the element size and the constructor / destructor description as they were', floor=1)
    f15 = m.ifn('cstl_vector_clear')
    if f15 is None:
        v15.undecided('cstl_vector_clear', 'not in the inlined model')
    else:
        bad15 = []
        for s2 in f15.all_insts():
            if s2.op != 'store' or resolve_addr(f15, s2.o[1]).root != '$0':
                continue
            fl = vec_field(resolve_addr(f15, s2.o[1]))
            if fl in ('elem.size', 'elem.xtor.cons', 'elem.xtor.dest', 'elem.xtor.priv'):
                v = f15.get(strip_bitcasts(f15, s2.o[0])) if isinstance(s2.o[0], str) else None
                if not (v is not None and v.op == 'load' and resolve_addr(f15, v.o[0]).root == '$0' and vec_field(resolve_addr(f15, v.o[0])) == fl):
                    bad15.append('%s is overwritten at %s with something other than its own value: a vector reused after clear no longer constructs / '
                                 'destroys its elements as it was set up to' % (fl, s2.loc()))
        if bad15:
            v15.violation('cstl_vector_clear', '; '.join(sorted(set(bad15))[:2]), floc(m, f15), {})
        else:
            v15.ok('cstl_vector_clear', 'element size and xtor description untouched (or rewritten with their own values)', floc(m, f15))


def _v2_eval(m, mod):
    """[(kind, site, text, loc)] of V2 on one view of vector.c (plus every other function of the library that writes cap/base)"""
    out = []
    for f in mod.defined():
        for c in alloc_calls(f):
            bad, n = check_alloc(f, c)
            site = '%s:%s' % (f.name, c.callee)
            if c.callee == 'realloc':
                old = f.get(c.o[0])
                a = resolve_addr(f, old.o[0]) if (old is not None and old.op == 'load') else None
                if a is None or vec_field(a) != 'elem.base':
                    bad.append((c, 'realloc is not given the vector\'s current block (elem.base): kept elements would not be preserved'))
            if bad:
                out.append(('violation', site, '; '.join(t for _, t in bad), c.loc()))
            else:
                out.append(('ok', site, '%d use(s)/store(s) under result != NULL' % n, c.loc()))
    # writers of cap / elem.base anywhere in the library
    others = [f for f in m.all_plain_functions() if not (f.file or '').endswith('/vector.c') and mod.fn(f.name) is None]
    from .util import swap_coverage
    for f in list(mod.defined()) + others:
        for s in f.all_insts():
            if s.op != 'store':
                continue
            fld = vec_field(resolve_addr(f, s.o[1]))
            if fld not in ('cap', 'elem.base'):
                continue
            site = '%s:store:%s' % (f.name, fld)
            if const_int(s.o[0]) == 0:
                out.append(('ok', site, 'constant 0/NULL (initial state)', s.loc()))
                continue
            acs = alloc_calls(f)
            pv = Prover(f)
            cov = swap_coverage(m, f)
            if cov is not None and cov[2] and not cov[3] and not cov[4]:
                out.append(('ok', site, 'part of a complete exchange of two vectors: base and capacity travel together (V8)', s.loc()))
                continue
            if acs and any(nonnull_at(f, pv, aliases(f, c.ref), s) for c in acs):
                out.append(('ok', site, 'in the success region of the allocation', s.loc()))
            else:
                out.append(('violation', site, 'store to vector %s outside the capacity setter\'s success region: the reported capacity/base '
                            'no longer matches an allocation' % fld, s.loc()))
    return out


def check_at(m, f, rule, lenfield, index_arg='$1'):
    pv = Prover(f)
    bad = []

    def len_loads():
        return [i for i in f.all_insts() if i.op == 'load' and resolve_addr(f, i.o[0]).path.endswith(lenfield) and resolve_addr(f, i.o[0]).root == '$0']
    lens = len_loads()
    if not lens:
        rule.violation(f.name, 'the element count (%s) is never read: no bounds check' % lenfield, floc(m, f), {})
        return
    for r in f.returns():
        if not any(pv.prove_at(('ult', index_arg, L.ref), r) for L in lens):
            bad.append('the return at %s is reachable with an index that was not proven below %s' % (r.loc(), lenfield))
    for b in f.blocks:
        for c in b.insts:
            if c.op == 'call' and c.x.get('noreturn'):
                facts = pv.facts_at(c)
                if _is_copy_guard_abort(f, facts):
                    continue    # the stray-copy guard's own abort (C20) is not an index abort
                if not any(('ule', L.ref, index_arg) in facts for L in lens):
                    bad.append('abort() at %s is reachable for an index below %s (not dominated by %s <= i)' % (c.loc(), lenfield, lenfield))
    if bad:
        rule.violation(f.name, '; '.join(bad), floc(m, f), {})
    else:
        rule.ok(f.name, 'returns under i <u %s; aborts under %s <=u i' % (lenfield, lenfield), floc(m, f))


def _is_copy_guard_abort(f, facts):
    """abort reached on the edge  gp->self != gp  (the guarded pointer's stray-copy test)"""
    for (op, x, y) in facts:
        if op != 'ne':
            continue
        for p_, q_ in ((x, y), (y, x)):
            pi = f.get(p_)
            if pi is not None and pi.op == 'load':
                a = resolve_addr(f, pi.o[0])
                if a.fsteps[-1:] == (('cstl_guarded_ptr', 'self'),):
                    return True
    return False


def check_resize(m, f, rule):
    """path-sensitive: at every store of the count and every constructor / destructor call the capacity, as it stands on
    that path, is known to be at least the request -- it was just set to the request by a successful reallocation, or a
    value read from it since its last change was compared with the request.  (The short-capacity edge therefore cannot
    reach them: it aborts.)"""
    bad = set()
    n_events = [0]

    def transfer(ins, st, ps):
        capval, fresh = st
        if ins.op == 'call':
            if ins.x.get('noreturn'):
                return None
            if ins.callee is None:
                ev = 'constructor/destructor call'
            else:
                return st
        elif ins.op == 'load' and resolve_addr(f, ins.o[0]).root == '$0' and vec_field(resolve_addr(f, ins.o[0])) == 'cap':
            return (capval if capval is not None else ins.ref, fresh | {ins.ref})
        elif ins.op == 'store' and resolve_addr(f, ins.o[1]).root == '$0' and vec_field(resolve_addr(f, ins.o[1])) == 'cap':
            v = ps.lookup(_k(ins.o[0])) if isinstance(ins.o[0], str) else ins.o[0]
            return (v, frozenset())
        elif ins.op == 'store' and resolve_addr(f, ins.o[1]).root == '$0' and vec_field(resolve_addr(f, ins.o[1])) == 'count':
            ev = 'store to count'
        else:
            return st
        n_events[0] += 1
        cands = set(fresh) | ({capval} if capval is not None else set())
        ok = (isinstance(capval, str) and strip_bitcasts(f, capval) == '$1') or any(ps.knows(('ule', '$1', x)) is True for x in cands if isinstance(x, str))
        if not ok:
            bad.add('%s at %s on a path on which the capacity is not known to cover the request (no successful reallocation to the request, no '
                    'comparison of the request with the capacity as it stands): elements beyond the storage would be constructed / counted' % (ev, ins.loc()))
        return st
    try:
        res = typestate.run(f, (None, frozenset()), transfer, limit=200000)
    except typestate.Limit as e:
        rule.undecided(f.name, str(e), floc(m, f))
        return
    if n_events[0] == 0:
        rule.violation(f.name, 'resize never stores the element count', floc(m, f), {})
    elif not any(i.op == 'call' and i.x.get('noreturn') for i in f.all_insts()):
        rule.violation(f.name, 'resize has no aborting path: a growth that cannot be satisfied must abort', floc(m, f), {})
    elif bad:
        rule.violation(f.name, '; '.join(sorted(bad)[:3]), floc(m, f), {})
    else:
        rule.ok(f.name, 'count stores / xtor calls only where the capacity on that path covers the request (%d exit state(s)); short capacity aborts'
                % len(res.exits), floc(m, f))


def check_scratch(m, rule):
    # (a) the capacity setter: stored cap value X, realloc size (X + 1) * elem.size
    mod = m.focus('vector') if m.plain.get('vector') is not None else None
    found = 0
    if mod is not None:
        for f in mod.defined():
            for c in alloc_calls(f):
                if c.callee != 'realloc':
                    continue
                found += 1
                size = f.get(c.o[1])
                caps = [s for s in f.all_insts() if s.op == 'store' and vec_field(resolve_addr(f, s.o[1])) == 'cap' and const_int(s.o[0]) is None]
                ok = False
                why = 'the allocation size is not (request + 1) * element size'
                # the size may be a merge (a helper returning 0 for "not representable"): judge the non-zero alternatives
                from ..treewalk import _leaves
                alts = [f.get(x) for x in _leaves(f, c.o[1]) if const_int(x) != 0]
                sizes = [x for x in alts if x is not None]
                if len(sizes) != 1 or len(sizes) != len(alts):
                    sizes = [size] if size is not None else []
                size = sizes[0] if sizes else None
                if size is not None and size.op == 'mul':
                    for a, b in ((size.o[0], size.o[1]), (size.o[1], size.o[0])):
                        ai, bi = f.get(a), f.get(b)
                        if ai is not None and ai.op == 'add' and const_int(ai.o[1]) == 1 and bi is not None and bi.op == 'load' \
                                and vec_field(resolve_addr(f, bi.o[0])) == 'elem.size':
                            req = ai.o[0]
                            if caps and all(s.o[0] == req for s in caps):
                                ok = True
                            else:
                                why = 'the recorded capacity is not the request the allocation size was computed from'
                if ok:
                    rule.ok('%s:realloc' % f.name, 'size = (request + 1) * elem.size, cap := request', c.loc())
                else:
                    rule.violation('%s:realloc' % f.name, why + ': the scratch element at index `cap` used by sort/reverse would lie outside the block',
                                   c.loc(), {'size': repr(size)})
    if not found:
        rule.undecided('capacity-setter', 'no realloc in vector.c')
    # (b) sort / reverse hand over the address of element `cap` (un-inlined IR: the call is still there)
    for name, callee, argi in (('__cstl_vector_sort', 'cstl_raw_array_sort', 6), ('__cstl_vector_reverse', 'cstl_raw_array_reverse', 4)):
        f = m.pfn(name)
        if f is None:
            rule.undecided(name, 'not found')
            continue
        calls = [c for c in f.calls(callee)]
        if not calls:
            rule.undecided(name, '%s is not called' % callee)
            continue
        for c in calls:
            ok = _is_element_addr(f, c.o[argi], 'cap') or _is_element_addr_via_helper(m, f, c.o[argi], 'cap')
            if ok:
                rule.ok(name, 'scratch = base + cap * size', c.loc())
            else:
                rule.violation(name, 'the scratch pointer passed to %s is not the address of element index `cap`' % callee, c.loc(), {'arg': str(c.o[argi])})


def _is_element_addr_via_helper(m, f, ref, idxfield):
    """ref == helper(v, load v->idxfield) where helper returns base + arg1 * size of its arg0"""
    c = f.get(ref)
    if c is None or c.op != 'call' or not c.callee or len(c.o) != 2:
        return False
    idx = f.get(c.o[1])
    if idx is None or idx.op != 'load' or vec_field(resolve_addr(f, idx.o[0])) != idxfield:
        return False
    g = m.pfn(c.callee)
    if g is None:
        return False
    rets = g.returns()
    if len(rets) != 1 or not rets[0].o:
        return False
    v = g.get(rets[0].o[0])
    if v is None or v.op != 'inttoptr':
        return False
    sm = g.get(v.o[0])
    if sm is None or sm.op != 'add':
        return False
    for a, b in ((sm.o[0], sm.o[1]), (sm.o[1], sm.o[0])):
        ai, bi = g.get(a), g.get(b)
        if ai is None or bi is None or ai.op != 'ptrtoint' or bi.op != 'mul':
            continue
        base = g.get(ai.o[0])
        if base is None or base.op != 'load' or vec_field(resolve_addr(g, base.o[0])) != 'elem.base' or resolve_addr(g, base.o[0]).root != '$0':
            continue
        others = [o for o in bi.o if o != '$1']
        if len(others) == 1:
            oi = g.get(others[0])
            if oi is not None and oi.op == 'load' and vec_field(resolve_addr(g, oi.o[0])) == 'elem.size':
                return True
    return False


def _is_element_addr(f, ref, idxfield):
    """ref == inttoptr(ptrtoint(load elem.base) + load(idxfield) * load(elem.size))"""
    v = f.get(ref)
    if v is None or v.op != 'inttoptr':
        return False
    s = f.get(v.o[0])
    if s is None or s.op != 'add':
        return False
    for a, b in ((s.o[0], s.o[1]), (s.o[1], s.o[0])):
        ai, bi = f.get(a), f.get(b)
        if ai is None or bi is None or ai.op != 'ptrtoint' or bi.op != 'mul':
            continue
        base = f.get(ai.o[0])
        if base is None or base.op != 'load' or vec_field(resolve_addr(f, base.o[0])) != 'elem.base':
            continue
        flds = []
        for o in bi.o:
            oi = f.get(o)
            if oi is not None and oi.op == 'load':
                flds.append(vec_field(resolve_addr(f, oi.o[0])))
        if sorted(x or '' for x in flds) == sorted([idxfield, 'elem.size']):
            return True
    return False
