"""C08 - the map keeps exactly one entry per key and never replaces or loses one silently (decided clauses).

P1 insert automaton   (path-sensitive, un-inlined cstl_map_insert) key found: no allocation, no tree insert,
        returns 1, iterator built from the found node; key absent and allocation failed: returns -1, iterator
        built from NULL (the end iterator), no tree insert; key absent and node allocated: exactly one tree
        insert of the new node, returns 0, iterator built from the new node.
P2 erase automaton    cstl_map_erase: erase-by-iterator runs only under a non-end iterator filled by find on
        the same key, returns 0 there and -1 otherwise, reports the iterator with `_` cleared;
        cstl_map_erase_iterator: unlink the node from the tree, then free that same node, once each.
P3 immutable entries  cstl_map_node.key / .val are written only by the function that allocates the node.
P4 hint provenance    the parent hint given to the tree insert is the out-value of the find on the same key in
        the same function, with no tree mutation in between.
P5 clear              (C15's map instance) callback sees a detached iterator, node freed afterwards on every path.
NOT decided: anything inherited from the tree's own correctness.
"""
from .. import typestate
from ..facts import Prover, _k, strip_bitcasts
from ..ir import const_int, resolve_addr
from .util import floc
from . import c15

MNODE = 'cstl_map_node'


def run(m, rep, tier):
    p1 = rep.rule('P1', 'insert: found -> 1 untouched; allocation failed -> -1, end iterator; new -> one tree insert, 0', floor=1)
    # map.c with its private helpers inlined, except the lookups, the iterator builders and the end-iterator setter
    # (recognised by effect): "allocate the node" and "allocate and link it" are the same thing to the rules
    pm0 = m.plain.get('map')
    fmod0 = m.focus('map', {g.name for g in pm0.defined() if _map_finder(m, g.name) or _iter_builder(m, g.name) is not None or _end_setter(m, g.name)}) if pm0 is not None else None
    f = fmod0.fn('cstl_map_insert') if fmod0 is not None else None
    if f is not None and f.decl:
        f = None
    if f is None:
        p1.undecided('cstl_map_insert', 'not in the model')
    else:
        check_insert(m, f, p1)

    p2 = rep.rule('P2', 'erase: by-iterator only for a found entry, 0 / -1, iterator detached; unlink then free once', floor=2)
    # map.c with its private helpers inlined, except the lookups and the iterator builders (recognised by effect): "unlink and release the node" may
    # be a helper shared by erase and erase-by-iterator
    pm = m.plain.get('map')
    fmod = m.focus('map', {g.name for g in pm.defined() if _map_finder(m, g.name) or _iter_builder(m, g.name) is not None or _end_setter(m, g.name)}) if pm is not None else None
    f = fmod.fn('cstl_map_erase') if fmod is not None else None
    if f is None or f.decl:
        p2.undecided('cstl_map_erase', 'not in the model')
    else:
        check_erase(m, f, p2)
    f = fmod.fn('cstl_map_erase_iterator') if fmod is not None else None
    if f is not None and f.decl:
        f = None
    if f is None:
        p2.undecided('cstl_map_erase_iterator', 'not in the model')
    else:
        check_erase_iterator(m, f, p2)

    p3 = rep.rule('P3', 'stored key / value pointers are written only when the node is created', floor=1)
    writers = {}
    for f in m.all_plain_functions():
        for s in f.all_insts():
            if s.op == 'store':
                a = resolve_addr(f, s.o[1])
                if a.fsteps[-1:] in (((MNODE, 'key'),), ((MNODE, 'val'),)):
                    writers.setdefault(f.name, []).append(s)
    for name, ss in sorted(writers.items()):
        f = m.pfn(name)
        allocs = [c for c in f.all_insts() if c.op == 'call' and c.callee in ('malloc', 'calloc')]
        fresh = True
        for s in ss:
            root = resolve_addr(f, s.o[1]).root
            if not any(strip_bitcasts(f, root) == c.ref for c in allocs):
                # a probe node on the stack used only for searching is not a map entry
                ri = f.get(root) if isinstance(root, str) else None
                if ri is not None and ri.op == 'alloca':
                    continue
                fresh = False
        if fresh:
            p3.ok(name, 'writes key/val of a node it just allocated (or of a stack probe)', floc(m, f))
        else:
            p3.violation(name, 'writes the key / value pointer of an existing map node at %s: an entry would be replaced silently' % ss[0].loc(), floc(m, f), {})
    if not writers:
        p3.undecided('map-node', 'no writer of cstl_map_node.key/val found')

    p4 = rep.rule('P4', 'the insert hint is the would-be parent reported by the find on the same key', floor=1)
    f = fmod0.fn('cstl_map_insert') if fmod0 is not None else None
    if f is not None and not f.decl:
        check_hint(m, f, p4)

    # ---- P6: (function pointer, context) pairing ---------------------------------------------
    from .util import check_callback_context
    _cb = rep.rule('P6', 'every call through a caller-supplied function pointer passes the context supplied with it', floor=1)
    check_callback_context(m, _cb, ('map.c',))

    p5 = rep.rule('P5', 'map clear: detached iterator, node freed after the callback on every path', floor=1)
    c15.check_map_adapter(m, p5, rep.rule('P5b', 'map clear: one callback site, one free per node', floor=1))

    # ---- P7: the NDEBUG build does what the assertion build does ---------------------------------
    from .util import check_assert_effects
    _ae = rep.rule('P7', 'every store / effectful call made with assertions enabled is also made by the NDEBUG build (no work inside assert())', floor=1)
    check_assert_effects(m, _ae, ('map.c', 'map.h'))

    # ---- P8: const parameters stay untouched; no state outside the frame -----------------------------------
    from .util import check_no_mutable_globals, check_const_params
    p8 = rep.rule('P8', 'map.c defines no writable static object; a pointer-to-const parameter (the key) is never written through', floor=2)
    check_no_mutable_globals(m, p8, ('map',))
    check_const_params(m, p8, ('map.h',))

    # ---- P9: find fills in the whole iterator ---------------------------------------------------------------
    p9 = rep.rule('P9', 'cstl_map_find writes every member of the iterator it is given on every path (stored pointers, or the end iterator)', floor=1)
    f9 = m.ifn('cstl_map_find')
    if f9 is None:
        p9.undecided('cstl_map_find', 'not in the inlined model')
    else:
        members = ('key', 'val', '_')

        def transfer9(ins, st, ps):
            if ins.op == 'call':
                if ins.x.get('noreturn'):
                    return None
                if (ins.callee or '').startswith('llvm.memcpy') and resolve_addr(f9, ins.o[0]).root == '$2' and not resolve_addr(f9, ins.o[0]).steps:
                    return frozenset(members)
            if ins.op == 'store':
                a = resolve_addr(f9, ins.o[1])
                if a.root == '$2' and a.steps and a.steps[0] in members:
                    return st | {a.steps[0]}
            return st
        try:
            res9 = typestate.run(f9, frozenset(), transfer9, limit=60000)
            short = [(r, ps.auto) for r, ps in res9.exits if set(ps.auto) != set(members)]
            if not res9.exits:
                p9.undecided('cstl_map_find', 'no return reached', floc(m, f9))
            elif short:
                r, got = short[0]
                p9.violation('cstl_map_find', 'a path to the return at %s leaves the iterator member(s) %s as they were (e.g. the shortcut for an empty map): '
                             'the caller reads pointers from an earlier lookup, or uninitialised memory' % (r.loc(), ', '.join(sorted(set(members) - set(got)))), floc(m, f9), {})
            else:
                p9.ok('cstl_map_find', 'key, val and the node handle are written on all %d exit state(s)' % len(res9.exits), floc(m, f9))
        except typestate.Limit as e:
            p9.undecided('cstl_map_find', str(e), floc(m, f9))


def _callee_allocates(m, name):
    g = m.pfn(name)
    return g is not None and any(c.op == 'call' and c.callee in ('malloc', 'calloc') for c in g.all_insts())


def check_insert(m, f, rule):
    finds = [c for c in f.all_insts() if c.op == 'call' and c.callee and _map_finder(m, c.callee)]
    allocs = [c for c in f.all_insts() if c.op == 'call' and c.callee and (c.callee in ('malloc', 'calloc') or _callee_allocates(m, c.callee))]
    inserts = [c for c in f.all_insts() if c.op == 'call' and c.callee in ('cstl_rbtree_insert', 'cstl_bintree_insert')]
    iters = [c for c in f.all_insts() if c.op == 'call' and c.callee and _iter_builder(m, c.callee) is not None]
    if len(finds) != 1 or not allocs or not inserts:
        rule.undecided('cstl_map_insert', 'find / node allocation / tree insert calls not recognised (%d/%d/%d)' % (len(finds), len(allocs), len(inserts)), floc(m, f))
        return
    fnd = finds[0]
    bad = set()
    # automaton: (allocs done, inserts done (node value), iterator source value)
    init = (0, (), '-')

    def transfer(ins, st, ps):
        na, ins_nodes, it = st
        if ins.op == 'call':
            if ins.x.get('noreturn'):
                return None
            if ins in allocs:
                return (min(na + 1, 3), ins_nodes, it)
            if ins in inserts:
                return (na, ins_nodes + (ps.lookup(_k(strip_bitcasts(f, ins.o[1]))),), it)
            if ins in iters:
                return (na, ins_nodes, ps.lookup(_k(strip_bitcasts(f, ins.o[_iter_builder(m, ins.callee)]))))
            if ins.callee and _end_setter(m, ins.callee) and any(isinstance(o, str) and strip_bitcasts(f, o) == '$3' for o in ins.o):
                return (na, ins_nodes, 'end')
            if (ins.callee or '').startswith('llvm.memcpy') and resolve_addr(f, ins.o[0]).root == '$3':
                src = f.get(strip_bitcasts(f, resolve_addr(f, ins.o[1]).root)) if isinstance(resolve_addr(f, ins.o[1]).root, str) else None
                if src is not None and src.op == 'call' and src.callee == 'cstl_map_iterator_end':
                    return (na, ins_nodes, 'end')
        return st

    try:
        res = typestate.run(f, init, transfer, limit=50000)
    except typestate.Limit as e:
        rule.undecided('cstl_map_insert', str(e), floc(m, f))
        return
    kinds = set()
    for ret, ps in res.exits:
        na, ins_nodes, it = ps.auto
        rv = const_int(typestate.value_of(f, ps, ret.o[0])) if ret.o else None
        found = ps.knows(('ne', fnd.ref, 'null'))
        iter_known = ps.knows(('ne', '$3', 'null'))
        if found is True:
            kinds.add('found')
            if na or ins_nodes:
                bad.add('an existing key still leads to %s' % ('an allocation' if na else 'a tree insert'))
            if rv != 1:
                bad.add('an existing key returns %s instead of 1' % rv)
            if iter_known is True and it != fnd.ref:
                bad.add('for an existing key the iterator is not built from the found entry')
        elif found is False:
            a_ok = [ps.knows(('ne', a.ref, 'null')) for a in allocs]
            if any(x is True for x in a_ok):
                kinds.add('new')
                new = [a.ref for a, x in zip(allocs, a_ok) if x is True][0]
                if len(ins_nodes) != 1 or ins_nodes[0] != new:
                    bad.add('a new key does not lead to exactly one tree insert of the new node (%d)' % len(ins_nodes))
                if rv != 0:
                    bad.add('a new key returns %s instead of 0' % rv)
                if iter_known is True and it != new:
                    bad.add('for a new key the iterator is not built from the new entry')
            elif any(x is False for x in a_ok):
                kinds.add('failed')
                if ins_nodes:
                    bad.add('a failed allocation still leads to a tree insert')
                if rv != (1 << 32) - 1:
                    bad.add('a failed allocation returns %s instead of -1' % rv)
                if iter_known is True and it not in ('null', 'end') + tuple(a.ref for a in allocs):
                    bad.add('after a failed allocation the iterator is not the end iterator')
            else:
                bad.add('a path with the key absent returns at %s without the allocation outcome being decided' % ret.loc())
        else:
            bad.add('a path returns at %s without deciding whether the key exists' % ret.loc())
    if kinds != {'found', 'new', 'failed'}:
        bad.add('not all three outcomes (found / new / allocation failed) are distinguished: %s' % sorted(kinds))
    if bad:
        rule.violation('cstl_map_insert', '; '.join(sorted(bad)[:4]), floc(m, f), {})
    else:
        rule.ok('cstl_map_insert', '%d exit states: found -> 1, new -> insert once + 0, failed -> -1' % len(res.exits), floc(m, f))


def _iter_builder(m, name):
    """a private function of map.c that fills an iterator from a node (stores `_` := that node): index of its node parameter"""
    g = m.pfn(name)
    if g is None or not (g.file or '').endswith('map.c') or g.linkage != 'internal':
        return None
    for s in g.all_insts():
        if s.op == 'store' and resolve_addr(g, s.o[1]).fsteps[-1:] == (('cstl_map_iterator_t', '_'),):
            v = strip_bitcasts(g, s.o[0]) if isinstance(s.o[0], str) else s.o[0]
            if isinstance(v, str) and v.startswith('$') and v[1:].isdigit():
                return int(v[1:])
    return None


def _end_setter(m, name):
    """a private function of map.c that copies the map's end iterator into the iterator it is given"""
    g = m.pfn(name)
    if g is None or not (g.file or '').endswith('map.c') or g.linkage != 'internal':
        return False
    ends = [c for c in g.calls('cstl_map_iterator_end')]
    if not ends:
        return False
    for c in g.all_insts():
        if c.op == 'call' and (c.callee or '').startswith('llvm.memcpy'):
            d, s_ = resolve_addr(g, c.o[0]), resolve_addr(g, c.o[1])
            if isinstance(d.root, str) and d.root.startswith('$') and isinstance(s_.root, str) and strip_bitcasts(g, s_.root) in {e.ref for e in ends}:
                return True
    return False


def _map_finder(m, name):
    """by effect: reaches the tree search and stores nothing into a map / tree node"""
    g = m.ifn(name)
    if g is None or not (g.file or '').endswith('map.c'):
        return False
    cmp = any(c.op == 'call' and c.callee is None and c.x.get('fty') == 'i32 (i8*, i8*, i8*)' for c in g.all_insts())
    wr = False
    for s in g.all_insts():
        if s.op == 'store':
            a = resolve_addr(g, s.o[1])
            ri = g.get(a.root) if isinstance(a.root, str) else None
            if ri is not None and ri.op == 'alloca':
                continue                      # the probe node on the stack
            if a.fsteps[-1:] and a.fsteps[-1][0] in (MNODE, 'cstl_bintree_node', 'cstl_rbtree_node', 'cstl_bintree'):
                wr = True
    return cmp and not wr


def check_erase(m, f, rule):
    bad = set()
    calls = [c for c in f.all_insts() if c.op == 'call' and c.callee and not c.is_intrinsic()]
    finds = [c for c in calls if _map_finder(m, c.callee)]
    erases = [c for c in calls if c.callee == 'cstl_map_erase_iterator']
    direct = False
    if not erases:
        # erase-by-iterator inlined by hand: unlink the tree node of the entry that was found, then free the entry
        erases = [c for c in calls if c.callee in ('__cstl_rbtree_erase', '__cstl_bintree_erase')]
        direct = True
    if len(finds) != 1 or len(erases) != 1:
        rule.undecided('cstl_map_erase', 'lookup / erase-by-iterator calls not recognised (%d/%d)' % (len(finds), len(erases)), floc(m, f))
        return
    fnd, er = finds[0], erases[0]
    if fnd.o[:2] != ['$0', '$1']:
        bad.add('the lookup is not for the caller\'s key in the caller\'s map')
    if direct:
        return _check_erase_direct(m, f, rule, fnd, er, calls, bad)
    it = strip_bitcasts(f, er.o[1])                       # the local iterator handed to erase-by-iterator
    # who fills that iterator: the lookup itself (iterator-level find) or an iterator_init from the node it returned
    fillers = [c for c in calls if c is not er and any(isinstance(o, str) and strip_bitcasts(f, o) == it for o in c.o)]
    filled_from_find = False
    for c in fillers:
        if c is fnd:
            filled_from_find = True
        elif any(isinstance(o, str) and strip_bitcasts(f, o) == fnd.ref for o in c.o) and f.dominates(fnd, c):
            filled_from_find = True
    if not filled_from_find or not all(f.dominates(c, er) or not _reach(f, c, er) for c in fillers) or not any(f.dominates(c, er) for c in fillers):
        bad.add('the iterator erased is not the one find filled')
    # values whose non-NULL-ness means "the key was found"
    keys = []
    if fnd.ty and fnd.ty.endswith('*'):
        keys.append(fnd.ref)
    for ld in f.all_insts():
        if ld.op == 'load':
            a = resolve_addr(f, ld.o[0])
            if a.fsteps[-1:] == (('cstl_map_iterator_t', '_'),) and strip_bitcasts(f, a.root) == it and any(f.dominates(c, ld) for c in fillers):
                keys.append(ld.ref)

    def found(ps):
        ks = [ps.knows(('ne', _k(k), 'null')) for k in keys]
        if any(x is True for x in ks):
            return True
        if any(x is False for x in ks):
            return False
        return None

    def transfer(ins, st, ps):
        n, det, out = st
        if ins.op == 'call':
            if ins.x.get('noreturn'):
                return None
            if ins is er:
                if found(ps) is not True:
                    bad.add('erase-by-iterator runs even when find produced the end iterator')
                return (min(n + 1, 2), det, out)
            if ins in fillers:
                return (n, False, out)
            if (ins.callee or '').startswith('llvm.memcpy') and resolve_addr(f, ins.o[0]).root == '$2':
                if ps.knows(('ne', '$2', 'null')) is not True:
                    bad.add('the out-parameter is written without a NULL check')
                src = strip_bitcasts(f, resolve_addr(f, ins.o[1]).root)
                return (n, det, 'detached' if (src == it and det) else 'attached')
        if ins.op == 'store':
            a = resolve_addr(f, ins.o[1])
            if a.fsteps[-1:] == (('cstl_map_iterator_t', '_'),):
                z = ins.o[0] == 'null' or const_int(ins.o[0]) == 0
                if a.root == '$2':
                    if ps.knows(('ne', '$2', 'null')) is not True:
                        bad.add('the out-parameter is written without a NULL check')
                    return (n, det, 'detached' if z else 'attached')
                if strip_bitcasts(f, a.root) == it:
                    return (n, z, out)
        return st

    rel = set(keys) | {'$2'}
    for i2 in f.all_insts():
        if i2.op == 'icmp' and any(o in rel for o in i2.o):
            rel.add(i2.ref)
    try:
        res = typestate.run(f, (0, False, 'none'), transfer, limit=50000)
    except typestate.Limit as e:
        rule.undecided('cstl_map_erase', str(e), floc(m, f))
        return
    if not res.exits:
        rule.undecided('cstl_map_erase', 'no return reached', floc(m, f))
        return
    for ret, ps in res.exits:
        n, det, out = ps.auto
        rv = const_int(typestate.value_of(f, ps, ret.o[0])) if ret.o else None
        fd = found(ps)
        if fd is True:
            if n != 1:
                bad.add('a found entry is removed %d time(s)' % n)
            if rv != 0:
                bad.add('a removed entry is reported with %s instead of 0' % rv)
        elif fd is False:
            if n:
                bad.add('erase-by-iterator runs even when find produced the end iterator')
            if rv != (1 << 32) - 1:
                bad.add('an absent key is reported with %s instead of -1' % rv)
        else:
            bad.add('a path returns at %s without deciding whether the key was found' % ret.loc())
        wants = ps.knows(('ne', '$2', 'null'))
        if wants is True and out != 'detached':
            bad.add({'none': 'the iterator is not reported although the caller asked for it',
                     'attached': 'the reported iterator is not detached (`_` := NULL)'}[out])
        if wants is None and out != 'none':
            bad.add('the out-parameter is written without a NULL check')
        if wants is None and out == 'none':
            bad.add('a path returns at %s without reporting an iterator (it never looks at the out-parameter): the caller\'s iterator keeps '
                    'whatever it held instead of the end iterator' % ret.loc())
    if bad:
        rule.violation('cstl_map_erase', '; '.join(sorted(bad)[:4]), floc(m, f), {})
    else:
        rule.ok('cstl_map_erase', 'find -> (non-end) erase-by-iterator once -> 0, else -1; reported iterator detached (%d exit state(s))' % len(res.exits), floc(m, f))


def _check_erase_direct(m, f, rule, fnd, er, calls, bad):
    """cstl_map_erase that unlinks and frees the found entry itself"""
    node = resolve_addr(f, er.o[1])
    if strip_bitcasts(f, node.root) != fnd.ref:
        bad.add('the tree node unlinked at %s is not the one of the entry the lookup found' % er.loc())
    frees = [c for c in calls if c.callee == 'free' or (c.callee and _callee_frees(m, c.callee))]
    if len(frees) != 1 or strip_bitcasts(f, frees[0].o[0]) != fnd.ref or not f.dominates(er, frees[0]):
        bad.add('the entry found is not freed exactly once after it was unlinked')
    pk = _k(fnd.ref)

    def transfer(ins, st, ps):
        n, out = st
        if ins.op == 'call':
            if ins.x.get('noreturn'):
                return None
            if ins is er:
                if ps.knows(('ne', pk, 'null')) is not True:
                    bad.add('the unlink runs even when the key was not found')
                return (min(n + 1, 2), out)
        if ins.op == 'store':
            a = resolve_addr(f, ins.o[1])
            if a.root == '$2' and a.fsteps[-1:] == (('cstl_map_iterator_t', '_'),):
                if ps.knows(('ne', '$2', 'null')) is not True:
                    bad.add('the out-parameter is written without a NULL check')
                return (n, 'detached' if (ins.o[0] == 'null' or const_int(ins.o[0]) == 0) else 'attached')
        if ins.op == 'load' and fnd.ref in (strip_bitcasts(f, resolve_addr(f, ins.o[0]).root),) and n >= 1 and any(f.dominates(fr, ins) for fr in frees):
            bad.add('the entry is read at %s after it was freed' % ins.loc())
        return st
    try:
        res = typestate.run(f, (0, 'none'), transfer, limit=50000)
    except typestate.Limit as e:
        rule.undecided('cstl_map_erase', str(e), floc(m, f))
        return
    for ret, ps in res.exits:
        n, out = ps.auto
        rv = const_int(typestate.value_of(f, ps, ret.o[0])) if ret.o else None
        fd = ps.knows(('ne', pk, 'null'))
        if fd is True and (n != 1 or rv != 0):
            bad.add('a found entry is removed %d time(s) and reported with %s' % (n, rv))
        elif fd is False and (n != 0 or rv != (1 << 32) - 1):
            bad.add('an absent key is reported with %s (removals: %d)' % (rv, n))
        elif fd is None:
            bad.add('a path returns at %s without deciding whether the key was found' % ret.loc())
        wants = ps.knows(('ne', '$2', 'null'))
        if wants is True and out != 'detached':
            bad.add('the reported iterator is not detached (`_` := NULL)' if out == 'attached' else 'the iterator is not reported although the caller asked for it')
        if wants is None:
            bad.add('a path returns at %s without looking at the out-parameter' % ret.loc())
    if bad:
        rule.violation('cstl_map_erase', '; '.join(sorted(bad)[:4]), floc(m, f), {})
    else:
        rule.ok('cstl_map_erase', 'find -> unlink + free of that entry once -> 0, else -1; reported iterator detached (%d exit state(s))' % len(res.exits), floc(m, f))


def _reach(f, a, b):
    if a.block is b.block:
        return a.pos < b.pos
    return b.block in f.reachable_from(a.block)


def check_erase_iterator(m, f, rule):
    bad = []
    unl = [c for c in f.all_insts() if c.op == 'call' and c.callee in ('__cstl_rbtree_erase', '__cstl_bintree_erase')]
    frees = [c for c in f.all_insts() if c.op == 'call' and (c.callee == 'free' or (c.callee and _callee_frees(m, c.callee)))]
    if len(unl) != 1:
        bad.append('%d unlink call(s) per erase' % len(unl))
    if len(frees) != 1:
        bad.append('%d free(s) per erase' % len(frees))
    if unl and frees:
        if not f.dominates(unl[0], frees[0]):
            bad.append('the node is freed before it is unlinked from the tree')
        n_un = resolve_addr(f, unl[0].o[1]).root
        n_fr = strip_bitcasts(f, frees[0].o[0])
        if strip_bitcasts(f, n_un) != n_fr:
            bad.append('the node freed is not the node unlinked')
        ni = f.get(n_fr)
        if ni is None or ni.op != 'load' or resolve_addr(f, ni.o[0]).fsteps[-1:] != (('cstl_map_iterator_t', '_'),) or resolve_addr(f, ni.o[0]).root != '$1':
            bad.append('the node erased is not the one the iterator refers to')
        for r in f.returns():
            if not f.dominates(frees[0], r):
                bad.append('a path returns without freeing the unlinked node')
    if bad:
        rule.violation('cstl_map_erase_iterator', '; '.join(sorted(set(bad))), floc(m, f), {})
    else:
        rule.ok('cstl_map_erase_iterator', 'unlink(iterator node) then free(same node), once each', floc(m, f))


def _callee_frees(m, name):
    g = m.pfn(name)
    return g is not None and len(list(g.calls('free'))) == 1 and len(list(g.all_insts())) < 12


def check_hint(m, f, rule):
    inserts = [c for c in f.all_insts() if c.op == 'call' and c.callee in ('cstl_rbtree_insert', 'cstl_bintree_insert')]
    finds = [c for c in f.all_insts() if c.op == 'call' and c.callee and 'find' in c.callee]
    if not inserts or len(finds) != 1:
        rule.undecided('cstl_map_insert:hint', 'insert / find calls not recognised', floc(m, f))
        return
    fnd = finds[0]
    bad = []
    for c in inserts:
        h = strip_bitcasts(f, c.o[2])
        if h == 'null':
            continue
        hi = f.get(h)
        slot = strip_bitcasts(f, hi.o[0]) if (hi is not None and hi.op == 'load') else None
        outs = [strip_bitcasts(f, o) for o in fnd.o if isinstance(o, str)]
        if slot is None or slot not in outs:
            bad.append('the hint passed at %s is not the would-be parent reported by the find' % c.loc())
        if fnd.o[1] != '$1':
            bad.append('the find that produced the hint was not for the key being inserted')
        if not f.dominates(fnd, c):
            bad.append('the hint is used before the find ran')
        # no tree mutation between the find and the insert
        for x in f.all_insts():
            if x.op == 'call' and x is not c and x is not fnd and x.callee and any(t in x.callee for t in ('insert', 'erase', 'clear')) \
                    and f.dominates(fnd, x) and f.dominates(x, c):
                bad.append('the tree is modified at %s between the find and the hinted insert' % x.loc())
    # the internal find forwards its out-parameter to the tree find
    g = m.pfn(fnd.callee)
    if g is not None:
        tf = [c for c in g.all_insts() if c.op == 'call' and c.callee in ('cstl_rbtree_find', 'cstl_bintree_find')]
        if not tf or strip_bitcasts(g, tf[0].o[2]) != '$2':
            bad.append('%s does not hand its parent out-parameter to the tree search' % fnd.callee)
    if bad:
        rule.violation('cstl_map_insert:hint', '; '.join(sorted(set(bad))), floc(m, f), {})
    else:
        rule.ok('cstl_map_insert:hint', 'hint = parent reported by find(key) with no mutation in between', floc(m, f))
