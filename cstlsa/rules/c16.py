"""C16 - allocation failure never corrupts a container (decided clauses).

F1 checked results    every malloc/realloc/calloc result in the library is dereferenced, stored or passed
        on only under result != NULL, and every store into an object the allocating function received
        happens only in that success region (so realloc's old pointer is overwritten only on success).
        Floor: the 5 allocation sites of the library.                    [dominating facts, per function]
F2 failure-path purity   in every public entry point that (transitively) allocates, on every path on
        which an allocation is known to have failed, nothing is stored into the container (first
        parameter) after the failure, up to the return.  Decided on the whole-library inlined IR by the
        path-sensitive typestate engine with a store/load model of the container fields (so that a
        re-read capacity is known to be the unchanged one).
F3 documented result   cstl_map_insert returns -1 on the failing path.
F5 no leak of a half-built block   on every path to a return, every block allocated on that path was
        committed into memory, returned, or freed (e.g. the shared pointer's bookkeeping block when the
        managed block could not be allocated).
F7 no access through the failed result   on every path on which an allocation is known to have failed, no load or
        store goes through its NULL result (a helper that stopped accepting NULL, called on the failure path).
NOT decided: "nothing leaked over a whole script", behaviour under repeated failures across calls.
"""
from .. import typestate
from ..allocrules import alloc_calls, check_alloc, aliases, ALLOCATORS
from ..ir import resolve_addr, is_arg, const_int
from ..facts import _k
from .util import header_functions, floc

FAIL_CODES = {'cstl_map_insert': (1 << 32) - 1}


def run(m, rep, tier):
    from .. import canaries
    canaries.run(m, rep, ('alloc',))
    f1 = rep.rule('F1', 'allocator results are used / committed only under result != NULL', floor=5)
    for f in m.all_plain_functions():
        for c in alloc_calls(f):
            bad, n = check_alloc(f, c)
            site = '%s:%s' % (f.name, c.callee)
            if bad:
                f1.violation(site, '; '.join(t for _, t in bad[:3]), c.loc(), {})
            else:
                f1.ok(site, '%d use(s)/store(s) in the success region' % n, c.loc())

    f2 = rep.rule('F2', 'after a failed allocation nothing is stored into the container before returning', floor=8)
    f3 = rep.rule('F3', 'documented failure code is returned on the failing path', floor=1)
    f5 = rep.rule('F5', 'a block allocated on a path is committed, returned or freed before the return', floor=8)
    f7 = rep.rule('F7', 'on a path where an allocation failed nothing is read or written through its NULL result', floor=8)
    hdrs = ('vector.h', 'hash.h', 'map.h', 'memory.h', 'array.h', '_string.h', 'rbtree.h', 'bintree.h', 'heap.h', 'dlist.h', 'slist.h')
    ents = header_functions(m, hdrs)
    n_alloc_entries = 0
    for name in sorted(ents):
        f = m.ifn(name)
        if f is None:
            continue
        acs = alloc_calls(f)
        if not acs:
            continue
        n_alloc_entries += 1
        check_failure_paths(m, f, acs, f2, f3, f5, f7)
    rep.extra['allocating_entry_points'] = n_alloc_entries
    f6 = rep.rule('F6', 'hash resize: nothing of the table changes before the bucket allocation is known to have succeeded', floor=1)
    from ..hashmodel import focus_hash
    # view with the role-less private helpers inlined (the capacity setter, which calls realloc, stays a function)
    fmod = focus_hash(m) if 'hash' in m.plain else None
    pf = fmod.fn('cstl_hash_resize') if fmod is not None else None
    if pf is None or pf.decl:
        f6.undecided('cstl_hash_resize', 'not in the model')
    else:
        setters = {g.name for g in fmod.defined() if alloc_calls(g)}
        reqs = [c for c in pf.all_insts() if c.op == 'call' and c.callee in setters]
        early = []
        for s in pf.all_insts():
            touch = (s.op == 'store' and resolve_addr(pf, s.o[1]).root == '$0') or (s.op == 'call' and s.callee == 'cstl_hash_rehash')
            if touch and reqs and any(_can_precede(pf, s, c) for c in reqs):
                early.append(s)
        if not reqs:
            f6.undecided('cstl_hash_resize', 'the capacity request (function that reallocates the bucket array) was not found')
        elif early:
            f6.violation('cstl_hash_resize', 'the table is modified at %s before the bucket allocation it depends on: if that allocation fails the function '
                         'returns quietly with the table disturbed' % early[0].loc(), floc(m, pf), {})
        else:
            f6.ok('cstl_hash_resize', 'no store into the table and no forced rehash can precede the capacity request', floc(m, pf))
    rep.assumptions += ['malloc/realloc/free and user callbacks do not modify library-private state (realloc keeps the old block on failure)']


def _can_precede(f, a, b):
    """instruction a can execute before instruction b on some path"""
    if a.block is b.block:
        return a.pos < b.pos
    return b.block.idx in {x.idx for x in f.reachable_from(a.block)}


def relevant_values(f, alias_of):
    rel = set(alias_of)
    from_alloc = set(alias_of)
    for k in range(len(f.args)):
        rel.add('$%d' % k)
    changed = True
    while changed:
        changed = False
        for i in f.all_insts():
            if i.ref in rel:
                continue
            add = False
            if i.op == 'load':
                a = resolve_addr(f, i.o[0])
                add = isinstance(a.root, str) and a.root in rel
            elif i.op in ('bitcast', 'zext', 'trunc', 'ptrtoint', 'inttoptr'):
                add = isinstance(i.o[0], str) and i.o[0] in rel
            elif i.op == 'phi':
                add = all((isinstance(o, str) and (o in rel or const_int(o) is not None or o in ('null', 'undef'))) for o in i.o)
                if not add and any(isinstance(o, str) and o in from_alloc for o in i.o):
                    add = True                       # "the new block or the one found" merged for the tail
                    from_alloc.add(i.ref)
                elif add and any(isinstance(o, str) and o in from_alloc for o in i.o):
                    from_alloc.add(i.ref)
            elif i.op == 'icmp':
                add = any(isinstance(o, str) and o in rel for o in i.o)
            elif i.op == 'select':
                add = isinstance(i.o[0], str) and i.o[0] in rel      # err = (node != NULL) ? 0 : -1
            if add:
                rel.add(i.ref)
                changed = True
    return rel


def check_failure_paths(m, f, acs, f2, f3, f5, f7):
    alias_of = {}
    for c in acs:
        for a in aliases(f, c.ref):
            alias_of[a] = c.ref
    # pointers computed from a block (element/node addresses, phis merging it with NULL): storing or
    # passing one of them makes the block reachable from elsewhere
    derived_of = dict(alias_of)
    changed = True
    while changed:
        changed = False
        for i in f.all_insts():
            if i.ref in derived_of:
                continue
            if i.op in ('bitcast', 'getelementptr', 'ptrtoint', 'inttoptr', 'add', 'sub', 'phi', 'select'):
                srcs = {derived_of[o] for o in i.o if isinstance(o, str) and o in derived_of}
                if len(srcs) == 1:
                    derived_of[i.ref] = srcs.pop()
                    changed = True
    bad2 = set()
    bad5 = set()
    bad7 = set()

    def through_failed(ins, execd, ps):
        # a load / store whose address is computed from an allocation result that is NULL on this path
        if ins.op not in ('load', 'store'):
            return
        ar = ins.o[0] if ins.op == 'load' else ins.o[1]
        if not isinstance(ar, str):
            return
        root = resolve_addr(f, ar).root
        if not isinstance(root, str):
            return
        rv = typestate.value_of(f, ps, root)
        r = alias_of.get(rv) if isinstance(rv, str) else None
        if r is not None and r in execd and ps.knows(('eq', r, 'null')) is True:
            bad7.add('memory is %s through the result of the allocation at %s at %s on a path where that allocation failed (NULL)'
                     % ('read' if ins.op == 'load' else 'written', f.get(r).loc(), ins.loc()))

    # automaton: (allocs executed, allocs escaped/freed)
    def transfer(ins, st, ps):
        execd, gone = st
        through_failed(ins, execd, ps)
        if ins.op == 'call':
            if ins.x.get('noreturn'):
                return None
            if ins.callee in ALLOCATORS:
                execd = (execd - {ins.ref}) | {ins.ref}
                gone = gone - {ins.ref}
                if ins.callee == 'realloc':
                    pass
                return (execd, gone)
            for o in ins.o:
                if isinstance(o, str) and o in derived_of:
                    gone = gone | {derived_of[o]}     # freed, or handed to another function
            return (execd, gone)
        if ins.op == 'store':
            v = ins.o[0]
            if isinstance(v, str) and v in derived_of:
                # a pointer into the block stored inside the same block (e.g. the guarded pointer's
                # self-address) does not make the block reachable from anywhere else
                if derived_of.get(ins.o[1]) != derived_of[v]:
                    gone = gone | {derived_of[v]}
            a = resolve_addr(f, ins.o[1])
            if a.root == '$0' and a.steps:
                for r in execd:
                    if ps.knows(('eq', r, 'null')) is True:
                        bad2.add('store into %s->%s at %s although the allocation at %s failed on this path' % (
                            f.vname('$0'), a.path, ins.loc(), f.get(r).loc()))
            return (execd, gone)
        if ins.op == 'ret':
            for r in execd - gone:
                k = ps.knows(('eq', r, 'null'))
                if k is True:
                    continue
                rv = ins.o[0] if ins.o else None
                if rv is not None and isinstance(rv, str) and derived_of.get(ps.lookup(rv)) == r:
                    continue
                if rv is not None and isinstance(rv, str) and derived_of.get(rv) == r:
                    continue
                bad5.add('the block allocated at %s is neither stored, returned nor freed on a path to the return at %s' % (f.get(r).loc(), ins.loc()))
            code = FAIL_CODES.get(f.name)
            if code is not None and ins.o:
                for r in execd:
                    if ps.knows(('eq', r, 'null')) is True:
                        v = const_int(typestate.value_of(f, ps, ins.o[0]))
                        if v != code:
                            bad3.add('returns %s instead of -1 on the path where the allocation at %s failed' % (typestate.value_of(f, ps, ins.o[0]), f.get(r).loc()))
        return (execd, gone)

    bad3 = set()
    # path knowledge is kept only about values that matter here: parameters, allocation results, the
    # contents of memory rooted at either (store/load model), and phis/casts merging such values
    tracked = relevant_values(f, alias_of)
    tm = typestate.with_memory(f, transfer, lambda a: bool(a.steps) and isinstance(a.root, str) and (is_arg(a.root) or a.root in alias_of))
    try:
        res = typestate.run(f, ((frozenset(), frozenset()), frozenset()), tm, track=lambda r: r in tracked, limit=300000)
    except typestate.Limit as e:
        f2.undecided(f.name, str(e), floc(m, f))
        return
    if bad2:
        f2.violation(f.name, '; '.join(sorted(bad2)[:3]), floc(m, f), {})
    else:
        f2.ok(f.name, '%d allocation site(s); %d exit state(s); no store into the container after a known failure' % (len(acs), len(res.exits)), floc(m, f))
    if bad7:
        f7.violation(f.name, '; '.join(sorted(bad7)[:3]), floc(m, f), {})
    else:
        f7.ok(f.name, 'no access through a NULL allocation result on any of %d exit state(s)' % len(res.exits), floc(m, f))
    if bad5:
        f5.violation(f.name, '; '.join(sorted(bad5)[:3]), floc(m, f), {})
    else:
        f5.ok(f.name, 'every allocated block is committed, returned or freed on all %d exit state(s)' % len(res.exits), floc(m, f))
    if f.name in FAIL_CODES:
        if bad3:
            f3.violation(f.name, '; '.join(sorted(bad3)), floc(m, f), {})
        else:
            f3.ok(f.name, 'returns -1 whenever the allocation failed', floc(m, f))
