"""C20 - bitwise-copied smart pointers are caught before they can double-free.

G1 encapsulation   the fields of struct cstl_guarded_ptr (`self`, `ptr`) are read or written only
                   inside cstl_guarded_ptr_set and cstl_guarded_ptr_get_const.        [effects, all units]
G2 getter          in cstl_guarded_ptr_get_const the load of `ptr` and every return are dominated by the
                   fact self == gp; the edge on which they differ leads only to abort(); so the test
                   precedes any NULL test.                                              [dominating facts]
G3 setter          every path of cstl_guarded_ptr_set stores gp into gp->self and the argument into
                   gp->ptr.
G4 entry points    for every function declared in memory.h / array.h and every parameter that points to a
                   guarded / unique / shared / weak pointer or an array object: on every path to a normal
                   return the first guard event on that object is the getter's self test, never a
                   re-stamp (which would launder a stray copy), and there is one.  Two parameters known
                   equal on the path count as one object.  Decided on the whole-library inlined IR with
                   the path-sensitive typestate engine.  Exemptions (documented "(re)initialised
                   regardless of state"): *_init, cstl_guarded_ptr_set, cstl_guarded_ptr_copy's
                   destination; cstl_array_size reads only the length.  Conversely those (re)initialisers must
                   never test the guard of the object they overwrite (it may be uninitialised or relocated).
G5 no bitwise copy no library function memcpy's / cstl_swap's an object whose type contains a guarded
                   pointer (expected count 0; every memcpy / cstl_swap site is an instance).
"""
import os
import re

from .. import astfacts, typestate
from ..facts import Prover, _k, strip_bitcasts
from ..ir import mem_access, resolve_addr

GP = 'cstl_guarded_ptr'
OBJ_TYPES = ('struct cstl_guarded_ptr', 'cstl_unique_ptr_t', 'cstl_shared_ptr_t', 'cstl_weak_ptr_t', 'cstl_array_t')
EXEMPT = {
    ('cstl_guarded_ptr_set', 0): '(re)initialises regardless of state (documented)',
    ('cstl_guarded_ptr_init', 0): 'initialiser',
    ('cstl_unique_ptr_init', 0): 'initialiser',
    ('cstl_shared_ptr_init', 0): 'initialiser',
    ('cstl_weak_ptr_init', 0): 'initialiser',
    ('cstl_array_init', 0): 'initialiser',
    ('cstl_guarded_ptr_copy', 0): 'destination is overwritten regardless of its state (documented)',
    ('cstl_array_size', 0): 'reads only the length, never the pointer',
}
ACCESSORS = ('cstl_guarded_ptr_set', 'cstl_guarded_ptr_get_const')


def gp_field(a):
    """'self' / 'ptr' if the access is to a field of struct cstl_guarded_ptr"""
    s, f = a.last()
    if s == GP and f in ('self', 'ptr'):
        return f
    return None


def run(m, rep, tier):
    g1 = rep.rule('G1', 'every read of a guarded pointer is dominated by its own self-address test; every write re-stamps the self-address', floor=10)
    nacc = 0
    for f in m.inl.defined():
        if not (f.file or '').endswith(('memory.c', 'memory.h', 'array.c', 'array.h')):
            continue
        pv = None
        bad = []
        n = 0
        for i in f.all_insts():
            ma = mem_access(i)
            if not ma:
                continue
            fld = gp_field(ma[1])
            if not fld:
                continue
            n += 1
            obj = _gp_object(f, i.o[0] if i.op == 'load' else i.o[1])
            if obj is None:
                bad.append('access to cstl_guarded_ptr.%s at %s through an address that is not a field of a guarded pointer object' % (fld, i.loc()))
                continue
            if pv is None:
                pv = Prover(f)
            if i.op == 'load' and fld == 'ptr':
                if not _self_tested(f, pv, obj, i):
                    bad.append('the guarded pointer is read at %s without its self-address having been tested first (a stray bitwise copy is not caught)' % i.loc())
            elif i.op == 'store' and fld == 'ptr':
                stamps = [s2 for s2 in f.all_insts() if s2.op == 'store' and gp_field(mem_access(s2)[1]) == 'self' and _gp_object(f, s2.o[1]) == obj
                          and strip_bitcasts(f, s2.o[0]) == obj and (f.dominates(i, s2) or f.dominates(s2, i))]
                if not stamps:
                    bad.append('the guarded pointer is written at %s without re-stamping its self-address' % i.loc())
            elif i.op == 'store' and fld == 'self':
                if strip_bitcasts(f, i.o[0]) != obj:
                    bad.append('the self-address is set to something other than the object\'s own address at %s' % i.loc())
        nacc += n
        if bad:
            g1.violation(f.name, '; '.join(sorted(set(bad))[:3]), '%s:%d' % (f.file.replace(m.repo + '/', ''), f.line), {'accesses': n})
        elif n:
            g1.ok(f.name, '%d access(es), reads under the self test, writes re-stamp' % n)

    # ---- G2 / G3 -------------------------------------------------------------------
    g2 = rep.rule('G2', 'getter: pointer load and returns dominated by self == gp, other edge aborts', floor=1)
    f = m.ifn('cstl_guarded_ptr_get_const')
    if f is None:
        g2.undecided('cstl_guarded_ptr_get_const', 'function not found in the model')
    else:
        check_getter(m, f, g2)
    g3 = rep.rule('G3', 'setter: every path stores gp into self and the argument into ptr', floor=1)
    f = m.ifn('cstl_guarded_ptr_set')
    if f is None:
        g3.undecided('cstl_guarded_ptr_set', 'function not found in the model')
    else:
        check_setter(m, f, g3)

    # ---- G4 --------------------------------------------------------------------------
    g4 = rep.rule('G4', 'every smart-pointer / array entry point passes the guard on each object argument before any re-stamp', floor=30)
    decls = {}
    for d in astfacts.header_decls(m):
        if d.kind == 'FunctionDecl' and not d.implicit and os.path.basename(d.file or '') in ('memory.h', 'array.h'):
            if d.name not in decls or (d.params and not decls[d.name].params):
                decls[d.name] = d
    for name, d in sorted(decls.items()):
        objs = [k for k, (ty, _) in enumerate(d.params) if '*' in ty and any(t in ty for t in OBJ_TYPES)]
        if not objs:
            continue
        if name.startswith('__') and d.has_body and d.storage == 'static':
            # a private static helper of the header (reserved name): not an entry point; its callers are judged with it inlined
            continue
        f = m.ifn(name)
        if f is None:
            g4.undecided(name, 'entry point declared in %s but not found in the inlined model' % os.path.basename(d.file))
            continue
        check_entry(m, f, d, objs, g4)

    # ---- G5 --------------------------------------------------------------------------
    g5 = rep.rule('G5', 'no memcpy / cstl_swap of an object containing a guarded pointer', floor=3)
    for uname, mod in list(m.plain.items()) + [('amalgam', m.amalg)]:
        contains = _containment(mod)
        for f in mod.defined():
            if uname == 'amalgam' and any(mm.fn(f.name) is not None and not mm.fn(f.name).decl for mm in m.plain.values()):
                continue
            for c in f.all_insts():
                if c.op != 'call':
                    continue
                cal = c.callee or ''
                if not (cal.startswith('llvm.memcpy') or cal.startswith('llvm.memmove') or cal == 'cstl_swap'):
                    continue
                site = '%s:%d' % (f.name, c.line)
                nptr = 3 if cal == 'cstl_swap' else 2
                hit = []
                for o in c.o[:nptr]:
                    ty = _orig_pointee(f, o)
                    if ty and contains.get(ty):
                        hit.append(ty)
                if hit:
                    g5.violation(site, 'bitwise copy (%s) of an object of type %s, which contains a guarded pointer: the copy keeps the '
                                 'source\'s self-address and every later access through it aborts (or, if re-stamped, two owners exist)' % (cal, ', '.join(sorted(set(hit)))),
                                 c.loc(), {'call': repr(c)})
                else:
                    g5.ok(site, '%s of %s' % (cal, [(_orig_pointee(f, o) or '?') for o in c.o[:nptr]]), c.loc())
    rep.assumptions += ['user code is outside the model: only library functions are checked for bitwise copies']
    rep.extra['guarded_field_accesses'] = nacc

    # ---- G6: in a helper that takes two guarded pointers, the source is tested before the destination is stamped ----
    # copy(dst, src) may be handed the same object twice: a stamp written first turns a stray copy into a "valid" object
    # before its guard is looked at
    from .util import floc
    g6 = rep.rule('G6', 'cstl_guarded_ptr_copy tests the source\'s self-address before it writes anything into the destination', floor=1)
    f6 = m.ifn('cstl_guarded_ptr_copy')
    if f6 is None:
        g6.undecided('cstl_guarded_ptr_copy', 'not in the inlined model')
    else:
        tests = [i for i in f6.all_insts() if i.op == 'load' and resolve_addr(f6, i.o[0]).root == '$1' and gp_field(resolve_addr(f6, i.o[0])) == 'self']
        writes = [s2 for s2 in f6.all_insts() if s2.op == 'store' and resolve_addr(f6, s2.o[1]).root == '$0']
        if not tests or not writes:
            g6.undecided('cstl_guarded_ptr_copy', 'self-address read of the source / stores into the destination not found', floc(m, f6))
        else:
            early = [s2 for s2 in writes if not any(f6.dominates(t, s2) for t in tests)]
            if early:
                g6.violation('cstl_guarded_ptr_copy', 'the destination is written at %s before the source\'s self-address was read: when both arguments are the same '
                             '(stray) object the stamp makes the test pass' % early[0].loc(), floc(m, f6), {})
            else:
                g6.ok('cstl_guarded_ptr_copy', 'source tested first, then %d store(s) into the destination' % len(writes), floc(m, f6))


def _gp_object(f, addr_ref):
    """the pointer to the struct cstl_guarded_ptr whose field `addr_ref` addresses (un-cast), else None"""
    i = f.get(addr_ref) if isinstance(addr_ref, str) else None
    for _ in range(4):
        if i is None:
            return None
        if i.op == 'bitcast':
            i = f.get(i.o[0])
            continue
        if i.op == 'getelementptr' and i.x.get('path') and i.x['path'][-1].get('s') == GP and len(i.x['path']) == 1:
            return strip_bitcasts(f, i.o[0])
        return None
    return None


def _self_tested(f, pv, obj, at_ins):
    for (op, x, y) in pv.facts_at(at_ins):
        if op != 'eq':
            continue
        for p_, q_ in ((x, y), (y, x)):
            pi = f.get(p_)
            if pi is not None and pi.op == 'load' and gp_field(mem_access(pi)[1]) == 'self' and _gp_object(f, pi.o[0]) == obj and strip_bitcasts(f, q_) == obj:
                return True
    return False


def _containment(mod):
    direct = {}
    for name, st in mod.structs.items():
        direct[name] = set(re.findall(r'%((?:struct|union)\.[\w.]+)', ' '.join(fd['ty'] for fd in st['fields'] if '*' not in fd['ty'])))
    out = {}

    def has(n, seen=()):
        if n in out:
            return out[n]
        if n in seen:
            return False
        if n.startswith('struct.' + GP):
            return True
        r = any(has(c, seen + (n,)) for c in direct.get(n, ()))
        out[n] = r
        return r
    for n in list(direct):
        out[n] = has(n)
    return out


def _orig_pointee(f, ref):
    cur = ref
    for _ in range(8):
        ins = f.get(cur)
        if ins is None:
            break
        if ins.op == 'bitcast':
            sty = ins.x.get('sty', '')
            mm = re.match(r'%((?:struct|union)\.[\w.]+)\*$', sty)
            if mm:
                return mm.group(1)
            cur = ins.o[0]
            continue
        if ins.op == 'getelementptr' and ins.x.get('coff') == 0:
            # &obj->first decays to the object's address; look at the GEP's source type
            mm = re.match(r'%((?:struct|union)\.[\w.]+)$', ins.x.get('src', ''))
            if mm and ins.ty == 'i8*':
                return mm.group(1)
        if ins.op == 'alloca':
            mm = re.match(r'%((?:struct|union)\.[\w.]+)$', ins.x.get('aty', ''))
            return mm.group(1) if mm else None
        break
    if isinstance(cur, str) and cur.startswith('$'):
        ty = f.args[int(cur[1:])]['ty']
        mm = re.match(r'%((?:struct|union)\.[\w.]+)\*$', ty)
        if mm:
            return mm.group(1)
    return None


def check_getter(m, f, rule):
    pv = Prover(f)
    loads = [(i, mem_access(i)[1]) for i in f.all_insts() if i.op == 'load']
    selfl = [i for i, a in loads if gp_field(a) == 'self' and a.root == '$0']
    ptrl = [i for i, a in loads if gp_field(a) == 'ptr' and a.root == '$0']
    site = f.name
    loc = '%s:%d' % (f.file.replace(m.repo + '/', ''), f.line)
    if not selfl or not ptrl:
        rule.violation(site, 'the getter does not %s' % ('compare the stored self-address' if not selfl else 'load the guarded pointer'), loc, {})
        return
    bad = []
    # goal: self == gp (gp possibly through a bitcast)
    def eq_known(at_ins):
        facts = pv.facts_at(at_ins)
        for s in selfl:
            for (op, a, b) in facts:
                if op != 'eq':
                    continue
                for x, y in ((a, b), (b, a)):
                    if x == s.ref:
                        yi = f.get(y)
                        base = yi.o[0] if (yi is not None and yi.op == 'bitcast') else y
                        if base == '$0':
                            return True
        return False
    for pl in ptrl:
        if not eq_known(pl):
            bad.append('the load of gp->ptr at %s is not dominated by the test gp->self == gp' % pl.loc())
    for r in f.returns():
        if not eq_known(r):
            bad.append('a return at %s is reachable without passing the test gp->self == gp' % r.loc())
    # the other edge must abort
    from .c17 import abort_only
    from ..facts import edge_atoms
    for s in selfl:
        for u in f.users(s.ref):
            if u.op != 'icmp':
                continue
            for br in f.users(u.ref):
                if br.op != 'br' or not br.o:
                    continue
                for sn in br.x['succ']:
                    sb = f.bb[sn]
                    atoms, _ = edge_atoms(f, br.block, sb)
                    if any(a[0] == 'ne' for a in atoms) and not abort_only(f, sb):
                        bad.append('the edge taken when gp->self != gp (%s -> %s) does not lead to abort()' % (br.block.name, sn))
    if bad:
        rule.violation(site, '; '.join(bad), loc, {})
    else:
        rule.ok(site, 'ptr load and %d return(s) under self == gp; mismatch edge aborts' % len(f.returns()), loc)


def check_setter(m, f, rule):
    loc = '%s:%d' % (f.file.replace(m.repo + '/', ''), f.line)
    st_self = [i for i in f.all_insts() if i.op == 'store' and gp_field(mem_access(i)[1]) == 'self' and mem_access(i)[1].root == '$0']
    st_ptr = [i for i in f.all_insts() if i.op == 'store' and gp_field(mem_access(i)[1]) == 'ptr' and mem_access(i)[1].root == '$0']
    bad = []
    rets = f.returns()

    def stamped(i):
        v = i.o[0]
        vi = f.get(v)
        if vi is not None and vi.op == 'bitcast':
            v = vi.o[0]
        return v == '$0'
    good_self = [i for i in st_self if stamped(i)]
    good_ptr = [i for i in st_ptr if i.o[0] == '$1']
    for r in rets:
        if not any(f.dominates(i, r) for i in good_self):
            bad.append('a path to the return at %s does not store gp into gp->self' % r.loc())
        if not any(f.dominates(i, r) for i in good_ptr):
            bad.append('a path to the return at %s does not store the argument into gp->ptr' % r.loc())
    if [i for i in st_self if not stamped(i)]:
        bad.append('gp->self is stored a value other than gp')
    if bad:
        rule.violation(f.name, '; '.join(bad), loc, {})
    else:
        rule.ok(f.name, 'self := gp and ptr := arg dominate every return', loc)


def check_entry(m, f, d, objs, rule):
    names = [d.params[k][1] or ('arg%d' % k) for k in objs]
    pos = {('$%d' % k): n for n, k in enumerate(objs)}
    init = tuple('N' for _ in objs)
    unknown_calls = []

    def transfer(ins, auto, ps):
        ma = mem_access(ins) if ins.op in ('load', 'store') else None
        if ma:
            kind, a = ma
            if gp_field(a) == 'self' and a.root in pos:
                n = pos[a.root]
                if auto[n] == 'N':
                    new = 'G' if kind == 'load' else 'B'
                    return auto[:n] + (new,) + auto[n + 1:]
            return auto
        if ins.op == 'call':
            if ins.x.get('noreturn'):
                return None
            if not ins.is_intrinsic() and ins.callee and m.ifn(ins.callee) is not None and ins.callee != f.name:
                # a library function that was not inlined and receives the object: not modelled
                for o in ins.o:
                    if resolve_addr(f, o).root in pos:
                        unknown_calls.append(ins)
        return auto

    try:
        res = typestate.run(f, init, transfer, track=lambda r: isinstance(r, str) and r.startswith('$'))
    except typestate.Limit as e:
        rule.undecided(f.name, str(e))
        return
    loc = '%s:%d' % (os.path.relpath(d.file, m.repo), d.line)
    for n, k in enumerate(objs):
        site = '%s(%s)' % (f.name, names[n])
        ex = EXEMPT.get((f.name, k))
        bad = []
        for (ret, ps) in res.exits:
            st = ps.auto[n]
            if st == 'G':
                continue
            if st == 'N':
                # equal to another parameter that was guarded on this path?
                merged = False
                for n2, k2 in enumerate(objs):
                    if n2 != n and ps.auto[n2] == 'G' and ps.knows(('eq', '$%d' % k, '$%d' % k2)) is True:
                        merged = True
                if merged:
                    continue
                bad.append('a path to the return at %s never passes the guard (gp->self == gp test) on `%s`' % (ret.loc(), names[n]))
            else:
                bad.append('on a path to the return at %s `%s` is re-stamped (cstl_guarded_ptr_set) before its guard was ever tested: '
                           'a stray bitwise copy would be laundered into a second owner' % (ret.loc(), names[n]))
        bad = sorted(set(bad))
        if unknown_calls:
            rule.undecided(site, 'object passed to a library call that was not inlined: %s' % unknown_calls[0].loc(), loc)
        elif ex and (f.name, k) != ('cstl_array_size', 0):
            # (re)initialisers: the converse clause -- what is about to be overwritten "regardless of its state" must not
            # have its guard tested (never-initialised, zeroed or relocated-then-reseated storage would abort)
            tested = [ret for (ret, ps) in res.exits if ps.auto[n] == 'G']
            if tested:
                rule.violation(site, 'on a path to the return at %s the guard of `%s` is tested although this function (re)initialises it regardless of '
                               'its state (%s): initialising never-initialised or relocated storage through the library\'s own function aborts'
                               % (tested[0].loc(), names[n], ex), loc, {'function': f.name, 'param': names[n]})
            else:
                rule.ok(site, 'exempt from the guard (%s); stamped without its guard being tested on all %d exit state(s)' % (ex, len(res.exits)), loc)
        elif ex:
            rule.ok(site, 'exempt: ' + ex, loc)
        elif not res.exits:
            rule.undecided(site, 'no normal return found', loc)
        elif bad:
            rule.violation(site, '; '.join(bad[:3]), loc, {'function': f.name, 'param': names[n], 'paths': len(res.exits)})
        else:
            rule.ok(site, 'first guard event is the self test on all %d exit state(s)' % len(res.exits), loc)
