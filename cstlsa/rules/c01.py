"""C01 - ordered trees hold exactly the inserted-minus-erased multiset, in order (decided clauses).

W1 traversal protocol   (recursive walker, path-sensitive typestate, see treewalk.py) on the all-zero path a
        node sees exactly LEAF, or PRE [first subtree] MID [second subtree] POST with a subtree walked iff
        that child is non-NULL; after the first non-zero result nothing further happens and that value is
        returned; recursion goes through the selector parameters.
W2 direction binding    cstl_bintree_foreach passes (left, right) selectors for FWD and (right, left) for REV,
        returns the walker's result, and 0 for an empty tree; the visit adapter forwards node->element,
        order and the user's result unchanged.
W3 size bookkeeping     every store to a tree's size is 0 or size +/- 1; the inserting and the unlinking
        routine adjust it exactly once on every path.
W4 descent agreement    insert and find both compare (caller's element, resident element) and both descend
        to the left child on a negative result and to the right child otherwise (find: on a positive one).
W5 erase provenance     cstl_bintree_erase / cstl_rbtree_erase unlink exactly the node find returned, only
        when it is non-NULL, and return that same pointer.
W6 find result          a non-NULL result of cstl_bintree_find is the node whose comparison with the probe
        returned 0 on that path.
NOT decided: that relinking in the two-child erase case and in rotations preserves the multiset and the
order (heap-shape reasoning); hint validity.
"""
from .. import astfacts, listrules, treewalk, typestate
from ..facts import Prover, edge_atoms, _k, strip_bitcasts, phi_leaves
from ..ir import const_int, resolve_addr, unit_step
from .util import floc

NODE = 'cstl_bintree_node'
CMP_FTY = 'i32 (i8*, i8*, i8*)'


def selector_field(m, name):
    g = m.pfn(name)
    if g is None:
        return None
    rets = g.returns()
    if len(rets) != 1 or not rets[0].o:
        return None
    a = resolve_addr(g, rets[0].o[0])
    if a.root == '$0' and a.fsteps[-1:] and a.fsteps[-1][0] == NODE:
        return a.fsteps[-1][1]
    return None


def run(m, rep, tier):
    enums = astfacts.enum_constants(m)
    orders = {k.replace('CSTL_BINTREE_VISIT_ORDER_', ''): v for k, v in enums.items() if k.startswith('CSTL_BINTREE_VISIT_ORDER_')}
    w1 = rep.rule('W1', 'tree walker follows the PRE/MID/POST/LEAF protocol and stops at the first non-zero result', floor=1)
    w = treewalk.find_walker(m)
    if w is None or len(orders) != 4:
        w1.undecided('tree-walker', 'walker or visit-order enumerators not found')
    else:
        problems, info = treewalk.analyse(m, w, orders)
        if problems:
            w1.violation('tree-walker', '; '.join(sorted(problems)[:3]), floc(m, w), {k: str(v) for k, v in info.items()})
        else:
            w1.ok('tree-walker', '%d exit state(s), %d all-zero path(s) conform' % (info['exit_states'], info['all_zero_paths']), floc(m, w))

    w2 = rep.rule('W2', 'foreach binds the selectors by direction, returns the walker\'s result, 0 when empty; adapter forwards faithfully', floor=2)
    check_binding(m, w, enums, w2)

    w3 = rep.rule('W3', 'tree size is written only as 0 or size +/- 1, exactly once per insert / unlink path', floor=4)
    adj = []
    for f in m.all_plain_functions():
        for s in f.all_insts():
            if s.op != 'store':
                continue
            a = resolve_addr(f, s.o[1])
            if a.fsteps[-1:] != (('cstl_bintree', 'size'),):
                continue
            v = f.get(s.o[0])
            site = '%s:size-store' % f.name
            from .util import swap_coverage
            cov = swap_coverage(m, f)
            if cov is not None and cov[2] and not cov[3] and not cov[4]:
                w3.ok(site, 'part of a complete exchange of two trees: size travels with the root (W8)', s.loc())
                continue
            if const_int(s.o[0]) == 0:
                w3.ok(site, ':= 0', s.loc())
            elif unit_step(f, s.o[0])[1]:
                base, step = unit_step(f, s.o[0])
                ld = f.get(base) if isinstance(base, str) else None
                if ld is not None and ld.op == 'load' and resolve_addr(f, ld.o[0]).fsteps[-1:] == (('cstl_bintree', 'size'),):
                    w3.ok(site, 'size %s 1' % ('+' if step == 1 else '-'), s.loc())
                    if f not in adj:
                        adj.append(f)
                else:
                    w3.violation(site, 'the tree size is set from something other than its previous value', s.loc(), {})
            else:
                w3.violation(site, 'the tree size is written with a value that is neither 0 nor size +/- 1', s.loc(), {})
    for f in adj:
        if (f.file or '').endswith('bintree.c'):      # the heap's own push/pop belong to C07 (not applicable)
            listrules.count_once(m, f, w3, 'cstl_bintree', 'size', site=f.name + ':once')
    for need, c, what in (('insert', 1, 'increments'), ('erase', -1, 'decrements')):
        have = [f for f in adj if (f.file or '').endswith('bintree.c') and any(
            s.op == 'store' and unit_step(f, s.o[0])[1] == c
            and resolve_addr(f, s.o[1]).fsteps[-1:] == (('cstl_bintree', 'size'),) for s in f.all_insts())]
        if not have:
            w3.violation('bintree:%s' % need, 'no function of bintree.c %s the size although the API can %s elements' % (what, need), 'src/bintree.c', {})

    w4 = rep.rule('W4', 'insert and find compare (caller element, resident) and descend left on negative, right otherwise', floor=2)
    for name in ('cstl_bintree_insert', 'cstl_bintree_find'):
        f = m.ifn(name)
        if f is None:
            w4.undecided(name, 'not in the model')
        else:
            check_descent(m, f, w4)

    w7 = rep.rule('W7', 'insert links the new node only into a child slot it has just read as empty', floor=1)
    f = m.ifn('cstl_bintree_insert')
    if f is None:
        w7.undecided('cstl_bintree_insert', 'not in the model')
    else:
        check_insert_slot(m, f, w7)

    w5 = rep.rule('W5', 'erase unlinks exactly the node find returned (when non-NULL) and returns it', floor=2)
    for name in ('cstl_bintree_erase', 'cstl_rbtree_erase'):
        f = m.pfn(name)
        if f is None:
            w5.undecided(name, 'not in the model')
        else:
            check_erase(m, f, w5)

    w6 = rep.rule('W6', 'a non-NULL find result is the node that compared equal to the probe', floor=1)
    f = m.ifn('cstl_bintree_find')
    if f is None:
        w6.undecided('cstl_bintree_find', 'not in the model')
    else:
        check_find_result(m, f, w6)

    # ---- W10: red-black erase leaves the node where the repair stopped black ---------------------
    w10 = rep.rule('W10', 'rbtree erase: when a black node was removed, the node at which the repair loop stops is coloured black on every path '
                   '(a red root would make the next insert dereference a missing grandparent)', floor=1)
    check_rb_erase_final_black(m, w10, enums)

    # ---- W11: red-black insert leaves the root black ----------------------------------------------
    w11 = rep.rule('W11', 'rbtree insert: on every path the root is coloured black after the last recolouring step', floor=1)
    check_rb_insert_root_black(m, w11, enums)

    # ---- W9: (function pointer, context) pairing ---------------------------------------------
    from .util import check_callback_context
    _cb = rep.rule('W9', 'every call through a caller-supplied function pointer passes the context supplied with it', floor=1)
    check_callback_context(m, _cb, ('bintree.c', 'rbtree.c', 'heap.c'))

    # ---- W8: swap completeness ------------------------------------------------------------
    from .util import check_swap_complete
    _sw = rep.rule('W8', 'swap exchanges every member of the two trees (root, size, offset, comparison function and its context)', floor=3)
    for _n in ('cstl_bintree_swap', 'cstl_rbtree_swap', 'cstl_heap_swap'):
        check_swap_complete(m, _n, _sw)

    # ---- W12: the NDEBUG build does what the assertion build does ---------------------------------
    from .util import check_assert_effects
    _ae = rep.rule('W12', 'every store / effectful call made with assertions enabled is also made by the NDEBUG build (no work inside assert())', floor=1)
    check_assert_effects(m, _ae, ('bintree.c', 'rbtree.c', 'heap.c', 'bintree.h', 'rbtree.h', 'heap.h'))

    # ---- W13 / W14: no state outside the frame; const parameters stay untouched ---------------------------
    from .util import check_no_mutable_globals, check_const_params
    w13 = rep.rule('W13', 'bintree.c / rbtree.c / heap.c define no writable static object', floor=3)
    check_no_mutable_globals(m, w13, ('bintree', 'rbtree', 'heap'))
    w14 = rep.rule('W14', 'a pointer-to-const parameter (the probe of find / erase) is never written through', floor=2)
    check_const_params(m, w14, ('bintree.h', 'rbtree.h', 'heap.h'))


def check_rb_insert_root_black(m, rule, enums):
    black = enums.get('CSTL_RBTREE_COLOR_B')
    f = m.pfn('cstl_rbtree_insert')
    mod = m.plain.get('rbtree')
    if f is None or black is None or mod is None:
        rule.undecided('cstl_rbtree_insert', 'function or colour enumerators not found')
        return
    steps = [c for c in f.all_insts() if c.op == 'call' and c.callee and mod.fn(c.callee) is not None and not mod.fn(c.callee).decl
             and mod.fn(c.callee).linkage == 'internal']

    def coloured(st):
        a = resolve_addr(f, st.o[1])
        if a.fsteps[-1:] != (('cstl_rbtree_node', 'c'),):
            return None
        ri = f.get(a.root) if isinstance(a.root, str) else None
        if ri is not None and ri.op == 'inttoptr':
            return _ptr_base(f, ri)
        return strip_bitcasts(f, a.root) if isinstance(a.root, str) else None

    def is_root(ps, v):
        v = ps.lookup(_k(v)) if isinstance(v, str) else v
        vi = f.get(v) if isinstance(v, str) else None
        return vi is not None and vi.op == 'load' and resolve_addr(f, vi.o[0]).fsteps[-1:] == (('cstl_bintree', 'root'),)

    def transfer(ins, st, ps):
        if ins.op == 'call' and ins.x.get('noreturn'):
            return None
        if ins in steps or (ins.op == 'call' and ins.callee in ('cstl_bintree_insert',)):
            return 'dirty'
        if ins.op == 'store':
            nd = coloured(ins)
            if nd is not None:
                if const_int(ins.o[0]) == black and is_root(ps, nd):
                    return 'rootblack'
                if const_int(ins.o[0]) != black:
                    return 'dirty'
        return st
    try:
        res = typestate.run(f, 'dirty', transfer, limit=60000)
    except typestate.Limit as e:
        rule.undecided(f.name, str(e), floc(m, f))
        return
    def known_black_root(ps):
        for (op, a, b) in ps.known:
            ai = f.get(a) if isinstance(a, str) else None
            if ai is None or ai.op != 'load' or not ((op == 'eq' and const_int(b) == black) or (op == 'ne' and const_int(b) is not None and const_int(b) != black)):
                continue
            aa = resolve_addr(f, ai.o[0])
            ri = f.get(aa.root) if isinstance(aa.root, str) else None
            if aa.fsteps[-1:] == (('cstl_rbtree_node', 'c'),) and ri is not None and ri.op == 'inttoptr' and is_root(ps, _ptr_base(f, ri)):
                return True
        return False
    bad = [r for r, ps in res.exits if ps.auto != 'rootblack' and not known_black_root(ps)]
    if not res.exits:
        rule.undecided(f.name, 'no return reached', floc(m, f))
    elif bad:
        rule.violation(f.name, 'a path to the return at %s does not end by colouring the root black after the last recolouring / rotation step: the '
                       'root can be left red (the repair assumes a red node always has a grandparent)' % bad[0].loc(), floc(m, f), {})
    else:
        rule.ok(f.name, 'root := black after the last repair step on all %d exit state(s)' % len(res.exits), floc(m, f))


def check_rb_erase_final_black(m, rule, enums):
    black = enums.get('CSTL_RBTREE_COLOR_B')
    mod = m.plain.get('rbtree')
    f = None
    fixers = set()
    if mod is None or black is None:
        rule.undecided('__cstl_rbtree_erase', 'rbtree unit or colour enumerators not found')
        return
    # the erase repair may live in the unlinking routine itself or in a private function split off from it: every
    # function of the unit with the repair shape, except the insert side (W11)
    n = 0
    for g in mod.defined():
        if any(x.op == 'call' and x.callee in ('cstl_bintree_insert',) for x in g.all_insts()):
            continue
        if _rb_repair_shape(mod, g):
            n += 1
            _check_rb_repair(m, mod, g, rule, black)
    if n == 0:
        rule.undecided('__cstl_rbtree_erase', 'no function with the repair shape  x = step(.., x, ..)  found in rbtree.c')


def _rb_repair_shape(mod, f):
    fix_calls, xs = _rb_cursor(mod, f)
    return len(xs) == 1 and bool(fix_calls)


def _rb_cursor(mod, f):
    # the repair step, by shape: x = step(..., x, ...) -- a call to a private function of this unit whose result flows back
    # into the very cursor it was handed (whatever else it takes: child selectors, a side flag)
    fix_calls, xs = [], []
    for c in f.all_insts():
        if c.op != 'call' or not c.callee or mod.fn(c.callee) is None or mod.fn(c.callee).decl or c.callee == '__cstl_bintree_erase':
            continue
        for p in f.all_insts():
            if p.op != 'phi' or p.ref not in [strip_bitcasts(f, o) for o in c.o if isinstance(o, str)]:
                continue
            seen, stack, back = set(), [c.ref], False
            while stack:
                r0 = stack.pop()
                if r0 in seen:
                    continue
                seen.add(r0)
                for u in f.users(r0):
                    if u is p:
                        back = True
                    elif u.op in ('phi', 'bitcast', 'select'):
                        stack.append(u.ref)
            if back:
                fix_calls.append(c)
                if p not in xs:
                    xs.append(p)
    return fix_calls, xs


def _check_rb_repair(m, mod, f, rule, black):
    fix_calls, xs = _rb_cursor(mod, f)
    X = xs[0]
    first = [i for i in X.block.insts if i.op != 'phi'][0]

    def colour_node(st):
        a = resolve_addr(f, st.o[1])
        if a.fsteps[-1:] != (('cstl_rbtree_node', 'c'),):
            return None
        ri = f.get(a.root) if isinstance(a.root, str) else None
        if ri is not None and ri.op == 'inttoptr':
            return _ptr_base(f, ri)
        return strip_bitcasts(f, a.root) if isinstance(a.root, str) else None
    bad = []

    def transfer(ins, st, ps):
        entered, blk = st
        if ins.op == 'call' and ins.x.get('noreturn'):
            return None
        if ins is first:
            entered = True
        if ins in fix_calls:
            return (entered, None)
        if ins.op == 'store':
            nd = colour_node(ins)
            if nd is not None:
                if const_int(ins.o[0]) == black:
                    return (entered, ps.lookup(_k(nd)))
                if blk is not None and ps.lookup(_k(nd)) == blk:
                    return (entered, None)
        return (entered, blk)
    try:
        res = typestate.run(f, (False, None), transfer, limit=60000)
    except typestate.Limit as e:
        rule.undecided(f.name, str(e), floc(m, f))
        return
    def is_colour_load(v):
        vi = f.get(v) if isinstance(v, str) else None
        return vi is not None and vi.op == 'load' and resolve_addr(f, vi.o[0]).fsteps[-1:] == (('cstl_rbtree_node', 'c'),)
    colour_guard = any(i.op == 'icmp' and i.pred in ('eq', 'ne') and any(is_colour_load(o) for o in i.o) and any(const_int(o) is not None for o in i.o)
                       and f.dominates(i, first) for i in f.all_insts())
    for r, ps in res.exits:
        entered, blk = ps.auto
        if not entered:
            # the repair may only be skipped when the removed node was not black: whatever else the guard tests (the node's
            # position, its children) says nothing about the colour the tree lost
            if colour_guard and not any(is_colour_load(a) and ((op == 'ne' and const_int(b) == black) or (op == 'eq' and const_int(b) is not None and const_int(b) != black))
                                        for (op, a, b) in ps.known):
                bad.append('a path to the return at %s skips the repair without knowing that the removed node was red: when a black node at that position '
                           '(e.g. the root with one red child) is removed, its red child takes its place and stays red' % r.loc())
            continue
        x_now = ps.lookup(X.ref)
        if blk is None or blk != x_now:
            # or known black already
            known_black = False
            for (op, a, b) in ps.known:
                ai = f.get(a) if isinstance(a, str) else None
                if ((op == 'eq' and const_int(b) == black) or (op == 'ne' and const_int(b) is not None and const_int(b) != black)) \
                        and ai is not None and ai.op == 'load':
                    aa = resolve_addr(f, ai.o[0])
                    ri = f.get(aa.root) if isinstance(aa.root, str) else None
                    if aa.fsteps[-1:] == (('cstl_rbtree_node', 'c'),) and ri is not None and ri.op == 'inttoptr' and ps.lookup(_k(_ptr_base(f, ri))) == x_now:
                        known_black = True
            if not known_black:
                bad.append('a path to the return at %s leaves the repair with its cursor node neither coloured black nor known to be black (e.g. the cursor '
                           'is already the root, so the loop body never runs): the root can stay red, and the next insert under it dereferences a '
                           'grandparent that does not exist' % r.loc())
    if not res.exits:
        rule.undecided(f.name, 'no return reached', floc(m, f))
    elif bad:
        rule.violation(f.name, '; '.join(sorted(set(bad))[:2]), floc(m, f), {})
    else:
        rule.ok(f.name, 'on all %d exit state(s) through the repair region the cursor node ends black' % len([1 for _, ps in res.exits if ps.auto[0]]), floc(m, f))


def check_binding(m, w, enums, rule):
    pf = m.pfn('cstl_bintree_foreach')
    fwd, rev = enums.get('CSTL_BINTREE_FOREACH_DIR_FWD'), enums.get('CSTL_BINTREE_FOREACH_DIR_REV')
    if pf is None or w is None or fwd is None or rev is None:
        rule.undecided('cstl_bintree_foreach', 'function, walker or direction enumerators not found')
        return
    bad = []
    sites = treewalk.walker_calls(m, pf, w)
    if not sites:
        rule.undecided('cstl_bintree_foreach', 'no call that reaches the walker found')
        return
    pv = Prover(pf)
    dirkeys = {'$3'} | {i.ref for i in pf.all_insts() if i.op in ('zext', 'sext', 'trunc') and i.o[0] == '$3'}
    bound = {fwd: [set(), set()], rev: [set(), set()]}
    for st in sites:
        c = st.call
        here = set(pv.fc.block_facts(c.block))
        for pos, (kind, *val) in enumerate(st.args[3:5]):
            if kind != 'v':
                bad.append('a child selector of the walk at %s is computed inside %s()' % (c.loc(), st.helper.name))
                continue
            for leaf, lb, lf in phi_leaves(pf, pv.fc, val[0]):
                fs = here | set(lf or ())
                sel = selector_field(m, leaf[1:]) if isinstance(leaf, str) and leaf.startswith('@') else None
                for d in (fwd, rev):
                    excluded = any((op == 'eq' and x in dirkeys and const_int(y) is not None and const_int(y) != d)
                                   or (op == 'ne' and x in dirkeys and const_int(y) == d) for (op, x, y) in fs)
                    if not excluded:
                        bound[d][pos].add(sel)
        # node = the tree's root
        kind, *val = st.args[0]
        if kind == 'v':
            root = pf.get(strip_bitcasts(pf, val[0]))
            okroot = root is not None and root.op == 'load' and resolve_addr(pf, root.o[0]).fsteps[-1:] == (('cstl_bintree', 'root'),) \
                and resolve_addr(pf, root.o[0]).root == '$0'
        else:
            h, hv = val
            root = h.get(hv) if isinstance(hv, str) else None
            okroot = False
            if root is not None and root.op == 'load':
                a = resolve_addr(h, root.o[0])
                if a.fsteps[-1:] == (('cstl_bintree', 'root'),) and a.root.startswith('$') and a.root[1:].isdigit() and int(a.root[1:]) < len(c.o):
                    okroot = strip_bitcasts(pf, c.o[int(a.root[1:])]) == '$0'
        if not okroot:
            bad.append('the walk at %s does not start at the tree\'s root' % c.loc())
        if not st.result_ok:
            bad.append('%s() returns something other than the walk\'s result or 0' % st.helper.name)

    def show(b):
        return tuple('/'.join(sorted(str(x) for x in p)) or '-' for p in b)
    if bound[fwd] != [{'l'}, {'r'}]:
        bad.append('direction FWD does not walk (left, right): %s' % (show(bound[fwd]),))
    if bound[rev] != [{'r'}, {'l'}]:
        bad.append('direction REV does not walk (right, left): %s' % (show(bound[rev]),))
    # return value: the walker's result on those paths, 0 otherwise
    refs = {st.call.ref for st in sites}
    for r in pf.returns():
        seen_calls = set()
        for lf in _phi_leaves(pf, r.o[0]) if r.o else []:
            if lf in refs:
                seen_calls.add(lf)
            elif const_int(lf) != 0:
                bad.append('the value returned at %s (%s) is neither the walker\'s result nor 0' % (r.loc(), lf))
    allret = set()
    for r in pf.returns():
        allret |= {lf for lf in (_phi_leaves(pf, r.o[0]) if r.o else [])}
    if refs - allret:
        bad.append('the result of a walk is not returned')
    if bad:
        rule.violation('cstl_bintree_foreach', '; '.join(sorted(set(bad))[:4]), floc(m, pf), {})
    else:
        rule.ok('cstl_bintree_foreach', 'FWD -> (l, r), REV -> (r, l); returns the walker\'s result, else 0', floc(m, pf))
    # the user-visit adapter handed to the walker
    ad = None
    for st in sites:
        kind, *val = st.args[1]
        if kind == 'v' and isinstance(val[0], str) and val[0].startswith('@'):
            ad = m.ifn(val[0][1:])
    if ad is None:
        rule.undecided('foreach-adapter', 'the visit adapter was not found')
        return
    bad = []
    uc = [c for c in ad.all_insts() if c.op == 'call' and c.callee is None]
    if len(uc) != 1:
        bad.append('%d calls of the user visit function per node visit' % len(uc))
    else:
        c = uc[0]
        if c.o[1] != '$1':
            bad.append('the visit order is not forwarded unchanged')
        node = listrules.handed_node(ad, c.o[0])
        if node != '$0':
            bad.append('the user is not given the element containing the visited node')
        for r in ad.returns():
            if not r.o or r.o[0] != c.ref:
                bad.append('the adapter does not return the user\'s result')
    if bad:
        rule.violation('foreach-adapter', '; '.join(bad), floc(m, ad), {})
    else:
        rule.ok('foreach-adapter', 'element(node), order, result forwarded unchanged', floc(m, ad))


def _phi_leaves(f, ref, seen=None):
    seen = seen if seen is not None else set()
    if not isinstance(ref, str) or ref in seen:
        return [ref]
    seen.add(ref)
    i = f.get(ref)
    if i is not None and i.op == 'phi':
        out = []
        for o in i.o:
            out += _phi_leaves(f, o, seen)
        return out
    return [ref]


def check_descent(m, f, rule):
    cmps = [c for c in f.all_insts() if c.op == 'call' and c.callee is None and c.x.get('fty') == CMP_FTY]
    if not cmps:
        rule.undecided(f.name, 'no comparison call site found', floc(m, f))
        return
    for c in cmps:
        _check_descent_site(m, f, c, rule, len(cmps))
    if f.name.endswith('_insert'):
        _check_slot_choices(m, f, cmps, rule)


def _check_slot_choices(m, f, cmps, rule):
    """every child slot insert may link into or descend through (&X->l / &X->r used as a slot value, not merely read) is
    chosen under the sign of a comparison of the new element: left under a negative result, right under a non-negative one"""
    from ..facts import FactCache
    fc = FactCache(f)
    pv = Prover(f)
    refs = {c.ref for c in cmps}
    bad = []
    n = 0
    for g in f.all_insts():
        if g.op != 'getelementptr':
            continue
        aa = resolve_addr(f, g.ref)
        if not aa.fsteps[-1:] or aa.fsteps[-1][0] != NODE or aa.fsteps[-1][1] not in ('l', 'r'):
            continue
        uses = f.users(g.ref)
        as_slot = [u for u in uses if u.op in ('phi', 'select') or (u.op == 'store' and u.o[1] == g.ref and
                                                                      (listrules.handed_node(f, strip_bitcasts(f, u.o[0])) == '$1' or listrules.derived_from(f, strip_bitcasts(f, u.o[0]), '$1')))]
        if not as_slot:
            continue
        n += 1
        neg = nonneg = False
        for (op, x, y) in fc.block_facts(g.block):
            if op == 'slt' and x in refs and const_int(y) == 0:
                neg = True
            if (op == 'sle' and const_int(x) == 0 and y in refs) or (op == 'slt' and const_int(x) == 0 and y in refs):
                nonneg = True
        side = aa.fsteps[-1][1]
        # ... or the sign was kept in a flag (left = cmp(...) < 0) that decides this branch
        if side == 'l' and not neg:
            neg = any(pv.prove_at(('slt', r_, '#0'), g) for r_ in refs)
        if side == 'r' and not nonneg:
            nonneg = any(pv.prove_at(('sle', '#0', r_), g) or pv.prove_at(('slt', '#0', r_), g) for r_ in refs)
        if (side == 'l' and not neg) or (side == 'r' and not nonneg):
            bad.append('the %s child slot taken at %s is not chosen by comparing the new element with that node (%s): an element can be linked on the '
                       'wrong side, where a search for it never looks' % ('left' if side == 'l' else 'right', g.loc(),
                                                                            'no comparison result decides this branch' if not (neg or nonneg) else 'the sign does not match the side'))
    site = f.name + ':slot-choice'
    if bad:
        rule.violation(site, '; '.join(sorted(set(bad))[:3]), floc(m, f), {})
    elif n:
        rule.ok(site, '%d child slot choice(s), each under the matching comparison sign' % n, floc(m, f))
    else:
        rule.ok(site, 'NOT DECIDED: no child slot address used as a slot value found', floc(m, f))


def _check_descent_site(m, f, c, rule, nsites):
    bad = []
    a0 = listrules.handed_node(f, c.o[0])
    if a0 != '$1' and not listrules.derived_from(f, strip_bitcasts(f, c.o[0]), '$1'):
        bad.append('the first comparison argument is not the caller\'s element')
    n1 = listrules.handed_node(f, c.o[1])
    if n1 is None or n1 == '$1':
        bad.append('the second comparison argument is not a resident element')
    r = c.ref
    sides = {}
    for b in f.blocks:
        if len(b.succ) < 2:
            continue
        for sx in b.succ:
            atoms, _ = edge_atoms(f, b, sx)
            for (op, x, y) in atoms:
                key = None
                if op == 'slt' and x == r and const_int(y) == 0:
                    key = 'neg'
                elif op == 'sle' and const_int(x) == 0 and y == r:
                    key = 'nonneg'
                elif op == 'slt' and const_int(x) == 0 and y == r:
                    key = 'pos'
                elif op == 'sle' and x == r and const_int(y) == 0:
                    key = 'nonpos'
                if key:
                    flds = set()
                    for blk in f.blocks:
                        if blk is sx or (f.dominates_block(sx, blk) and len(sx.pred) == 1):
                            for i in blk.insts:
                                if i.op == 'getelementptr':
                                    aa = resolve_addr(f, i.ref)
                                    if aa.fsteps[-1:] and aa.fsteps[-1][0] == NODE and aa.fsteps[-1][1] in ('l', 'r'):
                                        flds.add(aa.fsteps[-1][1])
                        if blk is sx:
                            # only the block entered by this edge itself (not code after the join)
                            pass
                    sides[key] = flds if key not in sides else sides[key] | flds
    # restrict to the edge's own block when the dominated region re-joins
    neg = sides.get('neg')
    other = sides.get('nonneg', set()) | sides.get('pos', set())
    if neg is None:
        bad.append('no branch on a negative comparison result')
    else:
        if 'l' not in neg or 'r' in neg - {'l'} and neg == {'r'}:
            bad.append('a negative comparison result does not descend to the left child')
    if 'r' not in other:
        bad.append('a non-negative comparison result does not descend to the right child')
    if neg == {'r'} or (other and other == {'l'}):
        bad.append('the descent direction is inverted')
    site = f.name if nsites == 1 else '%s@%d' % (f.name, c.line)
    if bad:
        rule.violation(site, '; '.join(sorted(set(bad))), floc(m, f), {'sides': {k: sorted(v) for k, v in sides.items()}})
    else:
        rule.ok(site, 'cmp(caller element, resident): negative -> l, otherwise -> r', c.loc())


def check_insert_slot(m, f, rule):
    pv = Prover(f)
    links = []
    for s in f.all_insts():
        if s.op != 'store':
            continue
        v = strip_bitcasts(f, s.o[0])
        if listrules.handed_node(f, v) == '$1' or listrules.derived_from(f, v, '$1'):
            # the new node's address stored somewhere: into the tree (root slot or a child slot)
            links.append(s)
    if not links:
        rule.violation('cstl_bintree_insert', 'the new node is never linked into the tree', floc(m, f), {})
        return
    bad = []
    quick = True
    for s in links:
        slot = strip_bitcasts(f, s.o[1])
        if not any(op == 'eq' and y == 'null' and _reads_slot(f, x, slot) for (op, x, y) in pv.facts_at(s)):
            quick = False
    if not quick:
        # path-sensitive: on every path to the link store, the slot written (as bound on that path) is the address from
        # which a value known to be NULL was last read
        unnamed, decided = [0], [0]

        def loc_key(ps, addr):
            a_ = resolve_addr(f, addr)
            r_ = ps.lookup(_k(strip_bitcasts(f, a_.root))) if isinstance(a_.root, str) else None
            return (r_, tuple(a_.steps), a_.coff) if r_ is not None else None

        def transfer(ins, st, ps):
            if ins.op == 'call' and ins.x.get('noreturn'):
                return None
            if ins.op in ('inttoptr', 'getelementptr'):
                base = _ptr_base(f, ins)
                if base is not None and ps.knows(('ne', _k(base), 'null')) is True:
                    return typestate.With(st, atoms=[('ne', _k(ins.ref), 'null')])
            if ins.op == 'load' and isinstance(ins.o[0], str):
                a_ = resolve_addr(f, ins.o[0])
                if a_.fsteps[-1:] and a_.fsteps[-1][0] in (NODE, 'cstl_bintree') and a_.fsteps[-1][1] in ('l', 'r', 'root'):
                    # which location this link value was read from, as the address is bound right now (the address may be
                    # recomputed later from a value that has moved on)
                    k_ = loc_key(ps, ins.o[0])
                    reads = tuple(x for x in (st if isinstance(st, tuple) else ()) if x[0] != ins.ref)
                    return reads + ((ins.ref, k_),)
            if ins in links:
                slot = ps.lookup(_k(strip_bitcasts(f, ins.o[1])))
                skey = loc_key(ps, ins.o[1])
                ok = False
                for (op, x, y) in ps.known:
                    if op != 'eq' or y != 'null':
                        continue
                    xi = f.get(x) if isinstance(x, str) else None
                    if xi is not None and xi.op == 'load' and ps.lookup(_k(strip_bitcasts(f, xi.o[0]))) == slot:
                        ok = True
                    if xi is not None and xi.op == 'load' and skey is not None and any(r_ == x and k_ == skey for r_, k_ in (st if isinstance(st, tuple) else ())):
                        ok = True
                if not ok:
                    # after two trips through the descent loop the engine can no longer name the node the slot belongs to
                    # (its name is re-used by the next trip): such a path gets no verdict, the shorter ones decide
                    ri = f.get(skey[0]) if (skey is not None and isinstance(skey[0], str)) else None
                    stale = any(isinstance(k_, tuple) and k_[0] == r_ for r_, k_ in (st if isinstance(st, tuple) else ()))
                    if (ri is not None and ri.op == 'phi') or stale:
                        unnamed[0] += 1
                    else:
                        bad.append('the new node is stored at %s into a link that was not just read as NULL: an existing subtree hanging there would be cut out '
                                   'of the tree while size still counts it' % ins.loc())
                else:
                    decided[0] += 1
            return st
        try:
            res = typestate.run(f, (), transfer, limit=120000)
            if not res.exits:
                rule.undecided('cstl_bintree_insert', 'no return reached', floc(m, f))
                return
        except typestate.Limit as e:
            rule.undecided('cstl_bintree_insert', str(e), floc(m, f))
            return
    if bad:
        rule.violation('cstl_bintree_insert', '; '.join(sorted(set(bad))), floc(m, f), {})
    elif not quick and decided[0] == 0:
        rule.ok('cstl_bintree_insert', 'NOT DECIDED: on no explored path could the slot written be named', floc(m, f))
    else:
        rule.ok('cstl_bintree_insert', '%d link store(s), each into a slot read as NULL' % len(links), floc(m, f))


def _reads_slot(f, x, slot, depth=0):
    """x is the value loaded from `slot`: directly, or as loop-carried pair (x and slot are phis of the same block
    and, edge by edge, x's incoming value is read from slot's incoming address)"""
    xi = f.get(x) if isinstance(x, str) else None
    if xi is None or depth > 3:
        return False
    if xi.op == 'load':
        return strip_bitcasts(f, xi.o[0]) == slot
    si = f.get(slot) if isinstance(slot, str) else None
    if xi.op == 'phi' and si is not None and si.op == 'phi' and si.block is xi.block:
        sm = dict(zip(si.x['bb'], si.o))
        return all(bb in sm and _reads_slot(f, strip_bitcasts(f, v), strip_bitcasts(f, sm[bb]), depth + 1)
                   for v, bb in zip(xi.o, xi.x['bb']))
    return False


TREE_STRUCTS = ('cstl_bintree_node', 'cstl_bintree', 'cstl_rbtree_node', 'cstl_rbtree')


def _tree_role(m, name):
    """role of a callee by effect (on its fully inlined body): 'finder' compares through the tree's cmp pointer and
    never writes a node or tree field; 'unlinker' writes node links / the size; None otherwise"""
    g = m.ifn(name)
    if g is None:
        return None
    stores = has_cmp = False
    for i in g.all_insts():
        if i.op == 'store':
            a = resolve_addr(g, i.o[1])
            if a.fsteps and a.fsteps[-1][0] in TREE_STRUCTS:
                stores = True
        if i.op == 'call' and i.callee is None and i.x.get('fty') == CMP_FTY:
            has_cmp = True
    if stores:
        return 'unlinker'
    if has_cmp:
        return 'finder'
    return None


def _pure_helper(m, name):
    g = m.ifn(name)
    return g is not None and not any(i.op == 'store' or (i.op == 'call' and not i.is_intrinsic()) for i in g.all_insts())


def _derived(m, f, v, root, depth=0):
    """v is `root` converted by pointer arithmetic, casts, pure helpers, or a merge of such values and NULL"""
    v = strip_bitcasts(f, v) if isinstance(v, str) else v
    if v == root:
        return True
    i = f.get(v) if isinstance(v, str) else None
    if i is None or depth > 8:
        return False
    if i.op in ('getelementptr', 'bitcast', 'ptrtoint', 'inttoptr'):
        return _derived(m, f, i.o[0], root, depth + 1)
    if i.op in ('add', 'sub'):
        # element <-> node: the address plus / minus the tree's stored offset (or a constant)
        return _derived(m, f, i.o[0], root, depth + 1) or (i.op == 'add' and _derived(m, f, i.o[1], root, depth + 1))
    if i.op == 'call' and i.callee and _pure_helper(m, i.callee):
        return any(_derived(m, f, o, root, depth + 1) for o in i.o)
    if i.op in ('phi', 'select'):
        ops = i.o if i.op == 'phi' else i.o[1:]
        ls = [o for o in ops if o != 'null' and const_int(o) != 0]
        return bool(ls) and all(_derived(m, f, o, root, depth + 1) for o in ls)
    return False


def _ptr_base(f, ins, depth=0):
    """the pointer a converted address was computed from: inttoptr(ptrtoint(p) +/- off), gep(p, ...)"""
    if depth > 6:
        return None
    if ins.op == 'getelementptr':
        return strip_bitcasts(f, ins.o[0])
    if ins.op == 'inttoptr':
        a = f.get(ins.o[0])
        while a is not None and a.op in ('add', 'sub'):
            nxt = None
            for o in (a.o if a.op == 'add' else a.o[:1]):
                oi = f.get(o) if isinstance(o, str) else None
                if oi is not None and oi.op == 'ptrtoint':
                    return strip_bitcasts(f, oi.o[0])
                if oi is not None and oi.op in ('add', 'sub'):
                    nxt = oi
            a = nxt
        if a is not None and a.op == 'ptrtoint':
            return strip_bitcasts(f, a.o[0])
    return None


def check_erase(m, f, rule):
    calls = [c for c in f.all_insts() if c.op == 'call' and c.callee and not c.is_intrinsic()]
    # a comparison helper called from a search loop written in place is not a lookup routine
    finds = [c for c in calls if _tree_role(m, c.callee) == 'finder' and not f.in_cycle(c.block)]
    bad = []
    unl = [c for c in calls if _tree_role(m, c.callee) == 'unlinker']
    if not finds and len(unl) == 1 and any(_tree_role(m, c.callee) == 'finder' for c in calls):
        return _check_erase_open_coded(m, f, rule, unl[0])
    if len(finds) != 1:
        rule.undecided(f.name, '%d calls of a lookup routine (compares through the tree, writes nothing)' % len(finds), floc(m, f))
        return
    p = finds[0]
    pk = _k(p.ref)
    if not unl:
        bad.append('the node that find returned is never handed to the unlink routine')
    for c in unl:
        if not any(isinstance(o, str) and _derived(m, f, o, p.ref) for o in c.o[1:]):
            bad.append('the node unlinked at %s is not the one find returned' % c.loc())
    if not (p.o[0] == '$0' or resolve_addr(f, p.o[0]).root == '$0') or not _derived(m, f, p.o[1], '$1'):
        bad.append('find is not asked about the caller\'s probe in the caller\'s tree')
    public = p.callee in m.header_functions()

    def transfer(ins, n, ps):
        if ins.op == 'call' and ins in unl:
            if ps.knows(('ne', pk, 'null')) is not True:
                bad.append('the unlink at %s runs even when find returned NULL' % ins.loc())
            return min(n + 1, 2)
        if ins.op in ('inttoptr', 'getelementptr'):
            # element <-> node conversion: arithmetic inside an object never yields NULL (C11 6.5.6); the library's
            # own `find() != NULL` test relies on the same thing
            base = _ptr_base(f, ins)
            if base is not None and ps.knows(('ne', _k(base), 'null')) is True:
                return typestate.With(n, atoms=[('ne', _k(ins.ref), 'null')])
        return n
    try:
        res = typestate.run(f, 0, transfer, limit=20000)
    except typestate.Limit as e:
        rule.undecided(f.name, str(e), floc(m, f))
        return
    if not res.exits:
        rule.undecided(f.name, 'no return reached', floc(m, f))
        return
    for r, ps in res.exits:
        rv = typestate.value_of(f, ps, r.o[0]) if r.o else None
        found = ps.knows(('ne', pk, 'null'))
        if found is True:
            if ps.auto != 1:
                bad.append('a found node is unlinked %d time(s) on a path to the return at %s' % (ps.auto, r.loc()))
            same = strip_bitcasts(f, rv) == p.ref if isinstance(rv, str) else False
            if not (same or (not public and _derived(m, f, rv, p.ref))):
                bad.append('erase does not return the pointer find produced (return at %s)' % r.loc())
        elif found is False:
            if ps.auto != 0:
                bad.append('something is unlinked although find returned NULL (return at %s)' % r.loc())
            if not (rv == 'null' or const_int(rv) == 0 or (isinstance(rv, str) and strip_bitcasts(f, rv) == p.ref)):
                bad.append('erase does not return NULL when nothing was found (return at %s)' % r.loc())
        else:
            if ps.auto != 0 or not (isinstance(rv, str) and strip_bitcasts(f, rv) == p.ref):
                bad.append('a path to the return at %s never tests what find returned: a found node is not unlinked, or a missing one is' % r.loc())
    if bad:
        rule.violation(f.name, '; '.join(sorted(set(bad))), floc(m, f), {})
    else:
        rule.ok(f.name, 'p = find(); unlink(node(p)) exactly once under p != NULL; return p (NULL when absent)', floc(m, f))


def _check_erase_open_coded(m, f, rule, un):
    """the search loop is written in place (or its private helper, returning node and parent together, was inlined): the
    lookup's result is the node value X handed to the unlink routine.  Decided: unlink exactly once and only under
    X != NULL, the element of X returned then, NULL otherwise.  That X is the node that compared equal is W6's clause on
    find and is NOT decided here."""
    x = strip_bitcasts(f, un.o[1]) if len(un.o) > 1 and isinstance(un.o[1], str) else None
    if x is None:
        rule.undecided(f.name, 'the node handed to the unlink routine is not a value', floc(m, f))
        return
    xk = _k(x)
    bad = []

    def transfer(ins, n, ps):
        if ins is un:
            if ps.knows(('ne', xk, 'null')) is not True:
                bad.append('the unlink at %s runs without the searched node being known non-NULL' % ins.loc())
            return min(n + 1, 2)
        if ins.op in ('inttoptr', 'getelementptr'):
            base = _ptr_base(f, ins)
            if base is not None and ps.knows(('ne', _k(base), 'null')) is True:
                return typestate.With(n, atoms=[('ne', _k(ins.ref), 'null')])
        return n
    try:
        res = typestate.run(f, 0, transfer, limit=40000)
    except typestate.Limit as e:
        rule.undecided(f.name, str(e), floc(m, f))
        return
    if not res.exits:
        rule.undecided(f.name, 'no return reached', floc(m, f))
        return
    for r, ps in res.exits:
        rv = typestate.value_of(f, ps, r.o[0]) if r.o else None
        if ps.auto == 1:
            if not (isinstance(rv, str) and _derived(m, f, rv, x)):
                bad.append('after unlinking, erase does not return the element of the node it unlinked (return at %s)' % r.loc())
        elif ps.auto == 0:
            if ps.knows(('ne', xk, 'null')) is True:
                bad.append('a found node is not unlinked on a path to the return at %s' % r.loc())
            if not (rv == 'null' or const_int(rv) == 0):
                bad.append('erase does not return NULL on a path on which nothing was unlinked (return at %s)' % r.loc())
        else:
            bad.append('a node is unlinked more than once on a path to the return at %s' % r.loc())
    if bad:
        rule.violation(f.name, '; '.join(sorted(set(bad))), floc(m, f), {})
    else:
        rule.ok(f.name, 'search written in place: unlink(X) exactly once under X != NULL, element of X returned, NULL when nothing was unlinked', floc(m, f))


def _via_helper(f, o, root):
    """o == helper(tree, root) returning the node inside the element"""
    i = f.get(strip_bitcasts(f, o)) if isinstance(o, str) else None
    seen = 0
    while i is not None and seen < 6:
        seen += 1
        if i.op == 'call' and i.callee and any(isinstance(x, str) and strip_bitcasts(f, x) == root for x in i.o):
            return True
        if i.op in ('getelementptr', 'bitcast') and isinstance(i.o[0], str):
            i = f.get(i.o[0])
            continue
        break
    return False


def check_find_result(m, f, rule):
    cmps = [c for c in f.all_insts() if c.op == 'call' and c.callee is None and c.x.get('fty') == CMP_FTY]
    if not cmps:
        rule.undecided(f.name, 'comparison call not found', floc(m, f))
        return
    bad = set()

    # the documented out-parameter (parent of the found element, or of where it would be): a pointer-to-pointer parameter
    outp = ['$%d' % k for k, a_ in enumerate(f.args) if (a_.get('ty') or '').endswith('**')]

    def transfer(ins, last, ps):
        if ins.op == 'call':
            if ins.x.get('noreturn'):
                return None
            if ins in cmps:
                node = listrules.handed_node(f, ins.o[1])
                return (ins.ref, ps.lookup(node) if node else '?') + tuple(last[2:])
        elif ins.op == 'store' and isinstance(ins.o[1], str) and strip_bitcasts(f, ins.o[1]) in outp:
            return tuple(last[:2]) + (True,)
        elif ins.op == 'ret' and ins.o:
            if outp and not (len(last) > 2 and last[2]) and ps.knows(('eq', outp[0], 'null')) is not True:
                bad.add('the parent out-parameter is not written on a path to the return at %s on which it is not known to be NULL: the caller is '
                        'documented to get the parent of the found element (or of where it would be) and passes it on as the insert hint' % ins.loc())
            last = tuple(last[:2])
            rv = ps.lookup(_k(strip_bitcasts(f, ins.o[0])))
            if const_int(rv) == 0 or rv == 'null':
                return last
            node = listrules.handed_node(f, rv)
            node = ps.lookup(node) if node else None
            if tuple(last[:2]) == ('-', '-'):
                bad.add('a non-NULL result is returned at %s without any comparison' % ins.loc())
            else:
                if ps.knows(('eq', last[0], '#0')) is not True:
                    bad.add('a non-NULL result is returned at %s although the last comparison is not known to have returned 0' % ins.loc())
                if node != last[1]:
                    bad.add('the element returned at %s is not the one that was compared last' % ins.loc())
        return last

    try:
        res = typestate.run(f, ('-', '-'), transfer, limit=100000)
    except typestate.Limit as e:
        rule.undecided(f.name, str(e), floc(m, f))
        return
    if bad:
        rule.violation(f.name, '; '.join(sorted(bad)), floc(m, f), {})
    elif not res.exits:
        rule.undecided(f.name, 'no exit path explored', floc(m, f))
    else:
        rule.ok(f.name, 'non-NULL results only after cmp == 0 on the returned node (%d exit states)' % len(res.exits), floc(m, f))
