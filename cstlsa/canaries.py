"""Engine canaries: compiled through the same clang -> opt -> irdump pipeline on every run (DESIGN.md 3).
Each entry is (function, expected verdict set); a deviation is ANALYSIS-BROKEN (exit 2), never a verdict
about the repository."""
import os

from . import ir, model, nw, listrules, allocrules

HERE = os.path.dirname(os.path.dirname(os.path.abspath(__file__)))

NW = {
    'nw_mul_unguarded': {'VIOLATION'}, 'nw_mul_guarded': {'PASS'}, 'nw_mul_guarded_le': {'PASS'},
    'nw_inc_unguarded': {'VIOLATION'}, 'nw_inc_guarded': {'PASS'}, 'nw_inc_guarded_lt': {'PASS'},
    'nw_hdr_wrong_guard': {'PASS', 'VIOLATION'}, 'nw_hdr_right_guard': {'PASS'},
    'nw_builtin_checked': {'PASS'}, 'nw_builtin_flag_ignored': {'VIOLATION'},
    'nw_compute_then_check': {'PASS'}, 'nw_compute_then_check_wrong': {'VIOLATION'}, 'nw_reject_form': {'PASS'},
    'nw_sum_guarded': {'PASS'}, 'nw_sum_unguarded': {'VIOLATION'}, 'nw_const_mul_guarded': {'PASS'},
}
HO = {'ho_bad': True, 'ho_good': False}
AL = {'al_bad': True, 'al_good': False, 'al_commit_on_failure': True}


class _Collect:
    def __init__(self):
        self.v = set()

    def ok(self, *a, **k):
        self.v.add('PASS')

    def violation(self, *a, **k):
        self.v.add('VIOLATION')

    def undecided(self, *a, **k):
        self.v.add('UNDECIDED')


_cache = {}


def load(m):
    if 'mod' in _cache:
        return _cache['mod']
    src = os.path.join(HERE, 'canaries', 'engine.c')
    bc = os.path.join(m.work, 'canary.bc')
    model.run([model.CLANG, '-O1', '-Xclang', '-disable-llvm-passes', '-g', '-w', '-std=c99', '-emit-llvm', '-c', src, '-o', bc])
    o = bc + '.p.bc'
    model.run([model.OPT, '-passes=function(mem2reg,early-cse<memssa>)', bc, '-o', o])
    js = os.path.join(m.work, 'canary.json')
    with open(js, 'wb') as fh:
        fh.write(model.run([model.IRDUMP, o]))
    _cache['mod'] = ir.Module.load(js, 'canary')
    return _cache['mod']


def run(m, rep, kinds=('nw',)):
    try:
        mod = load(m)
    except model.ModelError as e:
        rep.analysis_broken('canaries could not be built: %s' % e)
        return
    if 'nw' in kinds:
        for name, want in sorted(NW.items()):
            f = mod.fn(name)
            c = _Collect()
            if f is not None:
                nw.check_entry(f, c)
            rep.canary('nw:' + name, sorted(want), sorted(c.v))
    if 'handoff' in kinds:
        for name, want in sorted(HO.items()):
            f = mod.fn(name)
            got = None
            if f is not None:
                calls = [c for c in f.all_insts() if c.op == 'call' and c.callee is None]
                node = listrules.handed_node(f, calls[0].o[0]) if calls else None
                got = bool(listrules.touches_after(f, calls[0], node)) if node else None
            rep.canary('handoff:' + name, want, got)
    if 'alloc' in kinds:
        for name, want in sorted(AL.items()):
            f = mod.fn(name)
            got = None
            if f is not None:
                acs = allocrules.alloc_calls(f)
                got = bool(allocrules.check_alloc(f, acs[0])[0]) if acs else None
            rep.canary('alloc:' + name, want, got)
