"""DF engine: dominating branch facts and a small, fixed, sound entailment table.

At a program point the known facts are the conditions of all branch edges every path to the point
must take.  Goals (a <u b, a != null, and the no-wrap goals NW-ADD / NW-SUB / NW-MUL) are decided
from those facts by the derivations listed in `Prover`; there is no solver and a goal that is not
derivable is *not proven* (never "disproven").  Values are SSA names, so two reads of one field
with no intervening write are the same value (early-cse<memssa> has merged them).

Atoms: (op, a, b) with op in eq, ne, ult, ule, slt, sle; a, b operand refs.
"""
import json

from .ir import const_int, is_inst

MAX64 = (1 << 64) - 1


def _k(r):
    return r if not isinstance(r, dict) else json.dumps(r, sort_keys=True)


def strip_bitcasts(fn, ref):
    """pointer bitcasts preserve the value: facts are recorded about the un-cast value"""
    for _ in range(16):
        i = fn.get(ref) if isinstance(ref, str) else None
        if i is None or i.op != 'bitcast':
            return ref
        ref = i.o[0]
    return ref


def shift_const(fn, pred, a, b):
    """(x + c) ==/!= k  is  x ==/!= k - c  (modular arithmetic keeps equality; ordering tests are left alone)"""
    if pred not in ('eq', 'ne'):
        return a, b
    for _ in range(4):
        ai = fn.get(a) if isinstance(a, str) else None
        kb = const_int(b)
        if ai is None or kb is None or ai.op not in ('add', 'sub'):
            break
        c = const_int(ai.o[1])
        if c is None:
            break
        bits = ai.x.get('bits') or 64
        m = (1 << bits) - 1
        k2 = (kb - c) & m if ai.op == 'add' else (kb + c) & m
        a, b = _k(strip_bitcasts(fn, ai.o[0])), '#%d' % k2
    return a, b


def negate(atom):
    op, a, b = atom
    if op == 'eq':
        return ('ne', a, b)
    if op == 'ne':
        return ('eq', a, b)
    if op == 'ult':
        return ('ule', b, a)
    if op == 'ule':
        return ('ult', b, a)
    if op == 'slt':
        return ('sle', b, a)
    if op == 'sle':
        return ('slt', b, a)
    raise ValueError(op)


_PRED = {
    'eq': lambda a, b: ('eq', a, b), 'ne': lambda a, b: ('ne', a, b),
    'ult': lambda a, b: ('ult', a, b), 'ule': lambda a, b: ('ule', a, b),
    'ugt': lambda a, b: ('ult', b, a), 'uge': lambda a, b: ('ule', b, a),
    'slt': lambda a, b: ('slt', a, b), 'sle': lambda a, b: ('sle', a, b),
    'sgt': lambda a, b: ('slt', b, a), 'sge': lambda a, b: ('sle', b, a),
}


def _bool01(fn, ref, depth=0):
    """if the integer `ref` is a truth value widened to 0/1 (zext of an i1, or and/or of such values) return an i1-like ref
    whose truth is ref != 0: the i1 itself, or the and/or instruction (cond_atoms takes those apart)"""
    i = fn.get(ref) if isinstance(ref, str) else None
    if i is None or depth > 6:
        return None
    if i.op == 'zext' and i.x.get('sbits') == 1:
        return i.o[0]
    if i.op in ('and', 'or') and all(_bool01(fn, o, depth + 1) is not None for o in i.o):
        return _Bool01(fn, i)
    return None


class _Bool01(str):
    """marker: an and/or over 0/1 integers, to be read as the boolean and/or of its operands"""
    def __new__(cls, fn, ins):
        o = str.__new__(cls, ins.ref)
        return o


def cond_atoms(fn, ref, truth, depth=0):
    """atoms (a conjunction) known when i1 value `ref` equals `truth`; plus blocks whose
    dominating facts also hold (for the phi encoding of && / ||): returns (atoms, via_blocks)"""
    c = const_int(ref)
    if c is not None or depth > 14:
        return [], []
    ins = fn.get(ref)
    if ins is None:
        return [], []
    if ins.op == 'icmp':
        a, b = ins.o
        # icmp ne (zext i1 x), 0  /  icmp ne (trunc ...)...
        bz = const_int(b)
        ai = fn.get(a)
        if bz == 0 and ins.pred in ('ne', 'eq') and ai is not None and ai.op in ('and', 'or') and ai.ty != 'i1':
            # truth values combined with the bitwise operators: (a != NULL) & (n <= cap), x | (y & z) on 0/1 integers
            t = truth if ins.pred == 'ne' else (not truth)
            bs = [_bool01(fn, o) for o in ai.o]
            if all(x is not None for x in bs) and ((ai.op == 'and' and t) or (ai.op == 'or' and not t)):
                out_a, out_v = [], []
                for x in bs:
                    a1, v1 = cond_atoms(fn, x, t, depth + 1)
                    out_a += a1
                    out_v += v1
                return out_a, out_v
            if all(x is not None for x in bs):
                return [], []
        if bz == 0 and ins.pred in ('ne', 'eq') and ai is not None and ai.op == 'zext' and ai.x.get('sbits') == 1:
            t = truth if ins.pred == 'ne' else (not truth)
            return cond_atoms(fn, ai.o[0], t, depth + 1)
        if ins.pred not in _PRED:
            return [], []
        a, b = strip_bitcasts(fn, a), strip_bitcasts(fn, b)
        if ins.pred in ('eq', 'ne') and (const_int(a) is not None or a == 'null') and not (const_int(b) is not None or b == 'null'):
            a, b = b, a            # constants on the right
        a, b = shift_const(fn, ins.pred, a, b)
        atom = _PRED[ins.pred](_k(a), _k(b))
        return [atom if truth else negate(atom)], []
    if ins.op == 'xor' and const_int(ins.o[1]) == 1:
        return cond_atoms(fn, ins.o[0], not truth, depth + 1)
    if ins.op in ('and', 'or') and ins.ty != 'i1':
        ops = [_bool01(fn, o) for o in ins.o]
        if any(x is None for x in ops):
            return [], []
    else:
        ops = list(ins.o)
    if ins.op == 'and' and truth:
        a1, v1 = cond_atoms(fn, ops[0], True, depth + 1)
        a2, v2 = cond_atoms(fn, ops[1], True, depth + 1)
        return a1 + a2, v1 + v2
    if ins.op == 'or' and not truth:
        a1, v1 = cond_atoms(fn, ops[0], False, depth + 1)
        a2, v2 = cond_atoms(fn, ops[1], False, depth + 1)
        return a1 + a2, v1 + v2
    if ins.op in ('and', 'or') and ins.ty != 'i1':
        return [], []
    if ins.op == 'trunc' and ins.ty == 'i1':
        # bool loaded as i8: value != 0
        return [('ne' if truth else 'eq', _k(ins.o[0]), '#0')], []
    if ins.op == 'phi' and ins.ty == 'i1':
        # `a && b`: phi [false, P1] [b, P2]  -> true  => b and everything known at the end of P2
        # `a || b`: phi [true,  P1] [b, P2]  -> false => !b and everything known at the end of P2
        want_other = 0 if truth else 1
        live = [(v, bb) for v, bb in zip(ins.o, ins.x['bb']) if const_int(v) != want_other]
        if len(live) == 1:
            v, bb = live[0]
            atoms, via = cond_atoms(fn, v, truth, depth + 1)
            return atoms, via + [fn.bb[bb]]
        return [], []
    if ins.ty == 'i1' and ins.op in ('call', 'load', 'select', 'extractvalue', 'phi', 'and', 'or', 'xor'):
        # an opaque truth value (e.g. the bool result of a call): remember it as such
        return [('ne' if truth else 'eq', _k(ref), '#0')], []
    return [], []


def edge_atoms(fn, src, dst):
    """facts established by taking CFG edge src->dst"""
    t = src.term
    if t.op == 'br' and t.o:
        succ = t.x['succ']
        if succ[0] == succ[1]:
            return [], []
        if dst.name == succ[0]:
            return cond_atoms(fn, t.o[0], True)
        if dst.name == succ[1]:
            return cond_atoms(fn, t.o[0], False)
    if t.op == 'switch':
        cases = [c for c, bb in t.x['cases'] if bb == dst.name]
        if dst.name != t.x['default'] and len(cases) == 1:
            return [('eq', _k(t.o[0]), '#%d' % cases[0])], []
        if dst.name == t.x['default'] and all(bb != dst.name for _, bb in t.x['cases']):
            return [('ne', _k(t.o[0]), '#%d' % c) for c, _ in t.x['cases']], []
    return [], []


class FactCache:
    def __init__(self, fn):
        self.fn = fn
        self._block = {}

    def block_facts(self, b, _stack=()):
        """atoms that hold on entry to block b on every path (from dominating edges)"""
        if b.idx in self._block:
            return self._block[b.idx]
        if b.idx in _stack:
            return frozenset()
        fn = self.fn
        facts = set()
        for src in fn.blocks:
            if not src.insts or len(src.succ) < 2:
                continue
            if not fn.dominates_block(src, b):
                continue
            for dst in src.succ:
                if dst is not src and fn.edge_dominates(src, dst, b):
                    atoms, via = edge_atoms(fn, src, dst)
                    facts.update(atoms)
                    for vb in via:
                        facts.update(self.block_facts(vb, _stack + (b.idx,)))
        # a merged value known to differ from the constant that all but one of its alternatives carry came through the
        # remaining edge: what held on that edge holds (a helper returning 0 for "rejected", tested by its caller)
        for _round in range(3):
            extra = set()
            for (op, x, y) in facts:
                if op != 'ne' or not (y == 'null' or const_int(y) is not None):
                    continue
                pi = fn.get(x) if isinstance(x, str) else None
                if pi is None or pi.op != 'phi' or pi.block.idx in _stack:
                    continue
                others = [(v, bb) for v, bb in zip(pi.o, pi.x['bb']) if not (v == y or (const_int(v) is not None and const_int(v) == const_int(y)))]
                if len(others) != 1:
                    continue
                # inside the loop that carries the merge its alternative may be computed anew before b: only after the loop
                if fn.in_cycle(pi.block) and pi.block in fn.reachable_from(b):
                    continue
                pb = fn.bb[others[0][1]]
                # the merged value IS that alternative: a flag `left = (cmp(...) < 0)` known non-zero means the test was true
                ov = others[0][0]
                if isinstance(ov, str):
                    extra.add(('ne', _k(ov), y))
                    oi = fn.get(ov)
                    if oi is not None and oi.op == 'zext' and oi.x.get('sbits') == 1 and const_int(y) == 0:
                        extra.update(cond_atoms(fn, oi.o[0], True)[0])
                # every other merge of the same block came through the same edge: what is known about it is known about the
                # value that edge carries (par != NULL says the loop ran, so `left` is the last comparison's flag)
                for q in pi.block.insts:
                    if q.op != 'phi':
                        break
                    if q is pi or others[0][1] not in q.x['bb']:
                        continue
                    qv = q.o[q.x['bb'].index(others[0][1])]
                    if not isinstance(qv, str):
                        continue
                    qi = fn.get(qv)
                    for (op2, x2, y2) in list(facts):
                        if x2 == q.ref and op2 in ('eq', 'ne') and const_int(y2) is not None:
                            extra.add((op2, _k(qv), y2))
                            if qi is not None and qi.op == 'zext' and qi.x.get('sbits') == 1 and const_int(y2) == 0:
                                extra.update(cond_atoms(fn, qi.o[0], op2 == 'ne')[0])
                atoms, via = edge_atoms(fn, pb, pi.block)
                extra.update(atoms)
                extra.update(self.block_facts(pb, _stack + (b.idx,)))
                for vb in via:
                    extra.update(self.block_facts(vb, _stack + (b.idx,)))
            if extra <= facts:
                break
            facts |= extra
        fs = frozenset(facts)
        self._block[b.idx] = fs
        return fs

    def edge_facts(self, src, dst):
        atoms, via = edge_atoms(self.fn, src, dst)
        facts = set(self.block_facts(src))
        facts.update(atoms)
        for vb in via:
            facts.update(self.block_facts(vb))
        return frozenset(facts)


def phi_leaves(fn, fc, ref, _seen=None):
    """[(leaf value, incoming block or None, facts known when that leaf is the one selected)] for a value that
    merges alternatives through (nested) phis; for a non-phi value the single leaf has facts None"""
    _seen = _seen if _seen is not None else set()
    ref = strip_bitcasts(fn, ref) if isinstance(ref, str) else ref
    i = fn.get(ref) if isinstance(ref, str) else None
    if i is None or i.op != 'phi' or i.id in _seen:
        return [(ref, None, None)]
    _seen.add(i.id)
    out = []
    for v, bb in zip(i.o, i.x['bb']):
        pb = fn.bb[bb]
        sub = phi_leaves(fn, fc, v, _seen)
        for leaf, lb, lf in sub:
            if lf is None:
                out.append((leaf, pb, fc.edge_facts(pb, i.block)))
            else:
                out.append((leaf, lb, frozenset(set(lf) | set(fc.edge_facts(pb, i.block)))))
    return out


class Prover:
    """Sound derivations only.  ub(v) = a constant upper bound of v under the facts.

    goals
      ('ult', a, b) ('ule', a, b) ('ne', a, b) ('eq', a, b)
      ('nwadd', a, b)   a + b does not wrap (unsigned, 64 bit unless `bits` given)
      ('nwsub', a, b)   a - b does not wrap
      ('nwmul', a, b)   a * b does not wrap
    """

    def __init__(self, fn):
        self.fn = fn
        self.fc = FactCache(fn)
        self.trace = []

    # ---- public --------------------------------------------------------------------
    def prove_at(self, goal, ins, depth=3):
        """prove `goal` at instruction `ins`: along every path reaching it (case split at joins)"""
        self.trace = []
        g = self._norm(goal)
        if self._prove_block(g, ins.block, depth, set()):
            return True
        return self._prove_at_join_above(g, ins.block)

    def _prove_at_join_above(self, goal, block):
        """the deciding facts may have been established by a guard further up whose outcomes merged again (`if (a == 0 ||
        check) ...`): at each join that dominates `block`, every way into the join -- taken together with everything
        that is known at `block` itself -- must entail the goal.  Sound: every path to `block` enters each dominating
        join through exactly one of its predecessors, and dominating facts are about immutable SSA values."""
        fn = self.fn
        base = set(self.fc.block_facts(block))
        mentioned = {x for x in goal[1:] if isinstance(x, str)}
        joins = [b for b in fn.blocks if b is not block and len(b.pred) >= 2 and fn.dominates_block(b, block)]
        # nearest joins first
        joins.sort(key=lambda b: -len([x for x in fn.blocks if fn.dominates_block(x, b)]))
        for j in joins[:6]:
            if any(i.op == 'phi' and i.ref in mentioned for i in j.insts):
                continue
            ok = True
            for p in j.pred:
                fs = frozenset(base | set(self.fc.edge_facts(p, j)))
                if self.entails(fs, goal):
                    continue
                # one level further: p may itself be the meeting point of a short-circuit condition
                atoms, via = edge_atoms(fn, p, j)
                sub_ok = len(p.pred) >= 1
                for pp in p.pred:
                    fs2 = frozenset(base | set(self.fc.edge_facts(pp, p)) | set(atoms))
                    if not self.entails(fs2, goal):
                        sub_ok = False
                        break
                if not sub_ok:
                    ok = False
                    break
            if ok:
                self.trace.append(('join-above', j.name, goal, sorted(base)))
                return True
        return False

    def _norm(self, goal):
        return (goal[0],) + tuple(_k(strip_bitcasts(self.fn, x)) if isinstance(x, str) else x for x in goal[1:])

    def facts_at(self, ins):
        return self.fc.block_facts(ins.block)

    # ---- path splitting --------------------------------------------------------------
    def _subst(self, goal, block, pred):
        """replace phi values defined in `block` by their incoming value from `pred`"""
        def s(r):
            i = self.fn.get(r) if isinstance(r, str) else None
            if i is not None and i.op == 'phi' and i.block is block:
                for v, bb in zip(i.o, i.x['bb']):
                    if bb == pred.name:
                        return _k(v)
            return r
        return self._norm((goal[0],) + tuple(s(x) for x in goal[1:]))

    def _prove_block(self, goal, block, depth, seen):
        facts = self.fc.block_facts(block)
        if self.entails(facts, goal):
            self.trace.append(('block', block.name, goal, sorted(facts)))
            return True
        if depth <= 0 or len(block.pred) < 1:
            return False
        key = (block.idx, goal)
        if key in seen:
            return False
        seen = seen | {key}
        for p in block.pred:
            g = self._subst(goal, block, p)
            ef = self.fc.edge_facts(p, block)
            if self.entails(ef, g):
                self.trace.append(('edge', p.name + '->' + block.name, g, sorted(ef)))
                continue
            if not self._prove_block_via(g, p, block, depth - 1, seen):
                return False
        return True

    def _prove_block_via(self, goal, p, block, depth, seen):
        # facts of edge p->block did not suffice: split further over p's predecessors, keeping the edge atoms
        if depth <= 0 or len(p.pred) < 1:
            return False
        atoms, via = edge_atoms(self.fn, p, block)
        extra = set(atoms)
        for vb in via:
            extra.update(self.fc.block_facts(vb))
        for pp in p.pred:
            g = self._subst(goal, p, pp)
            ef = set(self.fc.edge_facts(pp, p)) | {self._subst(a, p, pp) for a in extra}
            if self.entails(frozenset(ef), g):
                self.trace.append(('edge2', pp.name + '->' + p.name + '->' + block.name, g, sorted(ef)))
                continue
            return False
        return True

    # ---- entailment ------------------------------------------------------------------
    def entails(self, facts, goal):
        op = goal[0]
        a, b = goal[1], goal[2]
        if op in ('ult', 'ule', 'eq', 'ne', 'slt', 'sle'):
            return self._cmp(facts, op, a, b)
        bits = goal[3] if len(goal) > 3 else 64
        mx = (1 << bits) - 1
        if op == 'nwadd':
            return self._nwadd(facts, a, b, mx)
        if op == 'nwsub':
            # a - b does not wrap iff b <=u a
            return self._cmp(facts, 'ule', b, a)
        if op == 'nwmul':
            return self._nwmul(facts, a, b, mx)
        return False

    def _ins(self, r):
        return self.fn.get(r) if isinstance(r, str) and is_inst(r) else None

    def ub(self, facts, v, depth=0):
        """constant upper bound of v (unsigned) or None"""
        c = const_int(v)
        if c is not None:
            return c
        best = None

        def upd(x):
            nonlocal best
            if x is not None and (best is None or x < best):
                best = x
        if depth > 5:
            return None
        for (op, x, y) in facts:
            if x == v:
                cy = const_int(y)
                if op == 'ult' and cy is not None and cy > 0:
                    upd(cy - 1)
                elif op == 'ule':
                    if cy is not None:
                        upd(cy)
                    else:
                        # v <= udiv(K, d): bounded by K when d >= 1 (udiv by 0 is undefined, the C code divides)
                        yi = self._ins(y)
                        if yi is not None and yi.op == 'udiv':
                            k = self.ub(facts, _k(yi.o[0]), depth + 1)
                            upd(k)
                        elif yi is not None and yi.op == 'sub':
                            k = const_int(yi.o[0])
                            if k is not None and self._cmp(facts, 'ule', _k(yi.o[1]), _k(yi.o[0]), depth + 1):
                                upd(k)
                elif op == 'eq' and cy is not None:
                    upd(cy)
            if y == v and op == 'eq':
                cx = const_int(x)
                if cx is not None:
                    upd(cx)
        i = self._ins(v)
        if i is not None:
            bits = i.x.get('bits')
            if i.op == 'zext' and i.x.get('sbits'):
                upd((1 << i.x['sbits']) - 1)
                upd(self.ub(facts, _k(i.o[0]), depth + 1))
            elif i.op == 'and':
                for o in i.o:
                    upd(const_int(o))
            elif i.op == 'udiv':
                n = self.ub(facts, _k(i.o[0]), depth + 1)
                d = const_int(i.o[1])
                if n is not None:
                    upd(n // d if d else n)
                elif d:
                    upd(((1 << (bits or 64)) - 1) // d)
            elif i.op == 'urem':
                d = const_int(i.o[1])
                if d:
                    upd(d - 1)
            elif i.op == 'lshr':
                s = const_int(i.o[1])
                if s is not None:
                    n = self.ub(facts, _k(i.o[0]), depth + 1)
                    upd((n if n is not None else (1 << (bits or 64)) - 1) >> s)
            elif i.op == 'mul':
                a, b = _k(i.o[0]), _k(i.o[1])
                # product bounded by K when a <= udiv(K, b) is a fact (then a*b <= K) -- also proves no wrap
                k = self._mul_bound(facts, a, b, depth)
                upd(k)
                ua, ub_ = self.ub(facts, a, depth + 1), self.ub(facts, b, depth + 1)
                if ua == 0 or ub_ == 0:
                    upd(0)
                elif ua is not None and ub_ is not None and ua * ub_ <= (1 << (bits or 64)) - 1:
                    upd(ua * ub_)
            elif i.op == 'add':
                ua, ub_ = self.ub(facts, _k(i.o[0]), depth + 1), self.ub(facts, _k(i.o[1]), depth + 1)
                if ua is not None and ub_ is not None and ua + ub_ <= (1 << (bits or 64)) - 1:
                    upd(ua + ub_)
            elif i.op == 'sub':
                # a - b <= ub(a) when b <= a
                if self._cmp(facts, 'ule', _k(i.o[1]), _k(i.o[0]), depth + 1):
                    upd(self.ub(facts, _k(i.o[0]), depth + 1))
            elif i.op == 'select':
                u1, u2 = self.ub(facts, _k(i.o[1]), depth + 1), self.ub(facts, _k(i.o[2]), depth + 1)
                if u1 is not None and u2 is not None:
                    upd(max(u1, u2))
            if bits and best is None and i.op in ('load', 'call', 'phi', 'trunc', 'add', 'sub', 'mul', 'zext'):
                if bits < 64:
                    upd((1 << bits) - 1)
        return best

    def _mul_bound(self, facts, a, b, depth=0):
        """K such that a*b <= K follows from a fact  a <= udiv(K, b)  (or symmetric); None otherwise"""
        best = None
        for (op, x, y) in facts:
            if op not in ('ule', 'ult'):
                continue
            for (p, qv) in ((a, b), (b, a)):
                if x != p:
                    # p == x + 1 with the strict fact  x <u udiv(K, qv)  gives  p <= udiv(K, qv)  as well
                    pi = self._ins(p)
                    if not (op == 'ult' and pi is not None and pi.op == 'add' and const_int(pi.o[1]) == 1 and _k(pi.o[0]) == x):
                        continue
                yi = self._ins(y)
                if yi is not None and yi.op == 'udiv' and _k(yi.o[1]) == qv:
                    k = self.ub(facts, _k(yi.o[0]), depth + 1)
                    if k is None:
                        k = (1 << (yi.x.get('bits') or 64)) - 1
                    if best is None or k < best:
                        best = k
        return best

    def _cmp(self, facts, op, a, b, depth=0):
        if depth > 4:
            return False
        ca, cb = const_int(a), const_int(b)
        if ca is not None and cb is not None:
            return {'ult': ca < cb, 'ule': ca <= cb, 'eq': ca == cb, 'ne': ca != cb}.get(op, False)
        if a == b:
            return op in ('ule', 'eq', 'sle')
        if (op, a, b) in facts:
            return True
        if op in ('eq', 'ne') and (op, b, a) in facts:
            return True
        if op == 'ule':
            if ('ult', a, b) in facts or ('eq', a, b) in facts or ('eq', b, a) in facts:
                return True
            if ca == 0:
                return True
            if ca is not None and ca >= 1:
                # c <= b  from  c-1 < b;  1 <= b  from  b != 0
                if ('ult', '#%d' % (ca - 1), b) in facts:
                    return True
                if ca == 1 and (('ne', b, '#0') in facts or ('ne', '#0', b) in facts):
                    return True
            if cb is not None:
                u = self.ub(facts, a, depth + 1)
                if u is not None and u <= cb:
                    return True
            # a <= K - x  where facts give it directly
            # transitivity through one fact: a <= c and c <= b
            for (o2, x, y) in facts:
                if x == a and o2 in ('ule', 'ult', 'eq') and y != b:
                    if self._cmp_direct(facts, 'ule', y, b):
                        return True
            # a - x <= a when x <= a (a is sub)
            ai = self._ins(a)
            if ai is not None and ai.op == 'sub' and _k(ai.o[0]) == b and self._cmp(facts, 'ule', _k(ai.o[1]), b, depth + 1):
                return True
            if ai is not None and ai.op in ('udiv', 'lshr') and _k(ai.o[0]) == b:
                return True
            if ai is not None and ai.op == 'urem' and _k(ai.o[1]) == b:
                return True   # x % b < b (b != 0 or the C expression is undefined)
        if op == 'ult':
            if cb is not None:
                u = self.ub(facts, a, depth + 1)
                if u is not None and u < cb:
                    return True
            ai = self._ins(a)
            if ai is not None and ai.op == 'urem' and _k(ai.o[1]) == b:
                return True
            for (o2, x, y) in facts:
                if x == a and o2 == 'ult' and y != b and self._cmp_direct(facts, 'ule', y, b):
                    return True
                if x == a and o2 in ('ule', 'eq') and y != b and self._cmp_direct(facts, 'ult', y, b):
                    return True
        if op == 'ne':
            if ('ult', a, b) in facts or ('ult', b, a) in facts:
                return True
            # the address of a global object or function is never NULL
            if b == 'null' and isinstance(a, str) and a.startswith('@'):
                return True
            if cb is not None:
                u = self.ub(facts, a, depth + 1)
                if u is not None and u < cb:
                    return True
                # a >u c fact with c >= cb
                for (o2, x, y) in facts:
                    if o2 == 'ult' and y == a:
                        cx = const_int(x)
                        if cx is not None and cx >= cb:
                            return True
                    if o2 == 'ule' and y == a:
                        cx = const_int(x)
                        if cx is not None and cx > cb:
                            return True
        return False

    def _cmp_direct(self, facts, op, a, b):
        ca, cb = const_int(a), const_int(b)
        if ca is not None and cb is not None:
            return {'ult': ca < cb, 'ule': ca <= cb}.get(op, False)
        if a == b:
            return op == 'ule'
        if (op, a, b) in facts:
            return True
        if op == 'ule' and (('ult', a, b) in facts or ('eq', a, b) in facts or ('eq', b, a) in facts):
            return True
        return False

    def _nwadd(self, facts, a, b, mx, _depth=0):
        ca, cb = const_int(a), const_int(b)
        ua, ub_ = self.ub(facts, a), self.ub(facts, b)
        if ua is not None and ub_ is not None and ua + ub_ <= mx:
            return True
        for (x, y, cy) in ((a, b, cb), (b, a, ca)):
            # x + small constant: x <u anything  => x <= mx - 1; x != mx => x + 1 ok
            if cy is not None:
                if cy == 0:
                    return True
                if cy == 1:
                    for (op, p, qv) in facts:
                        if op == 'ult' and p == x:
                            return True
                        if op == 'ne' and ((p == x and const_int(qv) == mx) or (qv == x and const_int(p) == mx)):
                            return True
                        # the comparison may have been normalised onto the base of x = base + k:  base != mx - k
                        xi = self._ins(x)
                        if op == 'ne' and xi is not None and xi.op == 'add' and const_int(xi.o[1]) is not None:
                            kk = const_int(xi.o[1])
                            if (p == _k(xi.o[0]) and const_int(qv) == (mx - kk) % (mx + 1)) or (qv == _k(xi.o[0]) and const_int(p) == (mx - kk) % (mx + 1)):
                                return True
                        if op == 'ule' and p == x and qv != x:
                            # x <= y and y provably below max
                            uy = self.ub(facts, qv)
                            if uy is not None and uy < mx:
                                return True
                ux = self.ub(facts, x)
                if ux is not None and ux + cy <= mx:
                    return True
            # y <= M - x  where M is a constant <= mx, or any value with x <= M (then x + y <= M, no wrap)
            for (op, p, qv) in facts:
                if op in ('ule', 'ult') and p == y:
                    qi = self._ins(qv)
                    if qi is not None and qi.op == 'sub' and _k(qi.o[1]) == x:
                        k = const_int(qi.o[0])
                        if k is not None and k <= mx:
                            return True
                        if k is None and self._cmp(facts, 'ule', x, _k(qi.o[0])):
                            return True
            # monotonicity: y <= e and x + e known not to wrap  =>  x + y does not wrap
            if _depth < 2:
                for (op, p, qv) in facts:
                    if op in ('ule', 'ult') and p == y and qv != x and const_int(qv) is None:
                        if self._nwadd(facts, x, qv, mx, _depth + 1):
                            return True
        # post-hoc idiom: s = a + b; fact s >= a (checked by the caller on the sum) is handled by the rule
        return False

    def _nwmul(self, facts, a, b, mx):
        ua, ub_ = self.ub(facts, a), self.ub(facts, b)
        if ua == 0 or ub_ == 0:
            return True
        if ua is not None and ub_ is not None and ua * ub_ <= mx:
            return True
        k = self._mul_bound(facts, a, b)
        if k is not None and k <= mx:
            return True
        # compute-then-check: (a * b) / b == a  (b != 0) proves the product did not wrap; a zero factor never wraps
        for (op, x, y) in facts:
            if op != 'eq':
                continue
            if (x in (a, b) and const_int(y) == 0) or (y in (a, b) and const_int(x) == 0):
                return True
            for q, other in ((x, y), (y, x)):
                qi = self._ins(q)
                if qi is None or qi.op != 'udiv':
                    continue
                mi = self._ins(_k(qi.o[0]))
                if mi is None or mi.op != 'mul' or {_k(mi.o[0]), _k(mi.o[1])} != {a, b}:
                    continue
                d = _k(qi.o[1])
                if d in (a, b) and other == (b if d == a else a):
                    return True
        return False
