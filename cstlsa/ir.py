"""In-memory program model over the JSON written by tools/irdump.cc.

Values are referred to by the serialiser's operand refs (strings):
  "%N" instruction N of the same function, "$N" argument N, "#V" integer constant,
  "null", "undef", "@name" global/function; constant expressions are dicts.
Nothing in this package executes library code.
"""
import json
import re


def is_inst(r):
    return isinstance(r, str) and r.startswith('%')


def is_arg(r):
    return isinstance(r, str) and r.startswith('$')


def const_int(r):
    """integer value of a constant ref, else None (null counts as 0)"""
    if isinstance(r, str):
        if r.startswith('#') and r[1:].isdigit():
            return int(r[1:])
        if r == 'null':
            return 0
    return None


def unit_step(fn, ref):
    """(base ref, +1 | -1) if `ref` is  x + 1 / x - (-1)  or  x - 1 / x + (-1)  on a 64- or 32-bit integer; else (None, 0)"""
    i = fn.get(ref) if isinstance(ref, str) else None
    if i is None or i.op not in ('add', 'sub') or len(i.o) != 2:
        return None, 0
    c = const_int(i.o[1])
    if c is None:
        return None, 0
    bits = i.x.get('bits') or 64
    minus1 = (1 << bits) - 1
    if i.op == 'add':
        if c == 1:
            return i.o[0], 1
        if c == minus1:
            return i.o[0], -1
    else:
        if c == 1:
            return i.o[0], -1
        if c == minus1:
            return i.o[0], 1
    return None, 0


def is_null(r):
    return r == 'null'


class Inst:
    __slots__ = ('id', 'op', 'ty', 'o', 'line', 'srcfn', 'file', 'ia', 'x', 'block', 'pos', 'fn')

    def __init__(self, d, block, pos, fn):
        self.id = d['i']
        self.op = d['op']
        self.ty = d['ty']
        self.o = d.get('o', [])
        self.line = d.get('ln', 0)
        self.srcfn = d.get('fn', fn.name)
        self.file = d.get('file', fn.file)
        self.ia = d.get('ia', [])
        self.x = d
        self.block = block
        self.pos = pos
        self.fn = fn

    @property
    def ref(self):
        return '%%%d' % self.id

    @property
    def callee(self):
        return self.x.get('callee')

    @property
    def pred(self):
        return self.x.get('pred')

    def is_call(self):
        return self.op in ('call', 'invoke')

    def is_intrinsic(self):
        c = self.callee
        return bool(c) and c.startswith('llvm.')

    def loc(self):
        """file:line (function) with the inlining chain, for diagnostics"""
        f = (self.file or '').replace('/repo/', '')
        s = '%s:%d (%s)' % (f, self.line, self.srcfn)
        for fn, ln in self.ia:
            s += ' <- %s:%d' % (fn, ln)
        return s

    def __repr__(self):
        extra = ''
        if self.callee is not None:
            extra = ' ' + self.callee
        elif self.op == 'call':
            extra = ' *' + str(self.x.get('cv'))
        if self.pred:
            extra += ' ' + self.pred
        return '<%s = %s%s %s @%d>' % (self.ref, self.op, extra, self.o, self.line)


class Block:
    __slots__ = ('name', 'insts', 'succ', 'pred', 'idx', 'fn')

    def __init__(self, name, idx, fn):
        self.name = name
        self.insts = []
        self.succ = []
        self.pred = []
        self.idx = idx
        self.fn = fn

    @property
    def term(self):
        return self.insts[-1]

    def __repr__(self):
        return '<bb %s>' % self.name


def _prune_constant_branches(blocks):
    """a conditional branch on a literal constant (what inlining a helper with a constant argument leaves behind, e.g. a
    range loop called with an empty range) only continues to the successor the constant selects; blocks that become
    unreachable are dropped and phi entries for vanished edges removed.  Nothing else is rewritten."""
    CONST = {'#0': False, '#1': True, 'false': False, 'true': True}
    cut = set()
    for bd in blocks:
        t = bd['insts'][-1] if bd['insts'] else None
        if t is not None and t['op'] == 'br' and len(t.get('succ', [])) == 2 and t.get('o') and t['o'][0] in CONST and t['succ'][0] != t['succ'][1]:
            taken = t['succ'][0] if CONST[t['o'][0]] else t['succ'][1]
            dead = t['succ'][1] if CONST[t['o'][0]] else t['succ'][0]
            cut.add((bd['name'], dead))
            t['succ'] = [taken]
            t['o'] = []
    if not cut:
        return blocks
    byname = {bd['name']: bd for bd in blocks}
    seen = set()
    work = [blocks[0]['name']]
    while work:
        n = work.pop()
        if n in seen:
            continue
        seen.add(n)
        t = byname[n]['insts'][-1] if byname[n]['insts'] else None
        if t is not None and t['op'] in ('br', 'switch'):
            work.extend(t.get('succ', []))
    out = [bd for bd in blocks if bd['name'] in seen]
    for bd in out:
        for i in bd['insts']:
            if i['op'] != 'phi':
                continue
            keep = [k for k, b in enumerate(i.get('bb', [])) if b in seen and (b, bd['name']) not in cut]
            if len(keep) != len(i.get('bb', [])):
                i['o'] = [i['o'][k] for k in keep]
                i['bb'] = [i['bb'][k] for k in keep]
    return out


class Function:
    def __init__(self, d, module):
        self.module = module
        self.name = d['name']
        self.linkage = d['linkage']
        self.decl = d['decl']
        self.noreturn = d.get('noreturn', False)
        self.ret = d['ret']
        self.fty = d['fty']
        self.file = d.get('file', '')
        self.line = d.get('line', 0)
        self.args = d.get('args', [])
        self.names = d.get('names', {})
        self.blocks = []
        self.bb = {}
        self.inst = {}
        for bi, bd in enumerate(_prune_constant_branches(d.get('blocks', []))):
            b = Block(bd['name'], bi, self)
            self.blocks.append(b)
            self.bb[b.name] = b
            for pi, idd in enumerate(bd['insts']):
                ins = Inst(idd, b, pi, self)
                b.insts.append(ins)
                self.inst[ins.id] = ins
        for b in self.blocks:
            t = b.term if b.insts else None
            if t is not None and t.op in ('br', 'switch'):
                seen = []
                for s in t.x.get('succ', []):
                    if s not in seen:
                        seen.append(s)
                for s in seen:
                    sb = self.bb[s]
                    b.succ.append(sb)
                    sb.pred.append(b)
        self._dom = None
        self._pdom = None
        self._users = None

    # ---- values -----------------------------------------------------------------
    def get(self, ref):
        if is_inst(ref):
            return self.inst.get(int(ref[1:]))
        return None

    def argname(self, ref):
        if is_arg(ref):
            i = int(ref[1:])
            if i < len(self.args):
                return self.args[i].get('name') or ref
        return ref

    def vname(self, ref):
        """best-effort source-level name of a value for diagnostics"""
        if isinstance(ref, dict):
            return 'constexpr'
        if is_arg(ref):
            return self.argname(ref)
        if ref in self.names:
            return self.names[ref]
        return ref

    @property
    def entry(self):
        return self.blocks[0]

    def all_insts(self):
        for b in self.blocks:
            for i in b.insts:
                yield i

    def calls(self, name=None):
        for i in self.all_insts():
            if i.op == 'call' and (name is None or i.callee == name):
                yield i

    def users(self, ref):
        if self._users is None:
            u = {}
            for i in self.all_insts():
                ops = list(i.o)
                if i.op == 'call' and i.callee is None and i.x.get('cv') is not None:
                    ops.append(i.x['cv'])
                for o in ops:
                    if isinstance(o, str) and (o.startswith('%') or o.startswith('$')):
                        u.setdefault(o, []).append(i)
            self._users = u
        return self._users.get(ref, [])

    # ---- dominators ---------------------------------------------------------------
    def _compute_dom(self, post=False):
        blocks = self.blocks
        n = len(blocks)
        if post:
            exits = [b for b in blocks if not b.succ]
            # virtual exit joins every block without successors (ret and unreachable alike)
            preds = lambda b: b.succ
            succs = lambda b: b.pred
            roots = exits
        else:
            preds = lambda b: b.pred
            succs = lambda b: b.succ
            roots = [blocks[0]]
        # iterative set-based algorithm; functions are small
        allset = set(range(n))
        dom = {b.idx: set(allset) for b in blocks}
        for r in roots:
            dom[r.idx] = {r.idx}
        rootset = {r.idx for r in roots}
        # reachable order
        order = []
        seen = set()
        stack = list(roots)
        while stack:
            b = stack.pop()
            if b.idx in seen:
                continue
            seen.add(b.idx)
            order.append(b)
            stack.extend(succs(b))
        changed = True
        while changed:
            changed = False
            for b in order:
                if b.idx in rootset:
                    continue
                ps = [p for p in preds(b) if p.idx in seen]
                if not ps:
                    continue
                new = set.intersection(*[dom[p.idx] for p in ps]) | {b.idx}
                if new != dom[b.idx]:
                    dom[b.idx] = new
                    changed = True
        for b in blocks:
            if b.idx not in seen:
                dom[b.idx] = {b.idx}
        return dom

    def dominates_block(self, a, b):
        if self._dom is None:
            self._dom = self._compute_dom(False)
        return a.idx in self._dom[b.idx]

    def postdominates_block(self, a, b):
        """a post-dominates b w.r.t. all exits (returns and aborts)"""
        if self._pdom is None:
            self._pdom = self._compute_dom(True)
        return a.idx in self._pdom[b.idx]

    def dominates(self, i, j):
        """instruction i dominates instruction j"""
        if i.block is j.block:
            return i.pos <= j.pos
        return self.dominates_block(i.block, j.block)

    def reachable_from(self, block, avoid=()):
        """blocks reachable from block (inclusive) without passing through `avoid` blocks"""
        av = {b.idx for b in avoid}
        seen = set()
        out = []
        stack = [block]
        while stack:
            b = stack.pop()
            if b.idx in seen or b.idx in av:
                continue
            seen.add(b.idx)
            out.append(b)
            stack.extend(b.succ)
        return out

    def in_cycle(self, block, avoid=()):
        """can `block` be executed again after it was executed (without passing through `avoid` blocks)?"""
        return any(block in self.reachable_from(s, avoid=avoid) for s in block.succ if s not in avoid)

    def thread_succ(self, b, pred):
        """successors of b when entered from pred: a block that branches on a phi of its own whose incoming value
        from `pred` is a constant (the CFG shape of a short-circuit `a && b` loop condition) only continues to
        the successor that constant selects"""
        t = b.term if b.insts else None
        if pred is None or t is None or t.op != 'br' or not t.o:
            return b.succ
        c = self.get(t.o[0]) if isinstance(t.o[0], str) else None
        if c is None or c.op != 'phi' or c.block is not b:
            return b.succ
        for v, bb in zip(c.o, c.x['bb']):
            if bb == pred.name:
                k = const_int(v)
                if v in ('true', 'false'):
                    k = 1 if v == 'true' else 0
                if k is None:
                    return b.succ
                succ = t.x['succ']
                return [self.bb[succ[0] if k else succ[1]]]
        return b.succ

    def threaded_paths(self, first, second):
        """blocks that lie on some path first -> second which does not re-enter `first` and respects thread_succ;
        None when second is not reachable that way.  Returned blocks exclude first and second themselves;
        the flag says whether a path can pass through second more than once."""
        start = [(sb, first) for sb in first.succ]
        seen = set()
        edges = {}
        stack = list(start)
        while stack:
            b, p = stack.pop()
            key = (b.idx, p.idx)
            if key in seen or b is first:
                continue
            seen.add(key)
            for nb in self.thread_succ(b, p):
                edges.setdefault((nb.idx, b.idx), set()).add(key)
                stack.append((nb, b))
        targets = [k for k in seen if k[0] == second.idx]
        if not targets:
            return None, False
        # backward closure over the recorded state edges
        back = set(targets)
        through = set()                       # states that precede a target on such a path
        stack = [p for k in targets for p in edges.get(k, ())]
        while stack:
            k = stack.pop()
            if k in through:
                continue
            through.add(k)
            stack.extend(edges.get(k, ()))
        again = any(k[0] == second.idx for k in through)
        mids = {k[0] for k in through if k[0] != second.idx}
        return [bl for bl in self.blocks if bl.idx in mids], again

    def edge_dominates(self, src, dst, b):
        """does the CFG edge src->dst dominate block b (every path entry->b uses the edge)?"""
        if len(dst.pred) == 1:
            return self.dominates_block(dst, b)
        # dst has several predecessors: the edge dominates b iff dst dominates b and every other
        # predecessor of dst is dominated by dst (back edges) -- conservative: only single-pred case
        # plus the case where all other preds are dominated by dst.
        if not self.dominates_block(dst, b):
            return False
        for p in dst.pred:
            if p is src:
                continue
            if not self.dominates_block(dst, p):
                return False
        return True

    def returns(self):
        return [b.term for b in self.blocks if b.insts and b.term.op == 'ret']

    def noreturn_block(self, b):
        """block ends in unreachable (after a noreturn call)"""
        return bool(b.insts) and b.term.op == 'unreachable'

    def __repr__(self):
        return '<fn %s>' % self.name


class Module:
    def __init__(self, d, label=''):
        self.label = label
        self.source = d.get('source', '')
        self.structs = d.get('structs', {})
        self.globals = {g['name']: g for g in d.get('globals', [])}
        self.functions = {}
        for fd in d.get('functions', []):
            f = Function(fd, self)
            self.functions[f.name] = f

    @classmethod
    def load(cls, path, label=''):
        with open(path) as fh:
            return cls(json.load(fh), label or path)

    def defined(self):
        return [f for f in self.functions.values() if not f.decl]

    def fn(self, name):
        return self.functions.get(name)


# ---- address / field-path resolution --------------------------------------------

class Addr:
    """A pointer value resolved to (root value, field path).

    root  : operand ref that is not itself a GEP/bitcast (argument, load, call result, alloca, phi ...)
    steps : tuple of strings, field names or '[]' for a variable/non-zero index step
    struct: name of the first named struct on the path ('' if unknown)
    coff  : constant byte offset from root, or None if an index is variable
    idx   : list of index operand refs for the '[]' steps
    """
    __slots__ = ('root', 'steps', 'struct', 'coff', 'idx', 'fsteps')

    def __init__(self, root, steps, struct, coff, idx, fsteps=()):
        self.root = root
        self.steps = tuple(steps)
        self.struct = struct
        self.coff = coff
        self.idx = idx
        self.fsteps = tuple(fsteps)   # (struct name or '', field) per step, '[]' steps as ('', '[]')

    def has_field(self, struct, field):
        return (struct, field) in self.fsteps

    def last(self):
        return self.fsteps[-1] if self.fsteps else ('', '')

    @property
    def path(self):
        return '.'.join(self.steps)

    @property
    def field(self):
        return self.steps[-1] if self.steps else ''

    def key(self):
        return (self.root if not isinstance(self.root, dict) else json.dumps(self.root, sort_keys=True), self.steps, tuple(self.idx))

    def __repr__(self):
        return 'Addr(%s %s:%s)' % (self.root, self.struct, self.path)


def resolve_addr(fn, ref, through_casts=True):
    """Follow GEP / bitcast chains from a pointer operand down to its root."""
    steps = []
    idxs = []
    fsteps = []
    struct = ''
    coff = 0
    cur = ref
    guard = 0
    while guard < 64:
        guard += 1
        if isinstance(cur, dict):
            ce = cur.get('ce')
            if ce == 'getelementptr':
                st, ix, sname, fs = _path_steps(cur.get('path', []))
                fsteps = fs + fsteps
                steps = st + steps
                idxs = ix + idxs
                if sname:
                    struct = sname
                coff = None if (coff is None or cur.get('coff') is None) else coff + cur['coff']
                cur = cur['o'][0]
                continue
            if ce in ('bitcast', 'addrspacecast') and through_casts:
                cur = cur['o'][0]
                continue
            break
        ins = fn.get(cur)
        if ins is None:
            break
        if ins.op == 'getelementptr':
            st, ix, sname, fs = _path_steps(ins.x.get('path', []))
            fsteps = fs + fsteps
            steps = st + steps
            idxs = ix + idxs
            if sname:
                struct = sname
            c = ins.x.get('coff')
            coff = None if (coff is None or c is None) else coff + c
            cur = ins.o[0]
            continue
        if ins.op == 'bitcast' and through_casts:
            cur = ins.o[0]
            continue
        break
    return Addr(cur, steps, struct, coff, idxs, fsteps)


def _path_steps(path):
    steps = []
    idxs = []
    fsteps = []
    sname = ''
    for p in path:
        if 'f' in p:
            steps.append(p['f'])
            fsteps.append((p.get('s', ''), p['f']))
            if p.get('s') and not sname:
                sname = p['s']
        else:
            steps.append('[]')
            fsteps.append(('', '[]'))
            idxs.append(p['idx'])
    return steps, idxs, sname, fsteps


def strip_casts(fn, ref):
    """strip bitcast / zero-offset GEP / ptrtoint-inttoptr round trips"""
    cur = ref
    for _ in range(64):
        ins = fn.get(cur)
        if ins is None:
            return cur
        if ins.op == 'bitcast':
            cur = ins.o[0]
        elif ins.op == 'getelementptr' and ins.x.get('coff') == 0 and all('f' in p for p in ins.x.get('path', [])):
            # &x->first_member has the same address as x
            cur = ins.o[0]
        elif ins.op == 'inttoptr':
            src = fn.get(ins.o[0])
            if src is not None and src.op == 'ptrtoint':
                cur = src.o[0]
            else:
                return cur
        else:
            return cur
    return cur


def mem_access(ins):
    """(kind, Addr) for load / store / atomicrmw / cmpxchg, else None"""
    fn = ins.fn
    if ins.op == 'load':
        return 'load', resolve_addr(fn, ins.o[0])
    if ins.op == 'store':
        return 'store', resolve_addr(fn, ins.o[1])
    if ins.op == 'atomicrmw':
        return 'rmw', resolve_addr(fn, ins.o[0])
    if ins.op == 'cmpxchg':
        return 'cmpxchg', resolve_addr(fn, ins.o[0])
    return None


_srcline_cache = {}


def source_line(file, line):
    try:
        if file not in _srcline_cache:
            with open(file, errors='replace') as fh:
                _srcline_cache[file] = fh.read().split('\n')
        ls = _srcline_cache[file]
        if 1 <= line <= len(ls):
            return ls[line - 1].strip()
    except OSError:
        pass
    return ''
