"""Traversal protocol of the recursive tree walker (shared by C01 and C15).

The walker is discovered by effect: the self-recursive function of bintree.c that receives a visit
function (node, order, priv) and two child selectors.  Path-sensitive typestate over its body:

 events   V(order)   a call through the visit parameter with a constant order
          R(first|second)   a recursive call whose node is the child obtained through the first / second
                            selector parameter of *this* invocation
 protocol (a) on a path where every result is zero the events are exactly  LEAF  when both children are
              NULL, else  PRE [R(first) iff first child != NULL] MID [R(second) iff second child != NULL] POST
          (b) after a visit or a recursive call whose result is not known to be zero nothing further
              happens and that result is returned; the events so far are a prefix of (a)
          (c) the recursion passes on the same visit / priv / selectors
"""
from . import typestate
from .facts import _k, strip_bitcasts
from .ir import const_int

VISIT_FTY = 'i32 (%struct.cstl_bintree_node*, i32, i8*)'


def find_walker(m):
    mod = m.plain.get('bintree')
    if mod is None:
        return None
    for f in mod.defined():
        if any(c.callee == f.name for c in f.all_insts() if c.op == 'call') and \
                any(c.op == 'call' and c.callee is None and c.x.get('fty') == VISIT_FTY for c in f.all_insts()):
            return f
    return None


class WalkSite:
    """one way a function reaches the walker: `call` is the call instruction in the function itself (to the walker or
    to a forwarding helper); args[i] describes the walker's i-th argument:
       ('v', value)             a value of the function itself (parameter, constant @fn, phi, ...)
       ('h', helper, value)     a value computed inside the forwarding helper `helper`
    result_ok: the call's result is the walker's result or 0 (a helper may return 0 without walking)"""
    def __init__(self, call, args, helper=None, inner=None, result_ok=True):
        self.call, self.args, self.helper, self.inner, self.result_ok = call, args, helper, inner, result_ok


def walker_calls(m, pf, w):
    """every call in pf that reaches the walker, directly or through a helper that forwards its own parameters"""
    out = []
    for c in pf.all_insts():
        if c.op != 'call' or not c.callee:
            continue
        if c.callee == w.name:
            out.append(WalkSite(c, [('v', o) for o in c.o]))
            continue
        h = pf.module.fn(c.callee)
        if h is None or h.decl:
            h = m.pfn(c.callee)
        if h is None or h.decl or h.name == pf.name:
            continue
        inner = [k for k in h.all_insts() if k.op == 'call' and k.callee == w.name]
        if len(inner) != 1:
            continue
        k = inner[0]
        args = []
        for a in k.o:
            a0 = strip_bitcasts(h, a) if isinstance(a, str) else a
            if isinstance(a0, str) and a0.startswith('$') and a0[1:].isdigit() and int(a0[1:]) < len(c.o):
                args.append(('v', c.o[int(a0[1:])]))
            elif isinstance(a0, str) and a0.startswith('@'):
                args.append(('v', a0))
            else:
                args.append(('h', h, a0))
        # the helper's result: the walk's, or 0 where it does not walk
        ok = True
        for r in h.returns():
            for lf in _leaves(h, r.o[0]) if r.o else [None]:
                if lf != k.ref and const_int(lf) != 0:
                    ok = False
        out.append(WalkSite(c, args, helper=h, inner=k, result_ok=ok))
    return out


def _leaves(f, ref, seen=None):
    seen = seen if seen is not None else set()
    i = f.get(ref) if isinstance(ref, str) else None
    if i is None or i.op not in ('phi', 'select') or ref in seen:
        return [ref]
    seen.add(ref)
    out = []
    for o in (i.o if i.op == 'phi' else i.o[1:]):
        out += _leaves(f, o, seen)
    return out


def child_origin(f, ref, sel_first, sel_second):
    """'first' / 'second' if ref is the load of the slot returned by the first / second selector applied to the node"""
    i = f.get(strip_bitcasts(f, ref)) if isinstance(ref, str) else None
    if i is None or i.op != 'load':
        return None
    c = f.get(i.o[0])
    if c is None or c.op != 'call' or c.callee is not None:
        return None
    node_ok = c.o and strip_bitcasts(f, c.o[0]) == '$0'
    if not node_ok:
        return None
    if c.x.get('cv') == sel_first:
        return 'first'
    if c.x.get('cv') == sel_second:
        return 'second'
    return None


def analyse(m, f, orders):
    """-> (problems set, info dict).  orders: {'PRE':0,'MID':1,'POST':2,'LEAF':3}"""
    inv = {v: k for k, v in orders.items()}
    # parameters: node $0, visit $1, priv $2, selectors = the two parameters of selector type
    sel = [k for k, a in enumerate(f.args) if a['ty'].startswith('%struct.cstl_bintree_node** (')]
    if len(sel) != 2:
        return {'walker signature not recognised (two child selectors expected)'}, {}
    s1, s2 = '$%d' % sel[0], '$%d' % sel[1]
    problems = set()
    children = {'first': None, 'second': None}
    for i in f.all_insts():
        o = child_origin(f, i.ref, s1, s2)
        if o and children[o] is None:
            children[o] = i.ref
    if not children['first'] or not children['second']:
        return {'the children are not obtained through the two selector parameters'}, {}

    def transfer(ins, st, ps):
        ev, last = st
        if ins.op == 'call':
            if ins.x.get('noreturn'):
                return None
            e = None
            if ins.callee is None and ins.x.get('cv') == '$1':
                o = const_int(ins.o[1]) if len(ins.o) > 1 else None
                e = 'V:' + inv.get(o, '?%s' % o)
                if strip_bitcasts(f, ins.o[0]) != '$0':
                    problems.add('a visit at %s is not given the current node' % ins.loc())
            elif ins.callee == f.name:
                o = child_origin(f, ins.o[0], s1, s2)
                e = 'R:' + (o or '?')
                if o is None:
                    problems.add('the recursion at %s does not descend into a child obtained through a selector parameter' % ins.loc())
                if ins.o[1:] != ['$1', '$2', s1, s2]:
                    problems.add('the recursion at %s does not pass on the same visit / priv / selectors' % ins.loc())
            if e:
                if last != '-' and ps.knows(('eq', last, '#0')) is not True:
                    problems.add('%s at %s can happen although an earlier visit/recursion returned a value not known to be zero' % (e, ins.loc()))
                if len(ev) > 6:
                    problems.add('more than six visit/recursion events on one path')
                    return None
                return (ev + (e,), ins.ref)
        return st

    try:
        res = typestate.run(f, ((), '-'), transfer, limit=200000)
    except typestate.Limit as e:
        return {str(e)}, {}
    nzero = 0
    # a walker that answers 0 for a NULL node before doing anything else may be called on a child without testing it: such a
    # recursion is no event at all when the child is NULL
    null_exits = [(ret, ps) for ret, ps in res.exits if ps.knows(('eq', '$0', 'null')) is True]
    null_tolerant = bool(null_exits) and all(ps.auto[0] == () and ret.o and const_int(ps.lookup(_k(ret.o[0]))) == 0 for ret, ps in null_exits)
    for ret, ps in res.exits:
        if null_tolerant and ps.knows(('eq', '$0', 'null')) is True:
            continue
        ev, last = ps.auto
        k1 = ps.knows(('eq', children['first'], 'null'))
        k2 = ps.knows(('eq', children['second'], 'null'))
        allzero = last == '-' or ps.knows(('eq', last, '#0')) is True
        rv = ps.lookup(_k(ret.o[0])) if ret.o else None
        if allzero:
            nzero += 1
        # children whose NULL-ness this path never established: the protocol must hold either way
        for c1 in ([k1] if k1 is not None else [True, False]):
            for c2 in ([k2] if k2 is not None else [True, False]):
                if c1 and c2:
                    expect = ('V:LEAF',)
                else:
                    expect = ('V:PRE',) + (() if c1 else ('R:first',)) + ('V:MID',) + (() if c2 else ('R:second',)) + ('V:POST',)
                ev0 = ev
                if null_tolerant:
                    ev = tuple(e for e in ev0 if not ((e == 'R:first' and c1) or (e == 'R:second' and c2)))
                if allzero:
                    if ev != expect:
                        problems.add('with every result zero a node with children (first %s, second %s) sees the events %s instead of %s'
                                     % ('NULL' if c1 else 'present', 'NULL' if c2 else 'present', ' '.join(ev) or '(none)', ' '.join(expect)))
                elif ev != expect[:len(ev)]:
                    problems.add('the events before an early stop, %s, are not a prefix of %s' % (' '.join(ev), ' '.join(expect)))
                ev = ev0
        if allzero:
            if const_int(rv) != 0 and not (last != '-' and rv == ps.lookup(last)):
                problems.add('the walker returns %s although every visit returned zero' % rv)
        elif rv != ps.lookup(last):
            problems.add('after a non-zero result the walker returns %s instead of that result (return at %s)' % (rv, ret.loc()))
    return problems, {'exit_states': len(res.exits), 'all_zero_paths': nzero, 'children': children}
