"""Rules shared by the list / clear properties (C12, C13, C15).

doc_null     for every function documented `@retval NULL ...`: some returned value can actually be NULL
             (a NULL constant, a loaded / parameter / call value); a function all of whose returned
             values are pointer arithmetic on a node (`node - off`) can never return the documented NULL.
handoff      after a callback received an element, nothing is read or written through the node the
             element was derived from until the node variable is re-bound (successor already in a local).
stop value   after a non-zero visit result no further visit happens and that value is returned.
count +/- 1  a function that adjusts an element count by one does so exactly once on every path.
"""
from . import typestate
from .facts import _k, strip_bitcasts
from .ir import const_int, resolve_addr, unit_step


def ret_leaves(f, ref, seen=None, depth=0):
    """leaf values a returned pointer can take (through phi / select / casts)"""
    seen = seen if seen is not None else set()
    if not isinstance(ref, str):
        return [('const', ref)]
    if ref in seen or depth > 12:
        return []
    seen.add(ref)
    if ref == 'null':
        return [('null', ref)]
    if ref.startswith('$'):
        return [('param', ref)]
    if ref.startswith('@'):
        return [('global', ref)]
    i = f.get(ref)
    if i is None:
        return [('other', ref)]
    if i.op in ('phi',):
        out = []
        for o in i.o:
            out += ret_leaves(f, o, seen, depth + 1)
        return out
    if i.op == 'select':
        return ret_leaves(f, i.o[1], seen, depth + 1) + ret_leaves(f, i.o[2], seen, depth + 1)
    if i.op == 'bitcast':
        return ret_leaves(f, i.o[0], seen, depth + 1)
    if i.op == 'inttoptr':
        s = f.get(i.o[0])
        if s is not None and s.op in ('add', 'sub'):
            return [('arith', ref)]
        if s is not None and s.op == 'ptrtoint':
            return ret_leaves(f, s.o[0], seen, depth + 1)
        return [('other', ref)]
    if i.op == 'getelementptr':
        if i.x.get('coff') == 0:
            return ret_leaves(f, i.o[0], seen, depth + 1)
        return [('arith', ref)]
    if i.op == 'load':
        return [('load', ref)]
    if i.op == 'call':
        return [('call', ref)]
    return [('other', ref)]


def doc_null(m, rule, decls):
    """decls: {name: Decl}; checks those whose documentation promises a NULL return"""
    n = 0
    for name, d in sorted(decls.items()):
        if not any(rv.split()[:1] == ['NULL'] for rv in d.retvals):
            continue
        if '*' not in (d.type.split('(')[0] if d.type else '*'):
            continue
        f = m.ifn(name)
        if f is None:
            rule.undecided(name, 'documented @retval NULL but the function is not in the model')
            continue
        n += 1
        leaves = []
        for r in f.returns():
            if r.o:
                leaves += ret_leaves(f, r.o[0])
        kinds = {k for k, _ in leaves}
        doc = [rv for rv in d.retvals if rv.startswith('NULL')][0]
        loc = '%s:%d' % ((f.file or '').replace(m.repo + '/', ''), f.line)
        if kinds and kinds <= {'arith', 'global'}:
            rule.violation(name, 'documented "@retval %s" but every value this function can return is pointer arithmetic on a node (element = node - offset): '
                           'it cannot return NULL, so the documented case dereferences whatever the empty container holds instead' % doc.strip(), loc,
                           {'leaves': [k for k, _ in leaves]})
        elif not kinds:
            rule.undecided(name, 'no returned value found', loc)
        else:
            rule.ok(name, 'can return NULL (%s)' % ', '.join(sorted(kinds)), loc)
    return n


def handed_node(f, elem):
    """element pointer = node -/+ off (ptrtoint/sub/inttoptr): return the node value ref, else None"""
    i = f.get(elem) if isinstance(elem, str) else None
    for _ in range(10):
        if i is None:
            return None
        if i.op in ('bitcast', 'inttoptr', 'ptrtoint'):
            nxt = i.o[0]
        elif i.op in ('sub', 'add'):
            nxt = i.o[0]
        elif i.op == 'getelementptr':
            nxt = i.o[0]
        else:
            return i.ref
        if isinstance(nxt, str) and nxt.startswith('$'):
            return nxt
        i = f.get(nxt) if isinstance(nxt, str) else None
    return None


def derived_from(f, ref, root, depth=0):
    if ref == root:
        return True
    if depth > 12 or not isinstance(ref, str):
        return False
    i = f.get(ref)
    if i is None:
        return False
    if i.op in ('bitcast', 'getelementptr', 'ptrtoint', 'inttoptr', 'add', 'sub'):
        return any(derived_from(f, o, root, depth + 1) for o in i.o[:2] if isinstance(o, str))
    return False


def touches_after(f, call, node):
    """memory accesses through `node` that can execute after `call` before `node` is re-bound"""
    ni = f.get(node) if isinstance(node, str) else None
    header = ni.block if (ni is not None and ni.op == 'phi') else None
    seen = set()
    blocks = []
    st = list(call.block.succ)
    while st:
        b = st.pop()
        if b.idx in seen or (header is not None and b is header):
            continue
        seen.add(b.idx)
        blocks.append(b)
        st.extend(b.succ)
    cands = [i for i in call.block.insts if i.pos > call.pos]
    for b in blocks:
        cands += b.insts
    bad = []
    for i in cands:
        ptr = None
        if i.op == 'load':
            ptr = i.o[0]
        elif i.op == 'store':
            ptr = i.o[1]
        elif i.op in ('atomicrmw', 'cmpxchg'):
            ptr = i.o[0]
        elif i.op == 'call' and (i.callee or '').startswith(('llvm.memcpy', 'llvm.memmove', 'llvm.memset')):
            for o in i.o[:2]:
                a = resolve_addr(f, o)
                if a.root == node or derived_from(f, a.root, node):
                    bad.append(i)
            continue
        if ptr is None:
            continue
        a = resolve_addr(f, ptr)
        if a.root == node or derived_from(f, a.root, node):
            bad.append(i)
    return bad


def stop_value(m, f, rule, is_visit, site=None):
    """typestate: after a visit whose result is not known to be zero, no further visit; that value is returned"""
    bad = set()

    def transfer(ins, last, ps):
        if ins.op == 'call':
            if ins.x.get('noreturn'):
                return None
            if is_visit(ins):
                if last != '-' and ps.knows(('eq', last, '#0')) is not True:
                    bad.add('the visit at %s can run although the previous visit returned a value not known to be zero' % ins.loc())
                return ins.ref
        elif ins.op == 'ret' and ins.o:
            rv = ps.lookup(_k(ins.o[0]))
            if last != '-' and ps.knows(('eq', last, '#0')) is not True:
                if rv != ps.lookup(last):
                    bad.add('the return at %s does not hand back the non-zero result of the last visit' % ins.loc())
            elif const_int(rv) != 0 and not (last != '-' and rv == ps.lookup(last)):
                bad.add('the return at %s yields %s although every visit returned zero' % (ins.loc(), rv))
        return last

    site = site or f.name
    loc = '%s:%d' % ((f.file or '').replace(m.repo + '/', ''), f.line)
    n = len([c for c in f.all_insts() if c.op == 'call' and is_visit(c)])
    if n == 0:
        rule.undecided(site, 'no call of the visit function found', loc)
        return
    try:
        res = typestate.run(f, '-', transfer, limit=200000)
    except typestate.Limit as e:
        rule.undecided(site, str(e), loc)
        return
    if not res.exits:
        rule.undecided(site, 'no path to a return explored', loc)
    elif bad:
        rule.violation(site, '; '.join(sorted(bad)[:3]), loc, {})
    else:
        rule.ok(site, '%d visit site(s); stop value propagated on all %d exit state(s)' % (n, len(res.exits)), loc)


def field_addr_pred(m, f, struct, field):
    """predicate on an address operand of f: does it denote <struct>.<field> of some object -- directly, or through a
    pointer parameter of a private function to which every caller passes the address of that field"""
    alias = set()
    if f.linkage == 'internal':
        callers = []
        for g in f.module.defined():
            callers += [(g, c) for c in g.calls(f.name)]
        for k, a in enumerate(f.args):
            if not (a.get('ty') or '').endswith('*') or not callers:
                continue
            if all(k < len(c.o) and isinstance(c.o[k], str) and resolve_addr(g, c.o[k]).fsteps[-1:] == ((struct, field),) for g, c in callers):
                alias.add('$%d' % k)

    def pred(ref):
        a = resolve_addr(f, ref)
        if a.fsteps[-1:] == ((struct, field),):
            return True
        return not a.steps and a.coff == 0 and isinstance(a.root, str) and a.root in alias
    return pred


def _mutates_links(m, g, node, links, seen=None, depth=0):
    """does g (or a private helper it calls) store into a link field of a node?"""
    seen = seen if seen is not None else set()
    if g is None or g.decl or g.name in seen or depth > 4:
        return False
    seen.add(g.name)
    for i in g.all_insts():
        if i.op == 'store' and resolve_addr(g, i.o[1]).fsteps[-1:] in tuple(((node, l),) for l in links):
            return True
        if i.op == 'call' and i.callee and not i.is_intrinsic():
            h = g.module.fn(i.callee)
            if h is not None and not h.decl and h.linkage == 'internal' and _mutates_links(m, h, node, links, seen, depth + 1):
                return True
    return False


def count_once(m, f, rule, struct, field, site=None, node=None, links=()):
    """every path of f performs exactly one store  field := field +/- 1  on a parameter-rooted object -- or, when the node
    type and its link fields are given, exactly one on every path that changes a link (directly or through a private
    link helper that keeps no count of its own) and none on a path that changes no link (pop_front of an empty list)"""
    bad = set()
    stored_vals = set()
    is_field = field_addr_pred(m, f, struct, field)

    def is_adj(ins):
        if ins.op != 'store':
            return 0
        a = resolve_addr(f, ins.o[1])
        if not is_field(ins.o[1]) or not (isinstance(a.root, str) and a.root.startswith('$')):
            return 0
        base, step = unit_step(f, ins.o[0])
        if not step:
            return 0
        v = f.get(ins.o[0])
        ld = f.get(base) if isinstance(base, str) else None
        if ld is None:
            return 0
        if ld.op == 'load':
            if not is_field(ld.o[0]):
                return 0
        elif ld.ref not in stored_vals:
            # (store-to-load forwarding) the operand may be the value a previous store put there
            return 0
        return step

    for i in f.all_insts():
        if i.op == 'store' and is_field(i.o[1]) and isinstance(i.o[0], str):
            stored_vals.add(i.o[0])
    adjs = [i for i in f.all_insts() if is_adj(i)]
    if not adjs:
        return False
    if all(i.block.idx in {b.idx for s in i.block.succ for b in f.reachable_from(s)} for i in adjs):
        return False      # every adjustment sits in a loop: the function counts, it does not link/unlink one node

    def is_link_change(ins):
        if not node:
            return False
        if ins.op == 'store' and resolve_addr(f, ins.o[1]).fsteps[-1:] in tuple(((node, l),) for l in links):
            return True
        if ins.op == 'call' and ins.callee and not ins.is_intrinsic():
            h = f.module.fn(ins.callee)
            return h is not None and not h.decl and h.linkage == 'internal' and _mutates_links(m, h, node, links)
        return False

    def transfer(ins, st, ps):
        if ins.op == 'call' and ins.x.get('noreturn'):
            return None
        d = is_adj(ins)
        if d:
            return (min(st[0] + (d == 1), 3), min(st[1] + (d == -1), 3), st[2])
        if not st[2] and is_link_change(ins):
            return (st[0], st[1], True)
        return st

    site = site or f.name
    loc = '%s:%d' % ((f.file or '').replace(m.repo + '/', ''), f.line)
    try:
        res = typestate.run(f, (0, 0, False), transfer, track=lambda r: False, limit=100000)
    except typestate.Limit as e:
        rule.undecided(site, str(e), loc)
        return True
    full = {ps.auto for _, ps in res.exits}
    kinds = {(a_, b_) for (a_, b_, _m) in full}
    if node and kinds - {(0, 0)} in ({(1, 0)}, {(0, 1)}) and (0, 0) in kinds:
        # some path does not adjust: fine exactly when that path changes no link, and every adjusting path changes one
        idle_ok = all(not mut for (a_, b_, mut) in full if (a_, b_) == (0, 0))
        busy_ok = all(mut for (a_, b_, mut) in full if (a_, b_) != (0, 0))
        if idle_ok and busy_ok:
            rule.ok(site, '%s %s exactly once on every path that changes a link, untouched on the path(s) that change none (%d exit state(s))'
                    % (field, '+1' if (1, 0) in kinds else '-1', len(res.exits)), loc)
            return True
    if kinds == {(1, 0)} or kinds == {(0, 1)}:
        rule.ok(site, '%s %s exactly once on all %d exit state(s)' % (field, '+1' if kinds == {(1, 0)} else '-1', len(res.exits)), loc)
    else:
        rule.violation(site, 'the element count is not adjusted exactly once on every path: (+1, -1) counts per path are %s' % sorted(kinds), loc, {})
    return True


# ---- insertion primitive direction vs. the anchors its callers pass -----------------------------------

def primitive_direction(f, node_struct, nxt='n', prv='p'):
    """the static link primitive f(list, anchor, new): 'after' when it stores new into anchor->next, 'before' when it
    stores new into anchor->prev (exactly one of the two), else None"""
    from .ir import resolve_addr
    from .facts import strip_bitcasts
    kinds = set()
    for s in f.all_insts():
        if s.op != 'store' or strip_bitcasts(f, s.o[0]) != '$2':
            continue
        a = resolve_addr(f, s.o[1])
        if strip_bitcasts(f, a.root) == '$1' and len(a.fsteps) == 1 and a.fsteps[0][0] == node_struct:
            if a.fsteps[0][1] == nxt:
                kinds.add('after')
            elif a.fsteps[0][1] == prv:
                kinds.add('before')
    return kinds.pop() if len(kinds) == 1 else None


def anchor_kind(f, v, list_struct, node_struct, nxt='n', prv='p', tail=None):
    """classify the anchor value a caller passes: 'head' (&list->h), 'first' (load list->h.next), 'last' (load
    list->h.prev, or the slist tail pointer), ('node', X) the node inside element X, ('next-of', X), ('prev-of', X)"""
    from .ir import resolve_addr
    from .facts import strip_bitcasts
    v = strip_bitcasts(f, v) if isinstance(v, str) else v
    i = f.get(v) if isinstance(v, str) else None
    if i is not None and i.op == 'getelementptr':
        a = resolve_addr(f, v)
        if strip_bitcasts(f, a.root) == '$0' and [x[1] for x in a.fsteps] == ['h']:
            return 'head'
    if i is not None and i.op == 'load':
        a = resolve_addr(f, i.o[0])
        names = [x[1] for x in a.fsteps]
        if strip_bitcasts(f, a.root) == '$0':
            if names == ['h', nxt]:
                return 'first'
            if names == ['h', prv] or (tail and names == [tail]):
                return 'last'
        base = handed_node(f, a.root) if isinstance(a.root, str) else None
        if base is not None and base.startswith('$') and len(names) == 1:
            if names[0] == nxt:
                return ('next-of', base)
            if names[0] == prv:
                return ('prev-of', base)
    hn = handed_node(f, v) if isinstance(v, str) else None
    if hn is not None and hn.startswith('$') and hn != '$0':
        return ('node', hn)
    return None


def check_insert_anchors(m, rule, unit, prim_name_hint, list_struct, node_struct, entries, nxt='n', prv='p', tail=None, null_fns=()):
    """entries: {function name: ('front' | 'back' | ('after', '$k'))}.  The primitive links `new` after or before its
    anchor; each entry point must pass the anchor that puts the new node where the entry point promises."""
    mod = m.plain.get(unit)
    prim = None
    for g in (mod.defined() if mod is not None else []):
        if len(g.args) == 3 and primitive_direction(g, node_struct, nxt, prv) and g.linkage == 'internal':
            prim = g
    if prim is None:
        for name in entries:
            rule.ok(name + ':anchor', 'NOT DECIDED: no three-argument link primitive found (links are made in place)')
        return
    d = primitive_direction(prim, node_struct, nxt, prv)
    want = {'front': {'after': 'head', 'before': 'first'}, 'back': {'after': 'last', 'before': 'head'}}
    for name, promise in sorted(entries.items()):
        f = m.pfn(name)
        site = name + ':anchor'
        if f is None:
            rule.undecided(site, 'not in the model')
            continue
        cs = list(f.calls(prim.name))
        if len(cs) == 0 and null_fns:
            # delegation: the entry point hands the work to another one ("insert after the last element"); the element it
            # names as the anchor must exist -- the result of a function documented to return NULL for an empty list is
            # not an element unless it was tested
            from .facts import Prover, strip_bitcasts
            dele = [(c, entries[c.callee]) for c in f.all_insts() if c.op == 'call' and c.callee in entries and c.callee != name
                    and isinstance(entries[c.callee], tuple)]
            done = False
            for c, pr in dele:
                k = int(pr[1][1:])
                arg = strip_bitcasts(f, c.o[k]) if k < len(c.o) and isinstance(c.o[k], str) else None
                ai = f.get(arg) if isinstance(arg, str) else None
                if ai is not None and ai.op == 'call' and ai.callee in null_fns:
                    done = True
                    pv = Prover(f)
                    if pv.prove_at(('ne', arg, 'null'), c):
                        rule.ok(site, 'delegates to %s() after the element %s() returned, tested against NULL' % (c.callee, ai.callee), c.loc())
                    else:
                        rule.violation(site, '%s delegates to %s() with the result of %s() as the anchor element, without testing it: for an empty list '
                                       'that result is NULL (as documented), and the anchor node is computed from a NULL element'
                                       % (name, c.callee, ai.callee), c.loc(), {})
            if done:
                continue
        if len(cs) != 1:
            rule.ok(site, 'NOT DECIDED: %d calls of %s' % (len(cs), prim.name))
            continue
        c = cs[0]
        k = anchor_kind(f, c.o[1], list_struct, node_struct, nxt, prv, tail)
        if isinstance(promise, tuple):
            exp = ('node', promise[1]) if d == 'after' else ('next-of', promise[1])
            what = 'after the given element'
        else:
            exp = want[promise][d]
            what = 'at the %s' % promise
        if k == exp:
            rule.ok(site, '%s links its node %s the anchor; anchor passed: %s' % (prim.name, d, k), c.loc())
        elif k is None:
            rule.ok(site, 'NOT DECIDED: anchor %s not classified' % c.o[1], c.loc())
        else:
            rule.violation(site, '%s() links the new node %s its anchor, and %s passes %s as anchor: the element does not end up %s (expected anchor: %s)'
                           % (prim.name, d.upper(), name, k, what, exp), c.loc(), {'direction': d, 'anchor': str(k)})


def current_values(f, root, steps, after=()):
    """SSA values that stand for the content of (root).steps once the exchange is done: loads of that location that all
    `after` instructions dominate, and the values stored into it (store-to-load forwarding replaces the former by the latter)"""
    from .ir import resolve_addr
    from .facts import strip_bitcasts
    out = set()
    for i in f.all_insts():
        if i.op == 'load':
            a = resolve_addr(f, i.o[0])
            if strip_bitcasts(f, a.root) == root and tuple(a.steps) == tuple(steps) and all(f.dominates(c, i) for c in after):
                out.add(i.ref)
        elif i.op == 'store':
            a = resolve_addr(f, i.o[1])
            if strip_bitcasts(f, a.root) == root and tuple(a.steps) == tuple(steps) and isinstance(i.o[0], str):
                out.add(strip_bitcasts(f, i.o[0]))
    return out


def exchange_events(f):
    """instructions of a swap function that exchange (parts of) its two list objects as a block: memcpy / memmove, and calls
    that are handed both objects (the generic cstl_swap, whatever its body looks like)"""
    from .ir import resolve_addr
    from .facts import strip_bitcasts
    out = []
    for c in f.all_insts():
        if c.op != 'call':
            continue
        if (c.callee or '').startswith(('llvm.memcpy', 'llvm.memmove')):
            out.append(c)
        elif c.callee and not c.is_intrinsic() and len(c.o) >= 2:
            roots = set()
            for o in c.o[:2]:
                if isinstance(o, str):
                    r = resolve_addr(f, o).root
                    roots.add(strip_bitcasts(f, r) if isinstance(r, str) else r)
            if roots == {'$0', '$1'}:
                out.append(c)
    return out
