"""Shared no-wrap rule (C09.V1, C10.T1, C14.A2/A3, C03.L7).

For a public entry point in the whole-library inlined IR:
  sinks       size arguments of malloc/realloc/calloc; values stored into container length fields
              (given by the caller as field names); operands of branch-controlling comparisons (opt-in)
  obligations every unsigned 64-bit add / mul / shl in the backward slice of a sink that depends on a
              parameter of the entry point (values loaded from the container are not parameter-derived)
  verdict     PASS       the no-wrap goal is derived from the dominating facts (facts.Prover)
              VIOLATION  not derived and some non-constant operand has no upper-bounding fact on any
                         branch edge leading to the operation (the operand is plainly unconstrained:
                         a concrete wrapping value exists)
              UNDECIDED  not derived although every operand is bounded somehow (unrecognised guard idiom)
"""
from .facts import Prover, edge_atoms, _k
from .ir import const_int, is_arg, mem_access, resolve_addr

ALLOC_SIZE_ARGS = {'malloc': [0], 'realloc': [1], 'calloc': [0, 1], 'aligned_alloc': [1]}
ARITH = ('add', 'sub', 'mul', 'shl')
THROUGH = ARITH + ('zext', 'phi', 'select', 'or', 'and', 'lshr', 'udiv', 'urem')


def tainted(fn):
    """values computed from the integer parameters of fn (forward closure; loads stop the taint)"""
    t = set()
    for k, a in enumerate(fn.args):
        if a['ty'].startswith('i') and '*' not in a['ty']:
            t.add('$%d' % k)
    changed = True
    while changed:
        changed = False
        for i in fn.all_insts():
            if i.ref in t:
                continue
            if i.op in THROUGH + ('trunc', 'sext'):
                if any(isinstance(o, str) and o in t for o in i.o):
                    t.add(i.ref)
                    changed = True
            elif i.op == 'call' and (i.callee or '').startswith(('llvm.umul.with.overflow', 'llvm.uadd.with.overflow')):
                if any(isinstance(o, str) and o in t for o in i.o):
                    t.add(i.ref)
                    changed = True
            elif i.op == 'extractvalue' and isinstance(i.o[0], str) and i.o[0] in t:
                t.add(i.ref)
                changed = True
    return t


def backward_slice(fn, ref, seen=None):
    """instructions the value is computed from, through arithmetic / phi / select / casts"""
    seen = seen if seen is not None else {}
    ins = fn.get(ref) if isinstance(ref, str) else None
    if ins is None or ins.id in seen:
        return seen
    if ins.op in THROUGH + ('trunc', 'sext'):
        seen[ins.id] = ins
        for o in ins.o:
            backward_slice(fn, o, seen)
    elif ins.op == 'extractvalue' and ins.x.get('evi') == [0]:
        c = fn.get(ins.o[0])
        if c is not None and c.op == 'call' and (c.callee or '').startswith(('llvm.umul.with.overflow', 'llvm.uadd.with.overflow')):
            seen[ins.id] = ins
            for o in c.o:
                backward_slice(fn, o, seen)
    return seen


def family(fn, ref):
    """the value and everything it is computed from (refs)"""
    out = {_k(ref)}
    for i in backward_slice(fn, ref).values():
        out.add(i.ref)
        for o in i.o:
            out.add(_k(o))
    return out


def upper_bound_atoms(fn, ins, fam):
    """atoms on branch edges leading to `ins` that bound a member of `fam` from above"""
    target = ins.block
    found = []
    reach_cache = {}
    for b in fn.blocks:
        if len(b.succ) < 2:
            continue
        for s in b.succ:
            if s.idx not in reach_cache:
                reach_cache[s.idx] = {x.idx for x in fn.reachable_from(s)}
            if target.idx not in reach_cache[s.idx]:
                continue
            atoms, _ = edge_atoms(fn, b, s)
            for (op, x, y) in atoms:
                if op in ('ult', 'ule') and x in fam and const_int(x) is None:
                    found.append((op, x, y))
                elif op in ('eq',) and ((x in fam and const_int(y) is not None) or (y in fam and const_int(x) is not None)):
                    found.append((op, x, y))
                elif op == 'ne' and ((x in fam and const_int(y) not in (None, 0)) or (y in fam and const_int(x) not in (None, 0))):
                    found.append((op, x, y))
    return found


def describe(fn, ref):
    c = const_int(ref)
    if c is not None:
        return str(c) if c < (1 << 63) else 'SIZE_MAX-%d' % ((1 << 64) - 1 - c) if c != (1 << 64) - 1 else 'SIZE_MAX'
    ins = fn.get(ref) if isinstance(ref, str) else None
    if ins is None:
        return fn.vname(ref)
    if ins.op == 'load':
        a = mem_access(ins)[1]
        return '%s->%s' % (fn.vname(a.root), a.path) if a.path else fn.vname(ins.ref)
    if ins.op in ('add', 'sub', 'mul', 'shl', 'udiv'):
        sym = {'add': '+', 'sub': '-', 'mul': '*', 'shl': '<<', 'udiv': '/'}[ins.op]
        return '(%s %s %s)' % (describe(fn, ins.o[0]), sym, describe(fn, ins.o[1]))
    if ins.op in ('zext', 'trunc', 'sext'):
        return describe(fn, ins.o[0])
    n = fn.vname(ins.ref)
    return n


def check_op(fn, pv, ins, at=None):
    """-> (verdict, text); the goal is proven at the operation itself, or at `at` (an instruction it dominates)"""
    a, b = _k(ins.o[0]), _k(ins.o[1])
    bits = ins.x.get('bits') or 64
    if ins.op == 'add':
        goal = ('nwadd', a, b, bits)
        cb = const_int(b)
        if cb is not None and cb >= (1 << (bits - 1)):
            # add x, -c  is  x - c
            goal = ('nwsub', a, '#%d' % ((1 << bits) - cb), bits)
    elif ins.op == 'mul':
        goal = ('nwmul', a, b, bits)
    elif ins.op == 'shl':
        sh = const_int(b)
        if sh is None:
            return 'UNDECIDED', 'variable shift'
        goal = ('nwmul', a, '#%d' % (1 << sh), bits)
    elif ins.op == 'sub':
        goal = ('nwsub', a, b, bits)
    else:
        return 'PASS', ''
    if pv.prove_at(goal, at or ins):
        tr = pv.trace[-1] if pv.trace else None
        return 'PASS', '%s derived from %s' % (goal[0], [t for t in (tr[3] if tr else [])][:6])
    if at is not None and ins.op == 'add':
        # compute-then-check for a sum with a constant: x + c wrapped  <=>  result < c  (for c = 1: result == 0)
        cb = const_int(b)
        if cb is not None and 0 < cb < (1 << (bits - 1)):
            if pv.prove_at(('ule', '#%d' % cb, ins.ref), at) or (cb == 1 and pv.prove_at(('ne', ins.ref, '#0'), at)):
                return 'PASS', 'the result of %s is checked against wrapping (result >= %d) before it is used' % (describe(fn, ins.ref), cb)
    expr = describe(fn, ins.ref)
    if goal[0] == 'nwsub':
        # a - b wraps when b > a; unconstrained iff no fact relates them
        fam_a, fam_b = family(fn, a), family(fn, b)
        ub = upper_bound_atoms(fn, ins, fam_b)
        if not ub:
            return 'VIOLATION', '%s can wrap below zero: nothing on any path to it bounds `%s` by `%s`' % (expr, describe(fn, b), describe(fn, a))
        return 'UNDECIDED', '%s: guard present (%s) but the no-wrap goal is not derivable' % (expr, ub[:2])
    unb = []
    fams = {o: family(fn, o) for o in (a, b)}
    ubs = {o: upper_bound_atoms(fn, ins, fams[o]) for o in (a, b)}
    for o, other in ((a, b), (b, a)):
        if const_int(o) is not None:
            continue
        if ubs[o]:
            continue
        # a bound on the other operand expressed in terms of this one (x <= K / o) constrains the pair
        relational = any((fams[o] - {'#0', '#1'}) & family(fn, y) for (_, x, y) in ubs[other] if const_int(y) is None)
        if not relational:
            unb.append(describe(fn, o))
    if unb:
        mx = 'SIZE_MAX' if bits == 64 else '2^%d-1' % bits
        return 'VIOLATION', ('%s can wrap: no branch on any path to it bounds %s from above (e.g. %s = %s%s); the wrapped, smaller value is then '
                             'used as a size' % (expr, ' or '.join('`%s`' % u for u in unb), unb[0], mx,
                                                 '' if ins.op == 'add' else '/2+1 with the other factor >= 2'))
    w = find_witness(fn, ins)
    if w:
        return 'VIOLATION', '%s wraps for %s although a guard is present: the guard does not cover this operation' % (
            expr, ', '.join('%s = %s' % (k, describe(fn, '#%d' % v)) for k, v in sorted(w.items())))
    return 'UNDECIDED', '%s: operands are bounded by some guard, but the no-wrap goal is not derivable from the facts' % expr


MAXU = (1 << 64) - 1
CANDS = [0, 1, 2, 3, 4, 7, 8, 16, 24, MAXU, MAXU - 1, MAXU - 7, MAXU - 22, MAXU - 23, MAXU - 24, MAXU // 2, MAXU // 2 + 1, MAXU // 4 + 1, MAXU // 8, MAXU // 16 + 2]


def find_witness(fn, ins, limit=4000):
    """try a few values for the integer parameters the operands depend on and walk the CFG with them
    (constant propagation; conditions that depend on memory or calls are taken both ways): returns
    {param: value} for which the operation is reached and wraps, or None.  Used only to turn an
    otherwise UNDECIDED obligation into a VIOLATION with a concrete input."""
    import itertools
    fam = family(fn, ins.ref)
    params = sorted(p for p in fam if isinstance(p, str) and is_arg(p))
    if not params or len(params) > 3:
        return None
    bits = ins.x.get('bits') or 64
    mask = (1 << bits) - 1

    def ev(ref, env, depth=0):
        c = const_int(ref)
        if c is not None:
            return c
        if isinstance(ref, str) and ref in env:
            return env[ref]
        i = fn.get(ref) if isinstance(ref, str) else None
        if i is None or depth > 20:
            return None
        if i.op in ('add', 'sub', 'mul', 'udiv', 'urem', 'shl', 'lshr', 'and', 'or', 'xor'):
            a, b = ev(i.o[0], env, depth + 1), ev(i.o[1], env, depth + 1)
            if a is None or b is None:
                return None
            m = (1 << (i.x.get('bits') or 64)) - 1
            try:
                r = {'add': a + b, 'sub': a - b, 'mul': a * b, 'udiv': a // b if b else None, 'urem': a % b if b else None,
                     'shl': a << b if b < 64 else 0, 'lshr': a >> b if b < 64 else 0, 'and': a & b, 'or': a | b, 'xor': a ^ b}[i.op]
            except Exception:
                return None
            return None if r is None else r & m
        if i.op in ('zext', 'trunc'):
            a = ev(i.o[0], env, depth + 1)
            return None if a is None else a & ((1 << (i.x.get('bits') or 64)) - 1)
        if i.op == 'icmp':
            a, b = ev(i.o[0], env, depth + 1), ev(i.o[1], env, depth + 1)
            if a is None or b is None:
                return None
            p = i.pred
            return int({'eq': a == b, 'ne': a != b, 'ult': a < b, 'ule': a <= b, 'ugt': a > b, 'uge': a >= b}.get(p, None)) if p in ('eq', 'ne', 'ult', 'ule', 'ugt', 'uge') else None
        return None

    def cond_family(c, depth=0):
        # what a branch condition is computed from: through comparisons, logic operators and i1 merges
        ci = fn.get(c) if isinstance(c, str) else None
        if ci is None or depth > 6:
            return family(fn, c) if isinstance(c, str) else set()
        if ci.op in ('icmp', 'and', 'or', 'xor', 'zext', 'trunc', 'select') or (ci.op == 'phi' and ci.ty == 'i1'):
            out = set()
            for o in ci.o:
                out |= cond_family(o, depth + 1)
            return out
        return family(fn, c)

    def reaches(env):
        seen = set()
        st = [(fn.entry, None)]
        while st:
            b, pred = st.pop()
            key = (b.idx, pred.idx if pred else -1)
            if key in seen:
                continue
            seen.add(key)
            if b is ins.block:
                return True
            t = b.term
            if t.op == 'br' and t.o:
                c = t.o[0]
                ci = fn.get(c) if isinstance(c, str) else None
                v = None
                if ci is not None and ci.op == 'phi' and pred is not None:
                    for o, bb in zip(ci.o, ci.x['bb']):
                        if bb == pred.name:
                            v = ev(o, env)
                elif ci is not None and ci.op != 'phi':
                    v = ev(c, env)
                else:
                    v = const_int(c)
                succ = t.x['succ']
                if v is None:
                    # undetermined.  A condition that involves one of the candidate parameters together with something
                    # the search cannot evaluate (memory, a call) may be exactly the guard that excludes this input:
                    # no claim is made through it.  A condition unrelated to the parameters is taken both ways.
                    if isinstance(c, str) and (cond_family(c) & set(params)):
                        continue
                    st.append((fn.bb[succ[0]], b))
                    st.append((fn.bb[succ[1]], b))
                else:
                    st.append((fn.bb[succ[0] if v else succ[1]], b))
            else:
                for sx in b.succ:
                    if sx.insts and sx.term.op == 'unreachable' and len(sx.insts) <= 2:
                        continue
                    st.append((sx, b))
        return False

    # object state the guards read (e.g. the element size): a witness may choose it too, as long as one value per
    # location is consistent -- only locations reached from a parameter by constant field steps that this function
    # never stores to, and at most two of them
    groups = {}
    stored = set()
    for i in fn.all_insts():
        if i.op == 'store':
            # only stores that can execute before the operation disturb the "one value per location" reading
            if i.block is ins.block:
                before = i.pos < ins.pos
            else:
                before = ins.block in fn.reachable_from(i.block)
            if not before:
                continue
            a = resolve_addr(fn, i.o[1])
            stored.add((a.root if isinstance(a.root, str) else None, a.steps))
    cands_refs = set(fam)
    for b0 in fn.blocks:
        t0 = b0.term if b0.insts else None
        if t0 is not None and t0.op == 'br' and t0.o and isinstance(t0.o[0], str):
            cf = cond_family(t0.o[0])
            if cf & set(params):
                cands_refs |= cf
    for r in cands_refs:
        li = fn.get(r) if isinstance(r, str) else None
        if li is None or li.op != 'load' or (li.x.get('bits') or 64) > 64:
            continue
        a = resolve_addr(fn, li.o[0])
        key = (a.root if isinstance(a.root, str) else None, a.steps)
        if key[0] is None or not is_arg(key[0]) or not a.steps or a.coff is None or key in stored or a.idx:
            continue
        groups.setdefault(key, []).append(li.ref)
    gkeys = sorted(groups)[:2]
    MEMC = (1, 0, 2, 8, 16)
    n = 0
    for vals in itertools.product(CANDS, repeat=len(params)):
        for mvals in itertools.product(MEMC, repeat=len(gkeys)):
            n += 1
            if n > limit * 4:
                return None
            env = dict(zip(params, vals))
            for gk, mv in zip(gkeys, mvals):
                for r in groups[gk]:
                    env[r] = mv
            a, b = ev(ins.o[0], env), ev(ins.o[1], env)
            if a is None or b is None:
                continue
            wraps = (ins.op == 'add' and a + b > mask) or (ins.op == 'mul' and a * b > mask) or (ins.op == 'shl' and (a << b) > mask) or (ins.op == 'sub' and b > a)
            if wraps and reaches(env):
                out = {fn.argname(p): env[p] for p in params}
                for gk, mv in zip(gkeys, mvals):
                    out['%s->%s' % (fn.argname(gk[0]), '.'.join(gk[1]))] = mv
                return out
    return None


def find_sinks(fn, length_fields=(), compare=False, taint=None, skip_alloc=False):
    """[(sink instruction, operand ref, kind)]"""
    sinks = []
    for i in fn.all_insts():
        if i.op == 'call' and i.callee in ALLOC_SIZE_ARGS and not skip_alloc:
            for k in ALLOC_SIZE_ARGS[i.callee]:
                if k < len(i.o):
                    sinks.append((i, i.o[k], 'size argument of %s' % i.callee))
        elif i.op == 'store' and length_fields:
            a = resolve_addr(fn, i.o[1])
            if a.path in length_fields or a.field in length_fields:
                sinks.append((i, i.o[0], 'stored into %s' % a.path))
        elif compare and i.op == 'icmp':
            if any(u.op == 'br' for u in fn.users(i.ref)) or any(u.op == 'phi' and u.ty == 'i1' for u in fn.users(i.ref)):
                for o in i.o:
                    oi = fn.get(o) if isinstance(o, str) else None
                    if oi is not None and oi.op in ARITH:
                        if oi.op == 'sub' and i.pred in ('eq', 'ne'):
                            continue    # a wrapped difference cannot change the outcome of an (in)equality test against a bound
                        if oi.op == 'add' and i.pred in ('eq', 'ne') and const_int(oi.o[1]) is not None and \
                                any(const_int(x) == 0 for x in i.o):
                            continue    # `x + c == 0` is the test for the wrap itself (compute-then-check)
                        sinks.append((i, o, 'operand of the branch condition at line %d' % i.line))
    return sinks


def check_entry(fn, rule, length_fields=(), compare=False, label=None, sub_in_compare=True, exempt=None, skip_alloc=False):
    """run the no-wrap rule on one entry point; returns number of obligations"""
    tnt = tainted(fn)
    pv = Prover(fn)
    done = {}
    n = 0
    all_sinks = list(find_sinks(fn, length_fields, compare, skip_alloc=skip_alloc))
    for sink, opnd, kind in all_sinks:
        sl = backward_slice(fn, opnd)
        for ins in sl.values():
            if ins.op == 'extractvalue' and ins.ref in tnt and ins.id not in done:
                # result of a checked-arithmetic builtin: sound iff the overflow flag was tested and is false here
                done[ins.id] = True
                n += 1
                c = fn.get(ins.o[0])
                flags = [e for e in fn.users(c.ref) if e.op == 'extractvalue' and e.x.get('evi') == [1]]
                site = ('%s:%s:%s' % (label or fn.name, ins.srcfn, 'checked-' + ('mul' if 'umul' in c.callee else 'add'))).replace(' ', '')
                ok = any(pv.prove_at(('eq', fl.ref, '#0'), sink) for fl in flags)
                if ok:
                    rule.ok(site, 'overflow flag of the checked builtin is false on every path to the sink', ins.loc())
                else:
                    rule.violation(site, 'the result of %s reaches %s without its overflow flag having been tested: the wrapped value is used as a size'
                                   % (c.callee.split('.')[1], kind), ins.loc(), {})
                continue
            if ins.op not in ARITH or ins.ref not in tnt:
                continue
            if (ins.x.get('bits') or 64) != 64 or ins.x.get('nsw'):
                continue
            if ins.op == 'sub' and not (kind.startswith('operand of the branch') and sub_in_compare and ins.ref == opnd):
                continue
            if ins.id in done:
                continue
            why = exempt(ins) if exempt else None
            if why:
                done[ins.id] = 'PASS'
                n += 1
                rule.ok(('%s:%s:%s' % (label or fn.name, ins.srcfn, describe(fn, ins.ref))).replace(' ', ''), 'exempt: ' + why, ins.loc())
                continue
            verdict, text = check_op(fn, pv, ins)
            if verdict != 'PASS':
                # compute-then-check: the operation may wrap as long as every use as a size / length is only reached
                # once a check has established that it did not -- prove the same goal at each sink it reaches
                sinks_of = [(s2, k2) for (s2, o2, k2) in all_sinks if ins.id in {x.id for x in backward_slice(fn, o2).values()}]
                if sinks_of and all(fn.dominates(ins, s2) and check_op(fn, pv, ins, at=s2)[0] == 'PASS' for s2, _ in sinks_of):
                    verdict, text = 'PASS', check_op(fn, pv, ins, at=sinks_of[0][0])[1] + ' (established before every use: compute-then-check)'
            done[ins.id] = verdict
            n += 1
            site = ('%s:%s:%s' % (label or fn.name, ins.srcfn, describe(fn, ins.ref))).replace(' ', '')
            msg = '%s [%s; reaches: %s at %s]' % (text, ins.op, kind, sink.loc())
            if verdict == 'PASS':
                rule.ok(site, msg, ins.loc())
            elif verdict == 'VIOLATION':
                rule.violation(site, msg, ins.loc(), {'entry': fn.name, 'op': repr(ins), 'sink': repr(sink)})
            else:
                # a guard exists, the goal is neither derived nor refuted by a concrete input: no verdict either way
                rule.ok(site, 'NOT DECIDED: ' + msg, ins.loc())
    return n
