"""Roles and value classes of the incrementally rehashed hash table, discovered by effect
(never by the name of a static helper; only public API names and public struct fields are keyed on).

roles (functions of the un-inlined hash unit)
  checked lookup   calls through a hash-function pointer and indexes bucket.at with the result
  cleaner          reads or writes a bucket's `cst` through a bucket pointer it received AND re-links
                   nodes through the checked lookup
  sweep            advances bucket.rh.clean (stores rh.clean + 1)
  pending-aware lookup   calls the checked lookup with both (bucket.hash, bucket.count) and
                   (rh.hash, rh.count)
  completer        the public cstl_hash_rehash
  walkers          functions with a loop that subscripts bucket.at by an induction variable
value classes
  PA-eff(field)    effective geometry: load rh.<field> on every path with rh.hash != NULL and
                   load bucket.<field> on every path with rh.hash == NULL
  PA-cover         a bucket bound covering both geometries: rh.count where (pending and rh.count > count),
                   bucket.count elsewhere
"""
from .facts import Prover, FactCache, _k, strip_bitcasts
from .ir import resolve_addr, const_int, unit_step

HASH_FTY = 'i64 (i64, i64)'


def fld(f, ins):
    """field path ('bucket.count', 'bucket.rh.hash', ...) of a load/store on a struct cstl_hash object, else None"""
    if ins is None:
        return None
    if ins.op == 'load':
        a = resolve_addr(f, ins.o[0])
    elif ins.op == 'store':
        a = resolve_addr(f, ins.o[1])
    else:
        return None
    if a.fsteps and a.fsteps[0][0] == 'cstl_hash':
        return a.path
    return None


def is_load_of(f, ref, path):
    i = f.get(ref) if isinstance(ref, str) else None
    return i is not None and i.op == 'load' and fld(f, i) == path


def same_value_loads(f, x, y):
    """two loads of the same location with no store to that field and no call in between (either order)"""
    if x == y:
        return True
    a, b = (f.get(x) if isinstance(x, str) else None), (f.get(y) if isinstance(y, str) else None)
    if a is None or b is None or a.op != 'load' or b.op != 'load':
        return False
    ka, kb = resolve_addr(f, a.o[0]), resolve_addr(f, b.o[0])
    if ka.key() != kb.key() or not ka.steps:
        return False
    for first, second in ((a, b), (b, a)):
        if first.block is second.block and first.pos >= second.pos:
            continue
        # the value of `first` is that of its latest execution: every path from there to `second` is a segment
        # that does not re-enter first's block (a loop's back edge re-executes `first`)
        if first.block is second.block:
            seg = [i for i in first.block.insts if first.pos < i.pos < second.pos]
        else:
            mid, again = f.threaded_paths(first.block, second.block)
            if mid is None:
                continue
            seg = [i for i in first.block.insts if i.pos > first.pos]
            seg += list(second.block.insts) if again else [i for i in second.block.insts if i.pos < second.pos]
            for bl in mid:
                seg += list(bl.insts)
        if True:
            if not any((i.op == 'store' and resolve_addr(f, i.o[1]).steps == ka.steps)
                       or (i.op == 'call' and not i.is_intrinsic() and not i.x.get('noreturn')) for i in seg):
                return True
    return False


def may_store(module, g, path, seen=None):
    seen = seen if seen is not None else set()
    if g is None or g.decl or g.name in seen:
        return False
    seen.add(g.name)
    for i in g.all_insts():
        if i.op == 'store' and fld(g, i) == path:
            return True
        if i.op == 'call' and i.callee and not i.is_intrinsic() and may_store(module, module.fn(i.callee), path, seen):
            return True
    return False


def writer_between(f, ld, st, path):
    """a call that may store `path` lying on a path from the load to the store"""
    for c in f.all_insts():
        if c.op != 'call' or not c.callee or c.is_intrinsic():
            continue
        if not may_store(f.module, f.module.fn(c.callee), path):
            continue
        after_load = (c.block is ld.block and c.pos > ld.pos) or (c.block is not ld.block and c.block in f.reachable_from(ld.block))
        before_store = (c.block is st.block and c.pos < st.pos) or (c.block is not st.block and st.block in f.reachable_from(c.block))
        if after_load and before_store:
            return c
    return None


def reaching_store_value(f, ld, pred=None):
    """the value last stored into the location `ld` reads, on every path that ends in ld (entering ld's block through `pred`
    when given): found by walking backwards until a store to the same location; a call that may write memory or paths
    that disagree give None"""
    key = resolve_addr(f, ld.o[0])
    if not key.steps:
        return None

    def scan(block, upto, seen):
        insts = [i for i in block.insts if upto is None or i.pos < upto]
        for i in reversed(insts):
            if i.op == 'store':
                a = resolve_addr(f, i.o[1])
                if a.key() == key.key():
                    return strip_bitcasts(f, i.o[0]) if isinstance(i.o[0], str) else i.o[0]
                if a.steps == key.steps:
                    return None              # same field of possibly another object
            if i.op == 'call' and not i.is_intrinsic() and not i.x.get('noreturn'):
                return None
        if block.idx in seen or not block.pred:
            return None
        vals = {scan(p, None, seen | {block.idx}) for p in block.pred}
        return vals.pop() if len(vals) == 1 else None
    if pred is None:
        return scan(ld.block, ld.pos, frozenset())
    # instructions of ld's own block before ld, then the chosen predecessor
    for i in reversed([x for x in ld.block.insts if x.pos < ld.pos]):
        if i.op == 'store' and resolve_addr(f, i.o[1]).key() == key.key():
            return strip_bitcasts(f, i.o[0]) if isinstance(i.o[0], str) else i.o[0]
        if (i.op == 'store' and resolve_addr(f, i.o[1]).steps == key.steps) or (i.op == 'call' and not i.is_intrinsic() and not i.x.get('noreturn')):
            return None
    return scan(pred, None, frozenset({ld.block.idx}))


def hash_calls(f):
    return [i for i in f.all_insts() if i.op == 'call' and i.callee is None and i.x.get('fty') == HASH_FTY]


def at_subscripts(f):
    """GEPs that index the bucket array: (gep, index ref)"""
    out = []
    for g in f.all_insts():
        if g.op != 'getelementptr':
            continue
        path = g.x.get('path', [])
        if not path or 'idx' not in path[0]:
            continue
        base = f.get(g.o[0])
        if base is not None and base.op == 'load' and fld(f, base) == 'bucket.at':
            out.append((g, path[0]['idx']))
    return out


def _touches_chain(f, gep):
    """is the bucket addressed by `gep` used for more than reading / initialising its bookkeeping: its chain head is
    loaded, or the bucket is handed to a callee.  A loop that only compares clean bits (the sweep skipping clean
    buckets) or only initialises added buckets (n := NULL, cst := x) visits no element."""
    work = [gep.ref]
    seen = set()
    while work:
        r = work.pop()
        if r in seen:
            continue
        seen.add(r)
        for u in f.users(r):
            if u.op in ('getelementptr', 'bitcast'):
                work.append(u.ref)
            elif u.op == 'load':
                a = resolve_addr(f, u.o[0])
                if a.fsteps[-1:] != (('cstl_hash_bucket', 'cst'),):
                    return True
            elif u.op == 'store':
                if u.o[0] == r:
                    return True            # the bucket address itself escapes
            elif u.op == 'call':
                return True
            elif u.op in ('phi', 'select', 'ptrtoint'):
                return True
    return False


class Roles:
    def __init__(self, m):
        self.m = m
        mod = m.plain.get('hash')
        self.unit = mod
        self.checked = []
        self.cleaner = []
        self.sweep = []
        self.pa_lookup = []
        self.walkers = []
        if mod is None:
            return
        fns = mod.defined()
        for f in fns:
            hc = hash_calls(f)
            if hc and any(idx == c.ref for c in hc for _, idx in at_subscripts(f)):
                self.checked.append(f)
            elif hc and any(r.o and strip_bitcasts(f, r.o[0]) in {c.ref for c in hc} for r in f.returns()):
                self.checked.append(f)        # returns the (range-checked) index instead of the bucket
        cnames = {f.name for f in self.checked}
        cg = callgraph(mod)
        for f in fns:
            calls_checked = [c for c in f.all_insts() if c.op == 'call' and c.callee in cnames]
            # ... or reaches it through private helpers / a visitor whose address it hands to a traversal helper
            reaches_checked = bool(calls_checked) or bool((reach(cg, f.name) - {f.name}) & cnames)
            # stores `cst` of a bucket reached through a pointer parameter
            st_cst = []
            for s in f.all_insts():
                if s.op in ('store', 'load'):
                    a = resolve_addr(f, s.o[1] if s.op == 'store' else s.o[0])
                    if a.fsteps[-1:] == (('cstl_hash_bucket', 'cst'),) and isinstance(a.root, str) and a.root.startswith('$'):
                        st_cst.append(s)
            if st_cst and reaches_checked and f not in self.checked:
                self.cleaner.append(f)
            for s in f.all_insts():
                if s.op == 'store' and fld(f, s) == 'bucket.rh.clean':
                    base, step = unit_step(f, s.o[0])
                    if step == 1 and is_load_of(f, base, 'bucket.rh.clean'):
                        if f not in self.sweep:
                            self.sweep.append(f)
            if self._both_geometries(f, cnames):
                self.pa_lookup.append(f)
            # walkers: subscript by an induction variable (phi), not by a hash result / loaded sweep index
            for g, idx in at_subscripts(f):
                i = f.get(idx)
                while i is not None and i.op in ('zext', 'sext', 'trunc'):
                    i = f.get(i.o[0])
                if i is not None and i.op == 'phi' and f not in self.walkers and f.name != 'cstl_hash_resize' and _touches_chain(f, g):
                    self.walkers.append(f)

        if not self.pa_lookup and self.checked:
            # the pending half of the lookup may live in a private helper of its own: a function that itself hashes
            # the key under one geometry and reaches the other through helpers that carry no role
            stop = cnames | set(self.names('cleaner')) | set(self.names('sweep'))
            direct = {f.name: self._geometries(f, cnames) for f in fns}
            for f in fns:
                if not direct[f.name] or f.name in stop:
                    continue
                seen, todo, geos = {f.name}, [f.name], set()
                while todo:
                    n = todo.pop()
                    geos |= direct.get(n, set())
                    for g in cg.get(n, ()):
                        if g not in seen and g not in stop and g in direct:
                            seen.add(g)
                            todo.append(g)
                if self._GEOS <= geos:
                    self.pa_lookup.append(f)

    _GEOS = {('bucket.hash', 'bucket.count'), ('bucket.rh.hash', 'bucket.rh.count')}

    @staticmethod
    def _geometries(f, cnames):
        geos = set()
        for c in f.all_insts():
            if c.op != 'call' or c.callee not in cnames:
                continue
            # the (function, count) pair handed over, wherever it sits in the argument list
            hs = [fld(f, f.get(o)) for o in c.o if isinstance(o, str) and fld(f, f.get(o)) in ('bucket.hash', 'bucket.rh.hash')]
            ns = [fld(f, f.get(o)) for o in c.o if isinstance(o, str) and fld(f, f.get(o)) in ('bucket.count', 'bucket.rh.count')]
            if len(hs) == 1 and len(ns) == 1:
                geos.add((hs[0], ns[0]))
        return geos

    @classmethod
    def _both_geometries(cls, f, cnames):
        return cls._GEOS <= cls._geometries(f, cnames)

    def names(self, role):
        return [f.name for f in getattr(self, role)]


def focus_hash(m):
    """hash.c with every private helper that carries no role inlined into its callers (model.focus): the lookup,
    cleaner, sweep, walkers and the capacity setter stay callable functions, everything else is implementation detail"""
    roles = Roles(m)
    keep = set()
    for r in ('checked', 'cleaner', 'sweep', 'pa_lookup', 'walkers'):
        keep |= set(roles.names(r))
    mod = m.plain.get('hash')
    for g in (mod.defined() if mod is not None else []):
        if any(c.op == 'call' and c.callee == 'realloc' for c in g.all_insts()):
            keep.add(g.name)
    return m.focus('hash', keep)


def callgraph(mod):
    g = {}
    for f in mod.defined():
        s = set()
        for c in f.all_insts():
            if c.op == 'call' and c.callee and mod.fn(c.callee) is not None and not mod.fn(c.callee).decl:
                s.add(c.callee)
            # functions whose address is passed (visit adapters)
            if c.op == 'call':
                for o in c.o:
                    if isinstance(o, str) and o.startswith('@') and mod.fn(o[1:]) is not None and not mod.fn(o[1:]).decl:
                        s.add(o[1:])
        g[f.name] = s
    return g


def reach(g, start):
    seen = set()
    st = [start]
    while st:
        n = st.pop()
        if n in seen:
            continue
        seen.add(n)
        st.extend(g.get(n, ()))
    return seen


# ---- pending-aware value classes ------------------------------------------------------------

def _pending_facts(f, facts):
    """(pending known True/False/None, atoms)"""
    pend = None
    for (op, x, y) in facts:
        if y == 'null' and is_load_of(f, x, 'bucket.rh.hash'):
            if op == 'ne':
                pend = True
            elif op == 'eq':
                pend = False
        if x == 'null' and is_load_of(f, y, 'bucket.rh.hash'):
            if op == 'ne':
                pend = True
            elif op == 'eq':
                pend = False
    return pend


def _infeasible(f, facts):
    """a fact set that cannot hold: x < x, x == y and x != y, pending and not pending"""
    fs = set(facts)
    pend = set()
    for (op, x, y) in fs:
        if op == 'ult' and (x == y or same_value_loads(f, x, y)):
            return True
        if op == 'eq' and (('ne', x, y) in fs or ('ne', y, x) in fs or ('ult', x, y) in fs or ('ult', y, x) in fs):
            return True
        if op == 'ule' and (('ult', y, x) in fs):
            return True
        if y == 'null' and is_load_of(f, x, 'bucket.rh.hash') and op in ('eq', 'ne'):
            pend.add(op)
    return pend == {'eq', 'ne'}


def classify_pa(f, ref, at_ins, field, cover=False, completer_dominates=None):
    """Is `ref` (used at `at_ins`) a pending-aware read of bucket.<field> / rh.<field>?
    returns (ok, explanation).  cover=True asks for PA-cover (max of both counts) instead of PA-eff."""
    fc = FactCache(f)
    pv = Prover(f)
    cur = 'bucket.' + field
    pen = 'bucket.rh.' + field
    ref = strip_bitcasts(f, ref)
    ins = f.get(ref) if isinstance(ref, str) else None

    def leaf_ok(v, facts, where, depth=0):
        # first as is; otherwise split on a phi that the value or the facts mention (a helper's merged result, a cached
        # "target" geometry): each alternative with the facts of its own edge, infeasible combinations dropped
        ok, w = _leaf_ok1(v, facts, where)
        if ok or depth >= 3:
            return ok, w
        cands = []
        core = f.get(v) if isinstance(v, str) else None
        while core is not None and core.op in ('zext', 'trunc', 'bitcast'):
            core = f.get(core.o[0]) if isinstance(core.o[0], str) else None
        if core is not None and core.op == 'phi':
            cands.append(core)
        for (op, x, y) in facts:
            for r in (x, y):
                ri = f.get(r) if isinstance(r, str) else None
                if ri is not None and ri.op == 'phi' and ri.ty == 'i64' and ri not in cands:
                    cands.append(ri)
        for P in cands[:2]:
            results = []
            for pv_, bb_ in zip(P.o, P.x['bb']):
                sub = _k(strip_bitcasts(f, pv_)) if isinstance(pv_, str) else pv_
                fs = set()
                for (op, x, y) in facts:
                    fs.add((op, sub if x == P.ref else x, sub if y == P.ref else y))
                fs |= set(fc.edge_facts(f.bb[bb_], P.block))
                if _infeasible(f, fs):
                    continue
                v2 = sub if (core is P) else v
                results.append(leaf_ok(v2, frozenset(fs), where + ' / %s=%s' % (P.ref, sub), depth + 1))
            if results and all(o for o, _ in results):
                return True, results[0][1]
        return ok, w

    def _leaf_ok1(v, facts, where, path=None):
        vi = f.get(v) if isinstance(v, str) else None
        vi0 = vi
        while vi is not None and vi.op in ('zext', 'trunc', 'bitcast'):
            vi = f.get(vi.o[0])
        p = path if path is not None else (fld(f, vi) if vi is not None else None)
        pend = _pending_facts(f, facts)
        if p == cur:
            if completer_dominates is not None and completer_dominates(vi):
                return True, 'current %s read after the forced rehash' % field
            if pend is False:
                return True, 'current %s on the not-pending path' % field
            if cover:
                # bucket.count is a cover when rh.count <= count is known
                for (op, x, y) in facts:
                    if op in ('ule', 'ult') and is_load_of(f, x, pen) and same_value_loads(f, y, vi.ref):
                        return True, 'current count where rh.count <= count'
            return False, 'reads the current %s (%s) on a path where a rehash may be pending (%s)' % (field, cur, where)
        if p == pen:
            if pend is True:
                if not cover:
                    return True, 'pending %s on the pending path' % field
                for (op, x, y) in facts:
                    if op in ('ult', 'ule') and is_load_of(f, x, cur) and same_value_loads(f, y, vi.ref):
                        return True, 'pending count where it is the larger one'
                return False, 'uses the pending count as a bound without knowing it is the larger one (%s)' % where
            return False, 'reads the pending %s on a path where no rehash is known to be pending (%s)' % (field, where)
        return False, 'value is not a read of %s or %s (%s)' % (cur, pen, where)

    # one load through a pointer that was chosen between the two count / function fields
    core = ins
    while core is not None and core.op in ('zext', 'trunc', 'bitcast'):
        core = f.get(core.o[0]) if isinstance(core.o[0], str) else None
    ai = f.get(strip_bitcasts(f, core.o[0])) if (core is not None and core.op == 'load' and isinstance(core.o[0], str)) else None
    if ai is not None and ai.op in ('phi', 'select'):
        from .facts import cond_atoms

        def addr_path(a):
            ra = resolve_addr(f, a) if isinstance(a, str) else None
            return ra.path if (ra is not None and ra.fsteps and ra.fsteps[0][0] == 'cstl_hash') else None
        alts = []
        if ai.op == 'phi':
            for v, bb in zip(ai.o, ai.x['bb']):
                alts.append((v, fc.edge_facts(f.bb[bb], ai.block), 'edge %s->%s' % (bb, ai.block.name)))
        else:
            base = set(fc.block_facts(ai.block))
            alts.append((ai.o[1], frozenset(base | set(cond_atoms(f, ai.o[0], True)[0])), 'select true arm'))
            alts.append((ai.o[2], frozenset(base | set(cond_atoms(f, ai.o[0], False)[0])), 'select false arm'))
        why = []
        for v, facts, where in alts:
            pth = addr_path(v)
            if pth is None:
                return False, 'the field read is chosen through a pointer that is not a field of the table (%s)' % where
            ok, w = _leaf_ok1(core.ref, facts, where, path=pth)
            if not ok:
                return False, w
            why.append(w)
        if not any(s_.op == 'store' and fld(f, s_) in (cur, pen) for s_ in f.all_insts()):
            return True, '; '.join(why)
        return False, 'the field is read through a chosen pointer in a function that also writes it'

    if ins is not None and ins.op == 'phi':
        why = []
        from .facts import edge_atoms
        for v, bb in zip(ins.o, ins.x['bb']):
            pb = f.bb[bb]
            facts = fc.edge_facts(pb, ins.block)
            vi = f.get(v) if isinstance(v, str) else None
            if vi is not None and vi.op == 'phi':
                ok, w = leaf_ok(_k(v), facts, 'edge %s->%s' % (bb, ins.block.name))
                if not ok:
                    ok, w = classify_pa(f, v, vi, field, cover, completer_dominates)
            else:
                ok, w = leaf_ok(_k(v), facts, 'edge %s->%s' % (bb, ins.block.name))
                if not ok and len(pb.pred) > 1:
                    # the incoming block is itself a join: decide separately along each way into it
                    atoms, _ = edge_atoms(f, pb, ins.block)
                    oks = []
                    for pp in pb.pred:
                        fs = frozenset(set(fc.edge_facts(pp, pb)) | set(atoms))
                        oks.append(leaf_ok(_k(v), fs, 'path %s->%s->%s' % (pp.name, bb, ins.block.name)))
                    if all(o for o, _ in oks):
                        ok, w = True, oks[0][1]
                    else:
                        w = [x for o, x in oks if not o][0]
            if not ok:
                return False, w
            why.append(w)
        return True, '; '.join(why)
    if ins is not None and ins.op == 'select':
        # select(cond, a, b): facts of cond for each arm
        from .facts import cond_atoms
        base = set(fc.block_facts(ins.block))
        a1, _ = cond_atoms(f, ins.o[0], True)
        a0, _ = cond_atoms(f, ins.o[0], False)
        ok1, w1 = leaf_ok(_k(ins.o[1]), frozenset(base | set(a1)), 'select true arm')
        ok0, w0 = leaf_ok(_k(ins.o[2]), frozenset(base | set(a0)), 'select false arm')
        return (ok1 and ok0), (w1 + '; ' + w0)
    facts = fc.block_facts(at_ins.block)
    return leaf_ok(ref, facts, 'at %s' % at_ins.loc())
