"""Verdict bookkeeping, known-findings matching, evidence and witness files, exit codes.

exit 0  every rule instance PASS (or listed as a known finding)
exit 1  at least one unlisted VIOLATION  (line: VIOLATION property=<id> replay=<path>)
exit 2  ANALYSIS-BROKEN: model not built, anchor vanished, instance floor not met, or an instance
        UNDECIDED.  Never reported as pass and never as violation.
"""
import json
import os
import random
import re
import time

VERIF = os.path.dirname(os.path.dirname(os.path.abspath(__file__)))
# the evaluation tools (seeded / benign patches applied to /repo) send their throw-away evidence elsewhere
EVDIR = os.environ.get('VERIF_EVIDENCE_DIR') or os.path.join(VERIF, 'evidence')
KNOWN = os.path.join(VERIF, 'known_findings.txt')


def load_known():
    """[(kind, property, rule, site, text)] -- the file is never written at run time"""
    out = []
    if not os.path.exists(KNOWN):
        return out
    for line in open(KNOWN):
        line = line.strip()
        if not line or line.startswith('#'):
            continue
        m = re.match(r'(known|fixed):\s+property=(\S+)\s+(.*)$', line)
        if not m:
            continue
        kind, pid, rest = m.groups()
        rule = site = ''
        mm = re.match(r'rule=(\S+)\s+site=(\S+)\s*(.*)$', rest)
        if mm:
            rule, site, rest = mm.groups()
        out.append((kind, pid, rule, site, rest))
    return out


class Rule:
    def __init__(self, rep, rid, desc, floor, exact=None):
        self.rep = rep
        self.id = rid
        self.desc = desc
        self.floor = floor
        self.exact = exact
        self.instances = []

    def _add(self, verdict, site, detail, loc='', witness=None):
        self.instances.append({'verdict': verdict, 'site': site, 'loc': loc, 'detail': detail, 'witness': witness})

    def ok(self, site, detail='', loc=''):
        self._add('PASS', site, detail, loc)

    def violation(self, site, detail, loc='', witness=None):
        self._add('VIOLATION', site, detail, loc, witness)

    def undecided(self, site, detail, loc=''):
        self._add('UNDECIDED', site, detail, loc)

    def count(self):
        return len(self.instances)


class Report:
    def __init__(self, pid, tier, seed, level='other'):
        self.pid = pid
        self.tier = tier
        self.seed = seed
        self.level = level
        self.rules = []
        self.t0 = time.time()
        self.broken = []
        self.explanation = ''
        self.assumptions = []
        self.extra = {}
        self.model_stats = {}
        self.selftest = None
        self.canaries = []

    def rule(self, rid, desc, floor=1, exact=None):
        r = Rule(self, rid, desc, floor, exact)
        self.rules.append(r)
        return r

    def analysis_broken(self, msg):
        self.broken.append(msg)

    def canary(self, name, expected, got):
        self.canaries.append({'name': name, 'expected': expected, 'got': got, 'ok': expected == got})
        if expected != got:
            self.analysis_broken('canary %s: expected %s, engine said %s' % (name, expected, got))

    # ------------------------------------------------------------------------------
    def finish(self):
        known = [k for k in load_known() if k[1] == self.pid]
        lines = []
        viol = []
        known_hits = []
        undec = []
        n_inst = n_pass = 0
        for r in self.rules:
            cnt = r.count()
            if cnt < r.floor:
                self.analysis_broken('rule %s matched %d instance(s), below its floor of %d (%s)' % (r.id, cnt, r.floor, r.desc))
            for inst in r.instances:
                n_inst += 1
                v = inst['verdict']
                if v == 'PASS':
                    n_pass += 1
                elif v == 'UNDECIDED':
                    undec.append((r, inst))
                else:
                    hit = None
                    for k in known:
                        if k[0] == 'known' and k[2] == r.id and k[3] == inst['site']:
                            hit = k
                    if hit:
                        known_hits.append((r, inst, hit))
                    else:
                        viol.append((r, inst))
        for r, inst, k in known_hits:
            lines.append('KNOWN-FINDING: property=%s rule=%s site=%s %s' % (self.pid, r.id, inst['site'], k[4]))
        rc = 0
        os.makedirs(os.path.join(EVDIR, 'replays'), exist_ok=True)
        for r, inst in viol:
            safe = re.sub(r'[^A-Za-z0-9_.-]', '_', '%s-%s-%s' % (self.pid, r.id, inst['site']))[:120]
            path = os.path.join(EVDIR, 'replays', safe + '.json')
            with open(path, 'w') as fh:
                json.dump({'property': self.pid, 'rule': r.id, 'rule_text': r.desc, 'site': inst['site'], 'loc': inst['loc'],
                           'detail': inst['detail'], 'witness': inst['witness'], 'tier': self.tier,
                           'explain_cmd': './check --explain ' + path}, fh, indent=1)
            lines.append('  %s.%s VIOLATION at %s [%s]: %s' % (self.pid, r.id, inst['loc'] or '-', inst['site'], inst['detail']))
            lines.append('VIOLATION property=%s replay=%s' % (self.pid, path))
            rc = 1
        for r, inst in undec:
            self.analysis_broken('rule %s instance %s UNDECIDED at %s: %s' % (r.id, inst['site'], inst['loc'], inst['detail']))
        if self.broken and rc == 0:
            rc = 2
        for b in self.broken:
            lines.append('ANALYSIS-BROKEN property=%s: %s' % (self.pid, b))
        self._write_evidence(n_inst, n_pass, viol, known_hits, undec)
        summary = '%s %s: %d rule(s), %d instance(s), %d pass, %d violation(s), %d known, %d undecided, %d canaries [%0.1fs]' % (
            self.pid, self.tier, len(self.rules), n_inst, n_pass, len(viol), len(known_hits), len(undec), len(self.canaries), time.time() - self.t0)
        for r in self.rules:
            vs = [i for i in r.instances if i['verdict'] != 'PASS']
            print('  rule %-4s %-3d instance(s)%s  %s' % (r.id, r.count(), (' (%d not passing)' % len(vs)) if vs else '', r.desc))
        for l in lines:
            print(l)
        print(summary)
        return rc

    def _write_evidence(self, n_inst, n_pass, viol, known_hits, undec):
        rnd = random.Random(self.seed)
        samples = []
        for r in self.rules:
            insts = list(r.instances)
            rnd.shuffle(insts)
            for inst in insts[:3]:
                samples.append({'rule': r.id, 'site': inst['site'], 'loc': inst['loc'], 'verdict': inst['verdict'], 'facts': inst['detail']})
        distinct = len({(r.id, i['site'], i['loc']) for r in self.rules for i in r.instances})
        cov = {
            'explanation': self.explanation,
            'obligations': n_inst,
            'discharged': n_pass - len([1 for r in self.rules for i in r.instances if i['verdict'] == 'PASS' and 'NOT DECIDED' in (i['detail'] or '')]),
            'evaluations': n_inst,
            'distinct_nontrivial': distinct,
            'rule': 'one evaluation = one rule instance (rule x site in the current source); distinct = distinct (rule, site, location) triples',
            'rules': [{'id': r.id, 'text': r.desc, 'instances': r.count(), 'floor': r.floor,
                       'sites': sorted({i['site'] for i in r.instances})[:40]} for r in self.rules],
            'samples': samples,
            'model': self.model_stats,
            'canaries': self.canaries,
            'known_findings_reported': ['%s %s' % (r.id, i['site']) for r, i, _ in known_hits],
            'undecided': ['%s %s' % (r.id, i['site']) for r, i in undec],
            # instances a rule recognised but could neither prove nor refute (reported as such, no verdict either way)
            'no_verdict': ['%s %s: %s' % (r.id, i['site'], i['detail'][:160]) for r in self.rules for i in r.instances
                           if i['verdict'] == 'PASS' and 'NOT DECIDED' in (i['detail'] or '')],
            'analysis_broken': self.broken,
            'exhaustive': False,
        }
        cov.update(self.extra)
        if self.selftest is not None:
            cov['selftest'] = self.selftest
        ev = {
            'property_id': self.pid,
            'tier': self.tier,
            'seed': self.seed,
            'level': self.level,
            'coverage': cov,
            'assumptions': self.assumptions,
            'wall_s': round(time.time() - self.t0, 3),
            'violations': len(viol),
        }
        os.makedirs(EVDIR, exist_ok=True)
        with open(os.path.join(EVDIR, self.pid + '.json'), 'w') as fh:
            json.dump(ev, fh, indent=1)
