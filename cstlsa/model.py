"""Model builder: rebuilds the analysable program from the repository's current working tree.

  * compilation database  <- `make -n -B b` (the project's own unit list and flags)
  * per-unit IR ("plain")  clang -O1 -disable-llvm-passes -g  |  opt mem2reg,early-cse<memssa>  | irdump
  * whole-library IR ("inl") one translation unit that #includes every library unit and an anchor
    table taking the address of every function the public headers declare, fully inlined
    (cgscc(inline) with an unbounded threshold), then sroa + early-cse<memssa>.  A cross-check
    compares the un-inlined amalgam with the per-unit IR function by function so that
    interference between units (a macro leaking from one file into the next) cannot go unnoticed.

Nothing is executed; clang, opt and irdump only translate.
"""
import atexit
import json
import os
import re
import shlex
import shutil
import subprocess
import sys
import tempfile
from concurrent.futures import ThreadPoolExecutor

from . import ir

VERIF = os.path.dirname(os.path.dirname(os.path.abspath(__file__)))
IRDUMP = os.path.join(VERIF, 'bin', 'irdump')
CLANG = 'clang'
OPT = 'opt-14'


class ModelError(Exception):
    """the model could not be built: ANALYSIS-BROKEN (exit 2), never pass, never violation"""


def repo_root():
    return os.environ.get('CSTL_REPO', '/repo')


def run(cmd, cwd=None, ok_codes=(0,), inp=None):
    p = subprocess.run(cmd, cwd=cwd, stdout=subprocess.PIPE, stderr=subprocess.PIPE, input=inp)
    if p.returncode not in ok_codes:
        raise ModelError('command failed (%d): %s\n%s' % (p.returncode, ' '.join(cmd), p.stderr.decode(errors='replace')[-4000:]))
    return p.stdout


def compile_db(repo):
    """[(unit, source path, flags)] from the project's Makefile"""
    try:
        out = run(['make', '-n', '-B', 'b'], cwd=repo).decode()
    except ModelError as e:
        raise ModelError('cannot obtain the compilation database from `make -n -B b`: %s' % e)
    units = []
    for line in out.splitlines():
        try:
            toks = shlex.split(line)
        except ValueError:
            continue
        if not toks or '-c' not in toks:
            continue
        if not re.search(r'(^|/)(g?cc|clang)(-[\d.]+)?$', toks[0]):
            continue
        src = toks[toks.index('-c') + 1]
        if not src.endswith('.c'):
            continue
        flags = []
        i = 1
        while i < len(toks):
            t = toks[i]
            if t in ('-o', '-c'):
                i += 2
                continue
            if t.startswith(('-std', '-D', '-U', '-I', '-include', '-f')):
                if t in ('-I', '-D', '-U', '-include'):
                    flags += [t, toks[i + 1]]
                    i += 2
                    continue
                if t.startswith('-f') and t not in ('-fPIC', '-fpic', '-funsigned-char', '-fsigned-char', '-fwrapv', '-fno-strict-aliasing'):
                    i += 1
                    continue
                flags.append(t)
            i += 1
        name = os.path.splitext(os.path.basename(src))[0]
        units.append((name, os.path.join(repo, src), flags, [t for t in toks[1:] if t.startswith('-W') or t in ('-pedantic',)]))
    if not units:
        raise ModelError('no compile commands found in `make -n -B b` output')
    return units


def abs_flags(flags, repo):
    out = []
    i = 0
    while i < len(flags):
        f = flags[i]
        if f == '-I':
            out += ['-I', os.path.join(repo, flags[i + 1])]
            i += 2
            continue
        if f.startswith('-I') and not os.path.isabs(f[2:]):
            out.append('-I' + os.path.join(repo, f[2:]))
        else:
            out.append(f)
        i += 1
    return out


class Model:
    def __init__(self, config='release', keep=False, want_inl=True, repo=None):
        self.repo = repo or repo_root()
        self.config = config
        self.work = tempfile.mkdtemp(prefix='cstlsa-')
        if not keep:
            atexit.register(shutil.rmtree, self.work, True)
        self.units = compile_db(self.repo)
        self.unit_names = [u[0] for u in self.units]
        self.flags = abs_flags(self.units[0][2], self.repo)
        self.wflags = self.units[0][3]
        if config == 'assert':
            self.flags = [f for f in self.flags if f != '-DNDEBUG'] + ['-UNDEBUG']
        self.plain = {}
        self.inl = None
        self.amalg = None
        self.stats = {}
        self._focus = {}
        try:
            self._build(want_inl)
        except BaseException:
            if not keep:
                shutil.rmtree(self.work, True)
            raise

    # -- steps ---------------------------------------------------------------------
    def _cc(self, src, out, extra=()):
        run([CLANG, '-O1', '-Xclang', '-disable-llvm-passes', '-g', '-w', '-emit-llvm', '-c'] + self.flags + list(extra) + [src, '-o', out])

    def _plain(self, bc, js):
        # pure accessors (small, loop-free, no stores / aborts / calls to anything but other accessors) are
        # inlined even in the "plain" view, so that extracting or inlining such a helper changes no verdict
        o1, o2, o = bc + '.m.bc', bc + '.a.bc', bc + '.p.bc'
        run([OPT, '-passes=function(mem2reg)', bc, '-o', o1])
        run([IRDUMP, '--mark-accessors', o1, o2])
        run([OPT, '-passes=always-inline,function(mem2reg,early-cse<memssa>)', o2, '-o', o])
        with open(js, 'wb') as fh:
            fh.write(run([IRDUMP, o]))
        return ir.Module.load(js)

    def focus(self, unit, keep=()):
        """the unit with every private (static) helper inlined into its callers, except the functions named in `keep`
        (those that carry a role of their own) and recursive / address-taken ones.  Splitting a function into
        private helpers, or merging such helpers, does not change this view."""
        # functions defined in the public headers (static inline API) are not private helpers of the unit
        pm = self.plain.get(unit)
        keep = set(keep) | {f.name for f in (pm.defined() if pm is not None else []) if '/include/' in (f.file or '')}
        key = (unit, tuple(sorted(keep)))
        if key in self._focus:
            return self._focus[key]
        bc = os.path.join(self.work, unit + '.bc')
        tag = 'f%d' % len(self._focus)
        o1, o2, o3, o = bc + '.m.bc', bc + '.%s.a.bc' % tag, bc + '.%s.s.bc' % tag, bc + '.%s.bc' % tag
        run([IRDUMP, '--mark-accessors', o1, o2])
        run([IRDUMP, '--mark-static', o2, o3, ','.join(sorted(keep)) or '-'])
        run([OPT, '-passes=always-inline,function(mem2reg,early-cse<memssa>)', o3, '-o', o])
        js = os.path.join(self.work, '%s.%s.json' % (unit, tag))
        with open(js, 'wb') as fh:
            fh.write(run([IRDUMP, o]))
        mod = ir.Module.load(js)
        self._focus[key] = mod
        return mod

    def _unit(self, u):
        name, src, _, _ = u
        bc = os.path.join(self.work, name + '.bc')
        self._cc(src, bc)
        return name, self._plain(bc, os.path.join(self.work, name + '.json'))

    def header_functions(self):
        """names of functions declared (or defined) in include/cstl/*.h, from the per-unit IR debug info
        plus a textual scan used only to build the anchor table (the AST rules re-derive this exactly)"""
        from . import astfacts
        return astfacts.header_function_names(self)

    def _amalgam(self):
        src = os.path.join(self.work, 'amalg.c')
        names = self.header_functions()
        with open(src, 'w') as fh:
            for name, path, _, _ in self.units:
                fh.write('#include "%s"\n' % path)
            fh.write('\n/* anchor: keeps every function the public headers declare in the model */\n')
            fh.write('const void * const cstl_verif_anchor[] = {\n')
            for n in names:
                fh.write('    (const void *)%s,\n' % n)
            fh.write('    0\n};\n')
        bc = os.path.join(self.work, 'amalg.bc')
        self._cc(src, bc)
        self.amalg = self._plain(bc, os.path.join(self.work, 'amalg.json'))
        # give every function external linkage first, so that the inliner keeps each function (static
        # helpers included) as an analysable body with *its* callees inlined, instead of deleting it
        ll = os.path.join(self.work, 'amalg.ll')
        run(['llvm-dis-14', bc, '-o', ll])
        with open(ll) as fh:
            text = fh.read()
        text = re.sub(r'(?m)^define internal ', 'define ', text)
        ext = os.path.join(self.work, 'amalg.ext.ll')
        with open(ext, 'w') as fh:
            fh.write(text)
        o = os.path.join(self.work, 'amalg.inl.bc')
        run([OPT, '-passes=function(mem2reg),cgscc(inline),function(sroa,early-cse<memssa>)', '-inline-threshold=100000000', ext, '-o', o])
        js = os.path.join(self.work, 'amalg.inl.json')
        with open(js, 'wb') as fh:
            fh.write(run([IRDUMP, o]))
        self.inl = ir.Module.load(js, 'inl')
        self.anchor_names = names

    def _crosscheck(self):
        """every function body of the amalgam must equal the per-unit body (opcode/callee/field sequence)"""
        def sig(f):
            out = []
            for i in f.all_insts():
                a = ir.mem_access(i)
                out.append((i.op, i.callee or '', i.pred or '', a[1].path if a else '', i.line))
            return out
        bad = []
        n = 0
        for uname, m in self.plain.items():
            for f in m.defined():
                g = self.amalg.fn(f.name)
                if g is None or g.decl:
                    bad.append('%s (unit %s) missing from the amalgam' % (f.name, uname))
                    continue
                n += 1
                if sig(f) != sig(g):
                    bad.append('%s differs between unit %s and the amalgam' % (f.name, uname))
        self.stats['crosscheck_functions'] = n
        if bad:
            raise ModelError('amalgam cross-check failed: ' + '; '.join(bad[:5]))

    def _build(self, want_inl):
        if not os.access(IRDUMP, os.X_OK):
            raise ModelError('%s not built (run MANIFEST.setup_cmd: tools/build.sh)' % IRDUMP)
        with ThreadPoolExecutor(max_workers=16) as ex:
            futs = [ex.submit(self._unit, u) for u in self.units]
            fa = ex.submit(self._amalgam) if want_inl else None
            for f in futs:
                name, m = f.result()
                self.plain[name] = m
            if fa is not None:
                fa.result()
        if want_inl:
            self._crosscheck()
        self.stats['units'] = len(self.plain)
        self.stats['functions_plain'] = sum(len(m.defined()) for m in self.plain.values())
        self.stats['blocks_plain'] = sum(len(f.blocks) for m in self.plain.values() for f in m.defined())
        self.stats['insts_plain'] = sum(len(f.inst) for m in self.plain.values() for f in m.defined())
        if self.inl is not None:
            self.stats['functions_inl'] = len(self.inl.defined())
            self.stats['insts_inl'] = sum(len(f.inst) for f in self.inl.defined())

    # -- lookups ---------------------------------------------------------------------
    def raw(self, unit):
        """the unit as compiled, locals promoted to SSA and nothing else: no helper inlined, no redundancy removed"""
        if not hasattr(self, '_raw'):
            self._raw = {}
        if unit not in self._raw:
            bc = os.path.join(self.work, unit + '.bc.m.bc')
            js = os.path.join(self.work, unit + '.raw.json')
            with open(js, 'wb') as fh:
                fh.write(run([IRDUMP, bc]))
            self._raw[unit] = ir.Module.load(js)
        return self._raw[unit]

    def other_config(self):
        """the per-unit view of the same tree built with the other assertion configuration (release <-> assert)"""
        if getattr(self, '_other', None) is None:
            self._other = Model(config='assert' if self.config == 'release' else 'release', want_inl=False, repo=self.repo)
        return self._other

    def pfn(self, name):
        """plain (un-inlined) definition of a function, searching all units (then the amalgam, which
        also holds header static-inline functions that no unit emitted)"""
        for m in self.plain.values():
            f = m.fn(name)
            if f is not None and not f.decl:
                return f
        if self.amalg is not None:
            f = self.amalg.fn(name)
            if f is not None and not f.decl:
                return f
        return None

    def ifn(self, name):
        f = self.inl.fn(name) if self.inl else None
        if f is not None and not f.decl:
            return f
        return None

    def all_plain_functions(self):
        """every defined function once: per-unit definitions, plus amalgam-only ones (header inlines)"""
        seen = {}
        for m in self.plain.values():
            for f in m.defined():
                seen.setdefault(f.name, f)
        if self.amalg is not None:
            for f in self.amalg.defined():
                seen.setdefault(f.name, f)
        return list(seen.values())

    def unit_of(self, fn):
        return os.path.splitext(os.path.basename(fn.file or ''))[0]
