"""TS engine: path-sensitive typestate dataflow (property simulation, ESP style).

A dataflow fact is a pair (automaton state, path knowledge).  Path knowledge is
  env   : bindings  phi -> incoming value  for the phis crossed on the way (so that a flag merged by
          a phi keeps its correlation with the branch that set it), and
  known : atoms over SSA values established by the branch edges taken (e.g. data != null).
A branch edge whose condition contradicts the knowledge is infeasible and not followed.  Knowledge
about a value is dropped when its defining instruction executes again (loops), so the analysis is
sound for every number of iterations; equal facts merge; worklist to fixpoint, no unrolling bound.

The rule supplies  transfer(inst, auto_state, ctx) -> auto_state | iterable of auto_states | None
(None = path ends, e.g. noreturn call) and receives exit states at `ret` instructions.
"""
from .facts import cond_atoms, negate, _k, strip_bitcasts, shift_const
from .ir import const_int


class Limit(Exception):
    pass


class PathState:
    __slots__ = ('auto', 'env', 'known')

    def __init__(self, auto, env=frozenset(), known=frozenset()):
        self.auto = auto
        self.env = env
        self.known = known

    def key(self):
        return (self.auto, self.env, self.known)

    def __hash__(self):
        return hash(self.key())

    def __eq__(self, o):
        return self.key() == o.key()

    def lookup(self, ref):
        for k, v in self.env:
            if k == ref:
                return v
        return ref

    def knows(self, atom):
        """True / False / None for an atom under this state's knowledge"""
        op, a, b = atom
        a, b = self.lookup(a), self.lookup(b)
        ca, cb = const_int(a), const_int(b)
        if ca is not None and cb is not None:
            return {'eq': ca == cb, 'ne': ca != cb, 'ult': ca < cb, 'ule': ca <= cb,
                    'slt': _s(ca) < _s(cb), 'sle': _s(ca) <= _s(cb)}[op]
        if a == b:
            return op in ('eq', 'ule', 'sle')
        at = (op, a, b)
        if at in self.known or (op in ('eq', 'ne') and (op, b, a) in self.known):
            return True
        n = negate(at)
        if n in self.known or (n[0] in ('eq', 'ne') and (n[0], n[2], n[1]) in self.known):
            return False
        # eq with constant decides other comparisons with constants
        for (o2, x, y) in self.known:
            if o2 == 'eq':
                for (p, q) in ((x, y), (y, x)):
                    cq = const_int(q)
                    if cq is None:
                        continue
                    if p == a and cb is not None:
                        return {'eq': cq == cb, 'ne': cq != cb, 'ult': cq < cb, 'ule': cq <= cb,
                                'slt': _s(cq) < _s(cb), 'sle': _s(cq) <= _s(cb)}[op]
                    if p == b and ca is not None:
                        return {'eq': ca == cq, 'ne': ca != cq, 'ult': ca < cq, 'ule': ca <= cq,
                                'slt': _s(ca) < _s(cq), 'sle': _s(ca) <= _s(cq)}[op]
        # strict-order facts decide eq/ne
        if op in ('eq', 'ne'):
            if ('ult', a, b) in self.known or ('ult', b, a) in self.known or ('slt', a, b) in self.known or ('slt', b, a) in self.known:
                return op == 'ne'
        return None


def _s(v, bits=64):
    # constants are serialised as unsigned; signed compare only matters for small ints (i32 results)
    if v >= 1 << 63:
        return v - (1 << 64)
    if (1 << 31) <= v < (1 << 32):
        return v - (1 << 32)
    return v


class With:
    """transfer result that also adds path knowledge: `atoms` over SSA values, and `bind` = {ref: value}
    meaning "this instruction's result equals value on this path" (e.g. the value a load must return
    because the last store to that location on the path is known)"""
    def __init__(self, auto, atoms=(), bind=None):
        self.auto = auto
        self.atoms = tuple(atoms)
        self.bind = dict(bind or {})


def with_memory(fn, transfer, track_loc):
    """wrap a transfer function with a small store/load model for the locations `track_loc(addr)` accepts.
    automaton state becomes (inner state, memory map); a load of a location whose content is known on the
    path is bound to that content.  May-alias: a store kills entries with the same field path under a
    different root unless the path knows the roots differ.  Calls to library functions that were not
    inlined, memcpy/memset and inline asm forget everything; the allocator, abort and user callbacks
    are assumed not to touch library-private state (DESIGN.md 2.3)."""
    from .ir import resolve_addr

    def key_of(a):
        r = a.root if not isinstance(a.root, dict) else None
        if r is None:
            return None
        return (r, a.steps)

    def t(ins, auto, ps):
        inner, mem = auto
        bind = {}
        r = ins.ref
        if any(v == r or k[0] == r for k, v in mem):
            mem = frozenset((k, v) for k, v in mem if v != r and k[0] != r)
        if ins.op == 'load':
            a = resolve_addr(fn, ins.o[0])
            k = key_of(a) if track_loc(a) else None
            if k is not None:
                k = (ps.lookup(k[0]), k[1])
                d = dict(mem)
                if k in d:
                    bind[ins.ref] = d[k]
                else:
                    d[k] = ins.ref
                    mem = frozenset(d.items())
        elif ins.op in ('store', 'atomicrmw', 'cmpxchg'):
            a = resolve_addr(fn, ins.o[1] if ins.op == 'store' else ins.o[0])
            k = key_of(a)
            d = dict(mem)
            root = ps.lookup(a.root) if isinstance(a.root, str) else None
            for kk in list(d):
                if kk[1] == a.steps and kk[0] != root:
                    if root is None or ps.knows(('ne', kk[0], root)) is not True:
                        del d[kk]
            if k is not None and track_loc(a) and ins.op == 'store':
                d[(root, k[1])] = ps.lookup(_k(ins.o[0]))
            elif k is not None and (root, k[1]) in d:
                del d[(root, k[1])]
            mem = frozenset(d.items())
        elif ins.op == 'call':
            cal = ins.callee or ''
            forget = False
            if cal.startswith(('llvm.memcpy', 'llvm.memmove', 'llvm.memset')):
                forget = True
            elif ins.callee and not ins.is_intrinsic():
                g = fn.module.fn(ins.callee)
                if g is not None and not g.decl:
                    forget = True
            if forget:
                mem = frozenset()
        out = transfer(ins, inner, ps)
        if out is None:
            return None
        res = []
        for o in _many(out):
            if isinstance(o, With):
                b = dict(bind)
                b.update(o.bind)
                res.append(With((o.auto, mem), o.atoms, b))
            else:
                res.append(With((o, mem), (), bind) if bind else (o, mem))
        return res
    return t


class Result:
    def __init__(self):
        self.exits = []        # (ret instruction, PathState)
        self.aborts = []       # (block, PathState) paths ending in unreachable
        self.block_in = {}     # block idx -> set of PathState
        self.n_states = 0
        self.events = []


def run(fn, init_auto, transfer, track=None, limit=60000, start=None, init_known=frozenset()):
    """forward exploration from the entry (or `start` block)"""
    if init_auto is None:
        raise ValueError('the automaton state None means "path ends"; use another initial state')
    res = Result()
    track = track or (lambda ref: True)
    entry = start or fn.entry
    work = [(entry, PathState(init_auto, frozenset(), init_known))]
    res.block_in[entry.idx] = {work[0][1]}
    while work:
        block, st = work.pop()
        res.n_states += 1
        if res.n_states > limit:
            raise Limit('more than %d (block, state) pairs in %s' % (limit, fn.name))
        cur = [st]
        ended = False
        for ins in block.insts:
            if ins.op == 'phi':
                continue
            nxt = []
            for s0 in cur:
                # a re-executed definition invalidates knowledge about the previous instance; the rule's
                # transfer still sees the state *before* that (it may ask about the previous instance)
                r = ins.ref
                s = s0
                env, known = s.env, s.known
                if any(v == r or k == r for k, v in env) or any(a == r or b == r for _, a, b in known):
                    env = frozenset((k, v) for k, v in env if v != r and k != r)
                    known = frozenset(t for t in known if t[1] != r and t[2] != r)
                    s = PathState(s.auto, env, known)
                if ins.op == 'ret':
                    out = transfer(ins, s0.auto, s0)
                    if out is None:
                        out = s0.auto
                    for a in (_many(out)):
                        if isinstance(a, With):
                            a = a.auto
                        res.exits.append((ins, PathState(a, s.env, s.known)))
                    continue
                if ins.op == 'unreachable':
                    res.aborts.append((block, s))
                    continue
                out = transfer(ins, s0.auto, s0)
                if out is None:
                    continue
                for a in _many(out):
                    if isinstance(a, With):
                        kn = set(s.known)
                        feasible = True
                        for at in a.atoms:
                            k = s.knows(at)
                            if k is False:
                                feasible = False
                            elif k is None:
                                kn.add((at[0], s.lookup(at[1]), s.lookup(at[2])))
                        env = s.env
                        if a.bind:
                            e = dict(env)
                            for br, bv in a.bind.items():
                                e[br] = s.lookup(bv)
                            env = frozenset(e.items())
                        if feasible:
                            nxt.append(PathState(a.auto, env, frozenset(kn)))
                    else:
                        nxt.append(PathState(a, s.env, s.known))
            cur = _dedupe(nxt)
            if not cur:
                ended = True
                break
        if ended or not block.succ:
            continue
        t = block.term
        for dst in block.succ:
            for s in cur:
                ns = _cross(fn, block, dst, t, s, track)
                if ns is None:
                    continue
                seen = res.block_in.setdefault(dst.idx, set())
                if ns not in seen:
                    seen.add(ns)
                    work.append((dst, ns))
    return res


def _many(x):
    if isinstance(x, (list, set, tuple)) and not (isinstance(x, tuple) and getattr(x, '_fields', None)):
        # a plain tuple is a single automaton state in most rules; only lists/sets mean "several"
        if isinstance(x, tuple):
            return [x]
        return list(x)
    return [x]


def _dedupe(xs):
    seen = set()
    out = []
    for x in xs:
        if x not in seen:
            seen.add(x)
            out.append(x)
    return out


_PREDS = {
    'eq': lambda a, b: ('eq', a, b), 'ne': lambda a, b: ('ne', a, b),
    'ult': lambda a, b: ('ult', a, b), 'ule': lambda a, b: ('ule', a, b),
    'ugt': lambda a, b: ('ult', b, a), 'uge': lambda a, b: ('ule', b, a),
    'slt': lambda a, b: ('slt', a, b), 'sle': lambda a, b: ('sle', a, b),
    'sgt': lambda a, b: ('slt', b, a), 'sge': lambda a, b: ('sle', b, a),
}


_ORIGIN = {}     # atom -> the un-substituted operands it was built from (for the tracking decision)


def path_atoms(fn, ref, truth, s, depth=0):
    """atoms known when i1 value `ref` equals `truth` on *this path* (phis resolved through the path's
    bindings).  Returns a list of atoms, [] if nothing can be said, or None if the path is infeasible."""
    ref = s.lookup(_k(strip_bitcasts(fn, ref)))
    c = const_int(ref)
    if c is not None:
        return [] if bool(c) == truth else None
    if depth > 16:
        return []
    ins = fn.get(ref) if isinstance(ref, str) else None
    if ins is None:
        return []
    if ins.op == 'icmp':
        a, b = ins.o
        bz = const_int(b)
        ai = fn.get(a) if isinstance(a, str) else None
        if bz == 0 and ins.pred in ('ne', 'eq') and ai is not None and ai.op == 'zext' and ai.x.get('sbits') == 1:
            return path_atoms(fn, ai.o[0], truth if ins.pred == 'ne' else (not truth), s, depth + 1)
        if bz == 0 and ins.pred in ('ne', 'eq') and isinstance(a, str):
            # a flag variable that holds a widened truth value on this path (left = (cmp(...) < 0))
            la = s.lookup(_k(strip_bitcasts(fn, a)))
            lai = fn.get(la) if isinstance(la, str) else None
            if lai is not None and lai is not ai and lai.op == 'zext' and lai.x.get('sbits') == 1:
                return path_atoms(fn, lai.o[0], truth if ins.pred == 'ne' else (not truth), s, depth + 1)
        if bz == 0 and ins.pred in ('ne', 'eq') and ai is not None and ai.op in ('and', 'or') and ai.ty != 'i1':
            # truth values combined with the bitwise operators on 0/1 integers
            from .facts import _bool01
            if all(_bool01(fn, o) is not None for o in ai.o):
                return path_atoms(fn, ai.ref, truth if ins.pred == 'ne' else (not truth), s, depth + 1)
        if ins.pred not in _PREDS:
            return []
        a0, b0 = _k(strip_bitcasts(fn, a)), _k(strip_bitcasts(fn, b))
        if ins.pred in ('eq', 'ne') and (const_int(a0) is not None or a0 == 'null') and not (const_int(b0) is not None or b0 == 'null'):
            a0, b0 = b0, a0
        a0, b0 = shift_const(fn, ins.pred, a0, b0)
        a = s.lookup(a0)
        b = s.lookup(b0)
        at = _PREDS[ins.pred](a, b)
        at = at if truth else negate(at)
        _ORIGIN[at] = (a0, b0)
        return [at]
    if ins.op == 'xor' and const_int(ins.o[1]) == 1:
        return path_atoms(fn, ins.o[0], not truth, s, depth + 1)
    ops = list(ins.o)
    if ins.op in ('and', 'or') and ins.ty != 'i1':
        from .facts import _bool01
        ops = [_bool01(fn, o) for o in ins.o]
        if any(o is None for o in ops):
            return []
    if (ins.op == 'and' and truth) or (ins.op == 'or' and not truth):
        a1 = path_atoms(fn, ops[0], truth, s, depth + 1)
        a2 = path_atoms(fn, ops[1], truth, s, depth + 1)
        if a1 is None or a2 is None:
            return None
        return a1 + a2
    if ins.op == 'trunc' and ins.ty == 'i1':
        return [('ne' if truth else 'eq', s.lookup(_k(ins.o[0])), '#0')]
    if ins.op == 'zext' and ins.x.get('sbits') == 1:
        return path_atoms(fn, ins.o[0], truth, s, depth + 1)
    if ins.op == 'phi':
        # an unbound phi: fall back to the static encoding of && / ||
        atoms, _ = cond_atoms(fn, ref, truth)
        return atoms
    return []


def value_of(fn, s, ref, depth=0):
    """the value `ref` has on this path: phis through the path's bindings, selects through its knowledge"""
    ref = s.lookup(_k(strip_bitcasts(fn, ref))) if isinstance(ref, str) else ref
    ins = fn.get(ref) if isinstance(ref, str) else None
    if ins is None or ins.op != 'select' or depth > 4:
        return ref
    for truth, pick in ((True, ins.o[1]), (False, ins.o[2])):
        atoms = path_atoms(fn, ins.o[0], truth, s)
        if atoms and all(s.knows(a) is True for a in atoms):
            return value_of(fn, s, pick, depth + 1)
        if atoms is None:
            other = ins.o[2] if truth else ins.o[1]
            return value_of(fn, s, other, depth + 1)
    return ref


def _cross(fn, src, dst, term, s, track):
    known = set(s.known)
    # condition of the edge
    atoms = []
    vias = []
    if term.op == 'br' and term.o:
        succ = term.x['succ']
        if succ[0] != succ[1]:
            c = s.lookup(term.o[0])
            cc = const_int(c)
            truth = dst.name == succ[0]
            if cc is not None:
                if bool(cc) != truth:
                    return None
            else:
                atoms = path_atoms(fn, c, truth, s)
                if atoms is None:
                    return None
                if not atoms:
                    # an opaque i1 (e.g. a tracked flag value): remember its truth
                    atoms = [('ne' if truth else 'eq', _k(c), '#0')]
    elif term.op == 'switch':
        v = s.lookup(term.o[0])
        cv = const_int(v)
        cases = term.x['cases']
        mine = [c for c, bb in cases if bb == dst.name]
        if cv is not None:
            target = None
            for c, bb in cases:
                if c == cv:
                    target = bb
            if target is None:
                target = term.x['default']
            if target != dst.name:
                return None
        else:
            if dst.name != term.x['default'] and len(mine) == 1:
                atoms = [('eq', _k(v), '#%d' % mine[0])]
            elif dst.name == term.x['default'] and not mine:
                atoms = [('ne', _k(v), '#%d' % c) for c, _ in cases]
    for at in atoms:
        op, a0, b0 = at
        a, b = s.lookup(a0), s.lookup(b0)
        at = (op, a, b)
        k = PathState(None, s.env, frozenset(known)).knows(at)
        if k is False:
            return None
        oa, ob = _ORIGIN.get(at, (a0, b0))
        if k is None and (track(a) or track(b) or track(a0) or track(b0) or track(oa) or track(ob)):
            known.add(at)
    # bind phis of dst (parallel assignment: incoming values are read in the old state)
    env = dict(s.env)
    refs = set()
    newb = {}
    for ins in dst.insts:
        if ins.op != 'phi':
            break
        refs.add(ins.ref)
    if refs:
        for ins in dst.insts:
            if ins.op != 'phi':
                break
            if not track(ins.ref):
                continue
            for v, bb in zip(ins.o, ins.x['bb']):
                if bb == src.name:
                    val = s.lookup(_k(strip_bitcasts(fn, v)))   # facts are recorded about un-cast values
                    if val not in refs:          # an unbound phi of the same block: ambiguous instance
                        newb[ins.ref] = val
        # knowledge about the previous instance of a re-defined phi goes away
        known = {t for t in known if t[1] not in refs and t[2] not in refs}
        env = {k: v for k, v in env.items() if k not in refs and v not in refs}
        env.update(newb)
    return PathState(s.auto, frozenset(env.items()), frozenset(known))
