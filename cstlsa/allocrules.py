"""Allocator-result discipline shared by C09.V2, C16.F1/F2/F4, C03 (bucket array).

For each malloc/realloc/calloc call (un-inlined per-function IR):
  U  every dereference of the result, every store of the result into memory and every call that
     receives it (other than free) is dominated by the fact result != NULL; returning it unexamined
     hands the obligation to the caller.
  S  every store, reachable from the call, into an object the function received as a parameter is
     dominated by result != NULL ("a failed allocation stores nothing into the container"); for
     realloc this includes the overwrite of the old pointer (commit on success only).
"""
from .facts import Prover, _k
from .ir import resolve_addr, is_arg, const_int

ALLOCATORS = ('malloc', 'realloc', 'calloc')


def alloc_calls(fn):
    return [i for i in fn.all_insts() if i.op == 'call' and i.callee in ALLOCATORS]


def aliases(fn, ref):
    """the value and its casts / zero-offset GEPs / phis of only-this-or-null"""
    out = {ref}
    work = [ref]
    while work:
        r = work.pop()
        for u in fn.users(r):
            if u.op == 'bitcast' or (u.op == 'getelementptr' and u.o[0] == r and u.x.get('coff') == 0):
                if u.ref not in out:
                    out.add(u.ref)
                    work.append(u.ref)
            elif u.op == 'phi' and u.ref not in out and all(o in out or o == 'null' or const_int(o) == 0 for o in u.o):
                # "the block or NULL" merged from a helper's early returns: non-NULL means it is the block
                out.add(u.ref)
                work.append(u.ref)
    return out


def nonnull_at(fn, pv, als, ins):
    for a in als:
        if pv.prove_at(('ne', a, 'null'), ins):
            return True
    return False


def check_alloc(fn, call, pv=None):
    """-> (bad_uses [(ins, text)], n_checked)"""
    pv = pv or Prover(fn)
    als = aliases(fn, call.ref)
    bad = []
    n = 0
    derived = set(als)
    # pointers computed from the result (field addresses) are dereferences in waiting
    work = list(als)
    while work:
        r = work.pop()
        for u in fn.users(r):
            if u.op == 'getelementptr' and u.o[0] == r and u.ref not in derived:
                derived.add(u.ref)
                work.append(u.ref)
            elif u.op == 'bitcast' and u.ref not in derived:
                derived.add(u.ref)
                work.append(u.ref)
    for r in derived:
        for u in fn.users(r):
            if u.op in ('icmp', 'bitcast', 'getelementptr', 'ret', 'phi', 'select', 'ptrtoint'):
                continue
            what = None
            if u.op == 'load' and u.o[0] == r:
                what = 'read through the result'
            elif u.op == 'store' and u.o[1] == r:
                what = 'write through the result'
            elif u.op == 'store' and u.o[0] == r:
                what = 'result stored into %s' % (resolve_addr(fn, u.o[1]).path or 'memory')
            elif u.op in ('atomicrmw', 'cmpxchg'):
                what = 'atomic access through the result'
            elif u.op == 'call':
                if u.callee == 'free':
                    continue
                what = 'result passed to %s' % (u.callee or 'an indirect call')
            if what is None:
                continue
            n += 1
            if not nonnull_at(fn, pv, als, u):
                bad.append((u, '%s at %s is not dominated by the check `result != NULL`' % (what, u.loc())))
    # S: stores into parameter objects after the call
    reach = {b.idx for b in fn.reachable_from(call.block)}
    for b in fn.blocks:
        if b.idx not in reach:
            continue
        for s in b.insts:
            if s.op != 'store':
                continue
            if b is call.block and s.pos < call.pos:
                continue
            a = resolve_addr(fn, s.o[1])
            if not is_arg(a.root):
                continue
            n += 1
            if not nonnull_at(fn, pv, als, s):
                bad.append((s, 'store into %s->%s at %s happens even when the allocation failed' % (fn.vname(a.root), a.path, s.loc())))
    return bad, n
