// irdump: serialise an LLVM-14 module (bitcode or .ll) to JSON for the Python rules.
// Part of the static-analysis machinery for libcstl; nothing here executes library code.
//
// Output (one JSON object on stdout):
//   functions[]: name, linkage, decl, file, line, ret, fty, noreturn, args[{ty,name}],
//                names{valueref: source variable}, blocks[{name, insts[]}]
//   insts: i (id, unique per function), op, ty, o[] (operand refs), ln (line), fn (source
//          function of the innermost debug scope), ia (inlined-at chain [[fn,line],...]),
//          plus per-opcode extras (pred, callee, path, atomic, rmw, succ, cases, ...)
//   operand refs: "%N" instruction, "$N" argument, "#V" integer constant, "null", "undef",
//                 "@name" global or function, "fp" float constant, {"ce":op,"o":[...]} const expr
//   GEP "path": [{"idx":ref} | {"f":field,"s":struct,"off":bytes,"k":index}], "coff": constant
//   byte offset or null.  Field names come from the debug-info type table matched by offset.
//   structs{}: LLVM struct name -> {di, size, fields[{name,off,size,ty}]}
#include "llvm/IR/LLVMContext.h"
#include "llvm/IR/Module.h"
#include "llvm/IR/Function.h"
#include "llvm/IR/Instructions.h"
#include "llvm/IR/IntrinsicInst.h"
#include "llvm/IR/Constants.h"
#include "llvm/IR/DebugInfo.h"
#include "llvm/IR/DebugInfoMetadata.h"
#include "llvm/IR/DataLayout.h"
#include "llvm/IR/Operator.h"
#include "llvm/IRReader/IRReader.h"
#include "llvm/Support/SourceMgr.h"
#include "llvm/Support/raw_ostream.h"
#include "llvm/Bitcode/BitcodeWriter.h"
#include "llvm/Support/FileSystem.h"
#include "llvm/IR/Dominators.h"
#include "llvm/IR/LegacyPassManager.h"
#include "llvm/Transforms/Scalar.h"
#include "llvm/Transforms/Utils.h"
#include <map>
#include <set>
#include <string>
#include <vector>

using namespace llvm;

static std::string esc(StringRef s) {
  std::string r;
  for (unsigned char c : s) {
    if (c == '"' || c == '\\') { r += '\\'; r += (char)c; }
    else if (c < 0x20) { char b[8]; snprintf(b, sizeof b, "\\u%04x", c); r += b; }
    else r += (char)c;
  }
  return r;
}
static std::string q(StringRef s) { return "\"" + esc(s) + "\""; }
static std::string tystr(Type *t) {
  std::string s; raw_string_ostream os(s); t->print(os, false, true); return os.str();
}

// ---- debug-info struct table ------------------------------------------------
static const DIType *stripDI(const DIType *t) {
  while (t) {
    if (auto *d = dyn_cast<DIDerivedType>(t)) {
      unsigned tag = d->getTag();
      if (tag == dwarf::DW_TAG_typedef || tag == dwarf::DW_TAG_const_type ||
          tag == dwarf::DW_TAG_volatile_type || tag == dwarf::DW_TAG_restrict_type ||
          tag == dwarf::DW_TAG_atomic_type) { t = d->getBaseType(); continue; }
    }
    break;
  }
  return t;
}
static const DIType *elemDI(const DIType *t) {  // through arrays / pointers to the element composite
  t = stripDI(t);
  while (t) {
    if (auto *c = dyn_cast<DICompositeType>(t)) {
      if (c->getTag() == dwarf::DW_TAG_array_type) { t = stripDI(c->getBaseType()); continue; }
      return c;
    }
    if (auto *d = dyn_cast<DIDerivedType>(t)) {
      if (d->getTag() == dwarf::DW_TAG_pointer_type) { t = stripDI(d->getBaseType()); continue; }
    }
    break;
  }
  return t;
}
static Type *elemTy(Type *t) {
  while (t) {
    if (auto *a = dyn_cast<ArrayType>(t)) { t = a->getElementType(); continue; }
    if (auto *p = dyn_cast<PointerType>(t)) { if (p->isOpaque()) return nullptr; t = p->getNonOpaquePointerElementType(); continue; }
    break;
  }
  return t;
}

struct Ctx {
  Module *M; const DataLayout *DL;
  std::map<std::string, const DICompositeType *> diByName;  // struct/union tag or typedef name
  std::map<StructType *, const DICompositeType *> st2di;
  std::map<const DICompositeType *, std::string> pref;  // tag name, else typedef name
};
static Ctx *GC = nullptr;

static std::string baseName(StringRef n) {  // "struct.cstl_hash.3" -> "cstl_hash"; anon -> ""
  if (n.startswith("struct.")) n = n.drop_front(7);
  else if (n.startswith("union.")) n = n.drop_front(6);
  if (n.startswith("anon")) return "";
  size_t p = n.rfind('.');
  if (p != StringRef::npos) {
    StringRef tail = n.drop_front(p + 1);
    bool dig = !tail.empty();
    for (char c : tail) if (!isdigit((unsigned char)c)) dig = false;
    if (dig) n = n.take_front(p);
  }
  return n.str();
}

static const DIDerivedType *memberAt(const DICompositeType *c, uint64_t offBits, uint64_t sizeBitsHint) {
  const DIDerivedType *best = nullptr;
  for (auto *e : c->getElements()) {
    auto *m = dyn_cast<DIDerivedType>(e);
    if (!m || m->getTag() != dwarf::DW_TAG_member) continue;
    if (m->getOffsetInBits() == offBits) {
      if (!best) best = m;
      (void)sizeBitsHint;
    }
  }
  return best;
}

static void bindStruct(Ctx &C, StructType *st, const DICompositeType *di, int depth = 0) {
  if (!st || !di || depth > 12) return;
  if (C.st2di.count(st)) return;
  C.st2di[st] = di;
  if (st->isOpaque()) return;
  const StructLayout *SL = C.DL->getStructLayout(st);
  for (unsigned i = 0; i < st->getNumElements(); i++) {
    Type *et = elemTy(st->getElementType(i));
    auto *est = et ? dyn_cast<StructType>(et) : nullptr;
    if (!est) continue;
    const DIDerivedType *m = memberAt(di, SL->getElementOffsetInBits(i), 0);
    if (!m) continue;
    const DIType *mt = elemDI(m->getBaseType());
    if (auto *mc = dyn_cast_or_null<DICompositeType>(mt)) bindStruct(C, est, mc, depth + 1);
  }
}

static void buildDI(Ctx &C) {
  DebugInfoFinder F; F.processModule(*C.M);
  for (auto *t : F.types()) {
    if (auto *c = dyn_cast<DICompositeType>(t)) {
      if ((c->getTag() == dwarf::DW_TAG_structure_type || c->getTag() == dwarf::DW_TAG_union_type) &&
          !c->getName().empty() && !c->isForwardDecl())
        { C.diByName.emplace(c->getName().str(), c); C.pref[c] = c->getName().str(); }
    }
  }
  for (auto *t : F.types()) {
    if (auto *d = dyn_cast<DIDerivedType>(t)) {
      if (d->getTag() == dwarf::DW_TAG_typedef) {
        const DIType *b = stripDI(d->getBaseType());
        if (auto *c = dyn_cast_or_null<DICompositeType>(b))
          if ((c->getTag() == dwarf::DW_TAG_structure_type || c->getTag() == dwarf::DW_TAG_union_type) && !c->isForwardDecl())
            { C.diByName.emplace(d->getName().str(), c); if (!C.pref.count(c)) C.pref[c] = d->getName().str(); }
      }
    }
  }
  for (StructType *st : C.M->getIdentifiedStructTypes()) {
    if (!st->hasName()) continue;
    std::string b = baseName(st->getName());
    if (b.empty()) continue;
    auto it = C.diByName.find(b);
    if (it != C.diByName.end()) bindStruct(C, st, it->second);
  }
}

static std::string diName(const DICompositeType *c) {
  if (!c) return std::string();
  if (!c->getName().empty()) return c->getName().str();
  if (GC) { auto it = GC->pref.find(c); if (it != GC->pref.end()) return it->second; }
  return std::string();
}

// ---- operand refs -------------------------------------------------------------
struct FnCtx {
  std::map<const Value *, unsigned> id;
};

static std::string gepPath(Ctx &C, FnCtx *F, Type *srcTy, ArrayRef<const Value *> idx, bool &allConst, int64_t &coff);

static std::string ref(Ctx &C, FnCtx *F, const Value *v) {
  if (auto *I = dyn_cast<Instruction>(v)) {
    if (F) { auto it = F->id.find(I); if (it != F->id.end()) return "\"%" + std::to_string(it->second) + "\""; }
    return "\"%?\"";
  }
  if (auto *A = dyn_cast<Argument>(v)) return "\"$" + std::to_string(A->getArgNo()) + "\"";
  if (auto *CI = dyn_cast<ConstantInt>(v)) {
    if (CI->getBitWidth() <= 64) {
      // print as unsigned for widths >= 32 so SIZE_MAX is visible; keep i1 as 0/1
      return "\"#" + std::to_string(CI->getZExtValue()) + "\"";
    }
    return "\"#big\"";
  }
  if (isa<ConstantPointerNull>(v)) return "\"null\"";
  if (isa<UndefValue>(v)) return "\"undef\"";
  if (auto *FP = dyn_cast<ConstantFP>(v)) {
    SmallString<32> s; FP->getValueAPF().toString(s);
    return "\"fp:" + s.str().str() + "\"";
  }
  if (auto *G = dyn_cast<GlobalValue>(v)) return q("@" + G->getName().str());
  if (auto *CE = dyn_cast<ConstantExpr>(v)) {
    std::string s = "{\"ce\":" + q(CE->getOpcodeName()) + ",\"ty\":" + q(tystr(CE->getType())) + ",\"o\":[";
    for (unsigned i = 0; i < CE->getNumOperands(); i++) { if (i) s += ","; s += ref(C, F, CE->getOperand(i)); }
    s += "]";
    if (auto *G = dyn_cast<GEPOperator>(CE)) {
      std::vector<const Value *> idx;
      for (auto it = G->idx_begin(); it != G->idx_end(); ++it) idx.push_back(*it);
      bool ac; int64_t co;
      s += ",\"src\":" + q(tystr(G->getSourceElementType()));
      s += ",\"path\":" + gepPath(C, F, G->getSourceElementType(), idx, ac, co);
      s += ",\"coff\":" + (ac ? std::to_string(co) : std::string("null"));
    }
    return s + "}";
  }
  if (isa<ConstantAggregateZero>(v)) return "\"zeroinit\"";
  if (isa<BasicBlock>(v)) return q("^" + v->getName().str());
  if (isa<MetadataAsValue>(v)) return "\"meta\"";
  if (isa<InlineAsm>(v)) return "\"asm\"";
  return "\"?\"";
}

static std::string gepPath(Ctx &C, FnCtx *F, Type *srcTy, ArrayRef<const Value *> idx, bool &allConst, int64_t &coff) {
  std::string s = "[";
  allConst = true; coff = 0;
  Type *cur = srcTy;
  bool first = true, any = false;
  for (const Value *iv : idx) {
    auto *ci = dyn_cast<ConstantInt>(iv);
    if (first) {
      first = false;
      uint64_t sz = C.DL->getTypeAllocSize(cur);
      if (ci) {
        coff += ci->getSExtValue() * (int64_t)sz;
        if (!ci->isZero()) { if (any) s += ","; any = true; s += "{\"idx\":" + ref(C, F, iv) + ",\"esz\":" + std::to_string(sz) + "}"; }
      } else {
        allConst = false;
        if (any) s += ","; any = true;
        s += "{\"idx\":" + ref(C, F, iv) + ",\"esz\":" + std::to_string(sz) + "}";
      }
      continue;
    }
    if (auto *st = dyn_cast<StructType>(cur)) {
      unsigned k = ci ? (unsigned)ci->getZExtValue() : 0;
      const StructLayout *SL = C.DL->getStructLayout(st);
      uint64_t off = SL->getElementOffset(k);
      coff += off;
      std::string fname = "#" + std::to_string(k), sname;
      auto it = C.st2di.find(st);
      if (it != C.st2di.end()) {
        sname = diName(it->second);
        if (auto *m = memberAt(it->second, off * 8, 0)) fname = m->getName().str();
      } else if (st->hasName()) sname = baseName(st->getName());
      if (any) s += ","; any = true;
      s += "{\"f\":" + q(fname) + ",\"s\":" + q(sname) + ",\"off\":" + std::to_string(off) + ",\"k\":" + std::to_string(k) + "}";
      cur = st->getElementType(k);
    } else if (auto *at = dyn_cast<ArrayType>(cur)) {
      cur = at->getElementType();
      uint64_t sz = C.DL->getTypeAllocSize(cur);
      if (ci) coff += ci->getSExtValue() * (int64_t)sz; else allConst = false;
      if (any) s += ","; any = true;
      s += "{\"idx\":" + ref(C, F, iv) + ",\"esz\":" + std::to_string(sz) + ",\"arr\":1}";
    } else if (auto *vt = dyn_cast<VectorType>(cur)) {
      cur = vt->getElementType(); allConst = false;
    } else break;
  }
  return s + "]";
}

static const char *linkName(GlobalValue::LinkageTypes l) {
  switch (l) {
  case GlobalValue::ExternalLinkage: return "external";
  case GlobalValue::InternalLinkage: return "internal";
  case GlobalValue::PrivateLinkage: return "private";
  case GlobalValue::AvailableExternallyLinkage: return "available_externally";
  case GlobalValue::LinkOnceAnyLinkage: case GlobalValue::LinkOnceODRLinkage: return "linkonce";
  case GlobalValue::WeakAnyLinkage: case GlobalValue::WeakODRLinkage: return "weak";
  case GlobalValue::CommonLinkage: return "common";
  case GlobalValue::ExternalWeakLinkage: return "extern_weak";
  case GlobalValue::AppendingLinkage: return "appending";
  }
  return "?";
}
static const char *ordName(AtomicOrdering o) {
  switch (o) {
  case AtomicOrdering::NotAtomic: return "na";
  case AtomicOrdering::Unordered: return "unordered";
  case AtomicOrdering::Monotonic: return "relaxed";
  case AtomicOrdering::Acquire: return "acquire";
  case AtomicOrdering::Release: return "release";
  case AtomicOrdering::AcquireRelease: return "acq_rel";
  case AtomicOrdering::SequentiallyConsistent: return "seq_cst";
  }
  return "?";
}

static std::string relFile(const DIFile *f) {
  if (!f) return "";
  std::string d = f->getDirectory().str(), n = f->getFilename().str();
  if (!n.empty() && n[0] == '/') return n;
  return n;
}

static void dumpFunction(Ctx &C, const Function &Fn, raw_ostream &O) {
  FnCtx F;
  unsigned n = 0;
  for (auto &BB : Fn) for (auto &I : BB) F.id[&I] = n++;
  O << "{\"name\":" << q(Fn.getName()) << ",\"linkage\":" << q(linkName(Fn.getLinkage()))
    << ",\"decl\":" << (Fn.isDeclaration() ? "true" : "false")
    << ",\"noreturn\":" << (Fn.doesNotReturn() ? "true" : "false")
    << ",\"ret\":" << q(tystr(Fn.getReturnType())) << ",\"fty\":" << q(tystr(Fn.getFunctionType()));
  const DISubprogram *SP = Fn.getSubprogram();
  O << ",\"file\":" << q(SP ? relFile(SP->getFile()) : "") << ",\"line\":" << (SP ? SP->getLine() : 0);
  std::map<unsigned, std::string> argNames;
  if (SP) for (auto *nd : SP->getRetainedNodes())
    if (auto *lv = dyn_cast<DILocalVariable>(nd)) if (lv->getArg()) argNames[lv->getArg() - 1] = lv->getName().str();
  O << ",\"args\":[";
  for (auto &A : Fn.args()) {
    if (A.getArgNo()) O << ",";
    O << "{\"ty\":" << q(tystr(A.getType())) << ",\"name\":" << q(argNames.count(A.getArgNo()) ? argNames[A.getArgNo()] : "") << "}";
  }
  O << "]";
  // variable names from dbg.value / dbg.declare
  std::map<std::string, std::string> names;
  for (auto &BB : Fn) for (auto &I : BB) {
    if (auto *DV = dyn_cast<DbgVariableIntrinsic>(&I)) {
      Value *v = DV->getVariableLocationOp(0);
      if (!v || isa<Constant>(v)) continue;
      std::string r = ref(C, &F, v);
      if (r.size() > 2 && !names.count(r)) names[r] = DV->getVariable()->getName().str();
    }
  }
  O << ",\"names\":{";
  { bool f1 = true; for (auto &kv : names) { if (!f1) O << ","; f1 = false; O << kv.first << ":" << q(kv.second); } }
  O << "},\"blocks\":[";
  bool fb = true;
  for (auto &BB : Fn) {
    if (!fb) O << ","; fb = false;
    std::string bn; { raw_string_ostream os(bn); BB.printAsOperand(os, false); }
    O << "{\"name\":" << q(bn) << ",\"insts\":[";
    bool fi = true;
    for (auto &I : BB) {
      if (isa<DbgInfoIntrinsic>(&I)) continue;
      if (auto *II = dyn_cast<IntrinsicInst>(&I)) {
        Intrinsic::ID iid = II->getIntrinsicID();
        if (iid == Intrinsic::lifetime_start || iid == Intrinsic::lifetime_end) continue;
      }
      if (!fi) O << ","; fi = false;
      O << "{\"i\":" << F.id[&I] << ",\"op\":" << q(I.getOpcodeName()) << ",\"ty\":" << q(tystr(I.getType()));
      // debug location
      if (const DebugLoc &DL = I.getDebugLoc()) {
        O << ",\"ln\":" << DL.getLine();
        if (auto *sc = dyn_cast_or_null<DILocalScope>(DL.getScope())) {
          if (auto *sp = sc->getSubprogram()) O << ",\"fn\":" << q(sp->getName()) << ",\"file\":" << q(relFile(sp->getFile()));
        }
        if (DL.getInlinedAt()) {
          O << ",\"ia\":[";
          bool f2 = true;
          for (const DILocation *ia = DL.getInlinedAt(); ia; ia = ia->getInlinedAt()) {
            if (!f2) O << ","; f2 = false;
            auto *sp = ia->getScope() ? ia->getScope()->getSubprogram() : nullptr;
            O << "[" << q(sp ? sp->getName() : "") << "," << ia->getLine() << "]";
          }
          O << "]";
        }
      }
      auto ops = [&](unsigned from, unsigned to) {
        O << ",\"o\":[";
        for (unsigned k = from; k < to; k++) { if (k > from) O << ","; O << ref(C, &F, I.getOperand(k)); }
        O << "]";
      };
      if (auto *CB = dyn_cast<CallBase>(&I)) {
        const Value *cv = CB->getCalledOperand()->stripPointerCasts();
        if (auto *cf = dyn_cast<Function>(cv)) O << ",\"callee\":" << q(cf->getName());
        else O << ",\"callee\":null,\"cv\":" << ref(C, &F, CB->getCalledOperand());
        O << ",\"fty\":" << q(tystr(CB->getFunctionType()));
        if (CB->doesNotReturn()) O << ",\"noreturn\":true";
        O << ",\"o\":[";
        for (unsigned k = 0; k < CB->arg_size(); k++) { if (k) O << ","; O << ref(C, &F, CB->getArgOperand(k)); }
        O << "]";
      } else if (auto *G = dyn_cast<GetElementPtrInst>(&I)) {
        std::vector<const Value *> idx;
        for (auto it = G->idx_begin(); it != G->idx_end(); ++it) idx.push_back(*it);
        bool ac; int64_t co;
        std::string p = gepPath(C, &F, G->getSourceElementType(), idx, ac, co);
        O << ",\"src\":" << q(tystr(G->getSourceElementType())) << ",\"path\":" << p
          << ",\"coff\":" << (ac ? std::to_string(co) : std::string("null"));
        ops(0, I.getNumOperands());
      } else if (auto *P = dyn_cast<PHINode>(&I)) {
        O << ",\"o\":[";
        for (unsigned k = 0; k < P->getNumIncomingValues(); k++) { if (k) O << ","; O << ref(C, &F, P->getIncomingValue(k)); }
        O << "],\"bb\":[";
        for (unsigned k = 0; k < P->getNumIncomingValues(); k++) {
          if (k) O << ",";
          std::string b; { raw_string_ostream os(b); P->getIncomingBlock(k)->printAsOperand(os, false); }
          O << q(b);
        }
        O << "]";
      } else if (auto *B = dyn_cast<BranchInst>(&I)) {
        O << ",\"o\":[";
        if (B->isConditional()) O << ref(C, &F, B->getCondition());
        O << "],\"succ\":[";
        for (unsigned k = 0; k < B->getNumSuccessors(); k++) {
          if (k) O << ",";
          std::string b; { raw_string_ostream os(b); B->getSuccessor(k)->printAsOperand(os, false); }
          O << q(b);
        }
        O << "]";
      } else if (auto *S = dyn_cast<SwitchInst>(&I)) {
        O << ",\"o\":[" << ref(C, &F, S->getCondition()) << "]";
        std::string d; { raw_string_ostream os(d); S->getDefaultDest()->printAsOperand(os, false); }
        O << ",\"default\":" << q(d) << ",\"cases\":[";
        bool f3 = true;
        std::set<std::string> succs; succs.insert(d);
        for (auto &cs : S->cases()) {
          if (!f3) O << ","; f3 = false;
          std::string b; { raw_string_ostream os(b); cs.getCaseSuccessor()->printAsOperand(os, false); }
          O << "[" << cs.getCaseValue()->getZExtValue() << "," << q(b) << "]";
          succs.insert(b);
        }
        O << "],\"succ\":[";
        bool f4 = true;
        for (auto &b : succs) { if (!f4) O << ","; f4 = false; O << q(b); }
        O << "]";
      } else {
        ops(0, I.getNumOperands());
      }
      if (auto *EV = dyn_cast<ExtractValueInst>(&I)) {
        O << ",\"evi\":[";
        bool f5 = true;
        for (unsigned ix : EV->indices()) { if (!f5) O << ","; f5 = false; O << ix; }
        O << "]";
      }
      if (auto *CI = dyn_cast<CmpInst>(&I)) O << ",\"pred\":" << q(CmpInst::getPredicateName(CI->getPredicate()));
      if (auto *L = dyn_cast<LoadInst>(&I)) { if (L->isAtomic()) O << ",\"atomic\":" << q(ordName(L->getOrdering())); if (L->isVolatile()) O << ",\"vol\":true"; }
      if (auto *S = dyn_cast<StoreInst>(&I)) { if (S->isAtomic()) O << ",\"atomic\":" << q(ordName(S->getOrdering())); if (S->isVolatile()) O << ",\"vol\":true"; }
      if (auto *R = dyn_cast<AtomicRMWInst>(&I)) O << ",\"rmw\":" << q(AtomicRMWInst::getOperationName(R->getOperation())) << ",\"atomic\":" << q(ordName(R->getOrdering()));
      if (auto *X = dyn_cast<AtomicCmpXchgInst>(&I)) O << ",\"atomic\":" << q(ordName(X->getSuccessOrdering()));
      if (auto *FI = dyn_cast<FenceInst>(&I)) O << ",\"atomic\":" << q(ordName(FI->getOrdering()));
      if (auto *A = dyn_cast<AllocaInst>(&I)) {
        O << ",\"aty\":" << q(tystr(A->getAllocatedType())) << ",\"asz\":" << C.DL->getTypeAllocSize(A->getAllocatedType());
      }
      if (auto *OB = dyn_cast<OverflowingBinaryOperator>(&I)) {
        if (OB->hasNoUnsignedWrap()) O << ",\"nuw\":true";
        if (OB->hasNoSignedWrap()) O << ",\"nsw\":true";
      }
      if (I.getType()->isIntegerTy()) O << ",\"bits\":" << I.getType()->getIntegerBitWidth();
      if (auto *CI2 = dyn_cast<CastInst>(&I)) {
        Type *st = CI2->getSrcTy();
        if (st->isIntegerTy()) O << ",\"sbits\":" << st->getIntegerBitWidth();
        O << ",\"sty\":" << q(tystr(st));
      }
      O << "}";
    }
    O << "]}";
  }
  O << "]}";
}

// ---- accessor marking ---------------------------------------------------------------------------
// A "pure accessor" is a small loop-free function without stores, atomics, aborts or calls (other than to
// other pure accessors): cstl_vector_size, the element/node helpers, a maintainer's `effective_count(h)`.
// They are marked alwaysinline so that the un-inlined view sees through them: extracting or inlining such
// a helper is a behaviour-preserving edit and must not change any verdict.
static bool hasBackEdge(Function &F) {
  DominatorTree DT(F);
  for (auto &BB : F) for (auto *S : successors(&BB)) if (DT.dominates(S, &BB)) return true;
  return false;
}
static int markAccessors(Module &M) {
  std::set<Function *> acc;
  bool changed = true;
  while (changed) {
    changed = false;
    for (auto &F : M) {
      if (F.isDeclaration() || F.isVarArg() || acc.count(&F)) continue;
      // only private (static / static inline) helpers: a function with external linkage is a definition in one unit and a
      // mere declaration in the others, so inlining it would make the per-unit views disagree with each other
      if (!F.hasLocalLinkage()) continue;
      if (F.hasFnAttribute(Attribute::NoInline) || F.hasFnAttribute(Attribute::OptimizeNone)) continue;
      unsigned n = 0; bool ok = true;
      for (auto &BB : F) {
        for (auto &I : BB) {
          if (isa<DbgInfoIntrinsic>(&I)) continue;
          if (auto *II = dyn_cast<IntrinsicInst>(&I)) {
            Intrinsic::ID id = II->getIntrinsicID();
            if (id == Intrinsic::lifetime_start || id == Intrinsic::lifetime_end) continue;
          }
          n++;
          if (isa<StoreInst>(&I) || isa<AtomicRMWInst>(&I) || isa<AtomicCmpXchgInst>(&I) || isa<UnreachableInst>(&I) || isa<AllocaInst>(&I) ||
              isa<InvokeInst>(&I) || isa<FenceInst>(&I)) { ok = false; break; }
          if (auto *L = dyn_cast<LoadInst>(&I)) if (L->isAtomic() || L->isVolatile()) { ok = false; break; }
          if (auto *CB = dyn_cast<CallBase>(&I)) {
            Function *cf = dyn_cast<Function>(CB->getCalledOperand()->stripPointerCasts());
            // a call through a function pointer the helper received as a parameter (a comparison callback): the helper
            // is a predicate / selector over its arguments ("is the child in range and greater?")
            if (!cf && isa<Argument>(CB->getCalledOperand()->stripPointerCasts())) continue;
            if (!cf || cf == &F || !acc.count(cf)) { ok = false; break; }
          }
        }
        if (!ok) break;
      }
      if (!ok || n > 48 || F.size() > 12) continue;
      if (hasBackEdge(F)) continue;
      acc.insert(&F); changed = true;
    }
  }
  // "guard helpers": `static void require(bool ok) { if (!ok) abort(); }` -- no memory access at all, the only call is to a
  // function that does not return.  Writing a precondition through such a helper is writing the test in place.
  for (auto &F : M) {
    if (F.isDeclaration() || F.isVarArg() || acc.count(&F) || !F.hasLocalLinkage()) continue;
    if (F.hasFnAttribute(Attribute::NoInline) || F.hasFnAttribute(Attribute::OptimizeNone)) continue;
    if (!F.getReturnType()->isVoidTy() || F.size() > 4) continue;
    unsigned n = 0, aborts = 0; bool ok = true;
    for (auto &BB : F) for (auto &I : BB) {
      if (isa<DbgInfoIntrinsic>(&I)) continue;
      n++;
      if (isa<StoreInst>(&I) || isa<LoadInst>(&I) || isa<AtomicRMWInst>(&I) || isa<AtomicCmpXchgInst>(&I) || isa<AllocaInst>(&I) || isa<InvokeInst>(&I) || isa<FenceInst>(&I)) ok = false;
      else if (auto *CB = dyn_cast<CallBase>(&I)) {
        Function *cf = dyn_cast<Function>(CB->getCalledOperand()->stripPointerCasts());
        if (cf && (cf->doesNotReturn() || CB->doesNotReturn())) aborts++; else ok = false;
      }
    }
    if (!ok || aborts == 0 || n > 16 || hasBackEdge(F)) continue;
    acc.insert(&F);
    if (getenv("IRDUMP_VERBOSE")) errs() << "guard helper: " << F.getName() << "\n";
  }
  // "field setters": a private helper of the unit's own .c file whose only effect is ONE store of an argument or constant
  // through a pointer computed (by accessors) from its arguments -- `paint(node, colour)`, `set_next(n, x)`.  The write
  // is the caller's write; naming it is not a change of behaviour.
  for (auto &F : M) {
    if (F.isDeclaration() || F.isVarArg() || acc.count(&F) || !F.hasLocalLinkage()) continue;
    if (F.hasFnAttribute(Attribute::NoInline) || F.hasFnAttribute(Attribute::OptimizeNone)) continue;
    if (auto *SP = F.getSubprogram()) { if (SP->getFilename().endswith(".h")) continue; } else continue;
    if (!F.getReturnType()->isVoidTy()) continue;
    unsigned n = 0, stores = 0; bool ok = true;
    for (auto &BB : F) for (auto &I : BB) {
      if (isa<DbgInfoIntrinsic>(&I)) continue;
      n++;
      if (auto *S = dyn_cast<StoreInst>(&I)) {
        stores++;
        Value *V = S->getValueOperand();
        if (S->isAtomic() || S->isVolatile() || !(isa<Argument>(V) || isa<Constant>(V))) ok = false;
      } else if (isa<AtomicRMWInst>(&I) || isa<AtomicCmpXchgInst>(&I) || isa<UnreachableInst>(&I) || isa<AllocaInst>(&I) || isa<InvokeInst>(&I) || isa<FenceInst>(&I)) ok = false;
      else if (auto *L = dyn_cast<LoadInst>(&I)) { if (L->isAtomic() || L->isVolatile()) ok = false; }
      else if (auto *CB = dyn_cast<CallBase>(&I)) {
        Function *cf = dyn_cast<Function>(CB->getCalledOperand()->stripPointerCasts());
        if (!cf || !acc.count(cf)) ok = false;
      }
    }
    // ... possibly under one test of its own (`if (list->tail == was) list->tail = now;`)
    if (!ok || stores != 1 || n > 24 || F.size() > 3 || hasBackEdge(F)) continue;
    acc.insert(&F);
    if (getenv("IRDUMP_VERBOSE")) errs() << "setter: " << F.getName() << "\n";
  }
  for (auto *F : acc) { F->addFnAttr(Attribute::AlwaysInline); if (getenv("IRDUMP_VERBOSE")) errs() << "accessor: " << F->getName() << "\n"; }
  return (int)acc.size();
}

// ---- cursor helpers -----------------------------------------------------------------------------
// A "cursor helper" is a private function that works on a caller's *local* object: it has a pointer-to-struct parameter
// and at every call site the argument is the address of a stack object of the caller (or the caller's own such
// parameter).  An iterator/cursor struct with init/next helpers, or a worker that fills two local lists, is the same
// program as the open-coded loop; the helpers are inlined and the stack object split into scalars (SROA) in the
// functions that own it, so that a memory-resident induction variable is an SSA value again.
static bool cursorArgOK(Value *A, const std::map<Function *, std::set<unsigned>> &cand) {
  A = A->stripPointerCasts();
  if (auto *G = dyn_cast<GEPOperator>(A)) if (G->hasAllZeroIndices()) A = G->getPointerOperand()->stripPointerCasts();
  if (auto *AI = dyn_cast<AllocaInst>(A)) return AI->getAllocatedType()->isStructTy() && !AI->isArrayAllocation();
  if (auto *Arg = dyn_cast<Argument>(A)) {
    auto it = cand.find(Arg->getParent());
    return it != cand.end() && it->second.count(Arg->getArgNo());
  }
  return false;
}
static int markCursorHelpers(Module &M) {
  std::map<Function *, std::set<unsigned>> cand;
  std::set<Function *> byValue;
  // the object must be of a type the unit declares for itself (struct xyz_iter in the .c file): a public type
  // (a list, an iterator handed to callers) is part of the API and the rules name its builders
  Ctx DC; DC.M = &M; DC.DL = &M.getDataLayout();
  buildDI(DC);
  auto unitPrivate = [&](Type *T) {
    auto *ST = dyn_cast<StructType>(T);
    if (!ST) return false;
    auto it = DC.st2di.find(ST);
    if (it == DC.st2di.end() || !it->second->getFile()) return false;
    return it->second->getFile()->getFilename().endswith(".c");
  };
  for (auto &F : M) {
    if (F.isDeclaration() || F.isVarArg() || !F.hasLocalLinkage()) continue;
    if (F.hasFnAttribute(Attribute::NoInline) || F.hasFnAttribute(Attribute::OptimizeNone)) continue;
    bool rec = false, addrTaken = false;
    for (auto &BB : F) for (auto &I : BB) if (auto *CB = dyn_cast<CallBase>(&I))
      if (dyn_cast<Function>(CB->getCalledOperand()->stripPointerCasts()) == &F) rec = true;
    for (auto *U : F.users()) { auto *CB = dyn_cast<CallBase>(U); if (!CB || CB->getCalledOperand()->stripPointerCasts() != &F) addrTaken = true; }
    if (rec || addrTaken || F.use_empty()) continue;
    // only helpers written in the unit's own .c file: a static inline of a public header is API, and the other units
    // (and the amalgam) see other callers of it
    if (auto *SP = F.getSubprogram()) { if (SP->getFilename().endswith(".h")) continue; } else continue;
    std::set<unsigned> ps;
    for (auto &A : F.args()) if (auto *PT = dyn_cast<PointerType>(A.getType())) if (unitPrivate(PT->getPointerElementType())) ps.insert(A.getArgNo());
    if (!ps.empty()) cand[&F] = ps;
    // a helper that hands back a small struct by value (a pair of results): the caller takes it apart again at once
    if (F.getReturnType()->isStructTy()) byValue.insert(&F);
  }
  bool changed = true;
  while (changed) {
    changed = false;
    for (auto it = cand.begin(); it != cand.end();) {
      Function *F = it->first;
      std::set<unsigned> keep;
      for (unsigned k : it->second) {
        bool ok = true;
        for (auto *U : F->users()) { auto *CB = cast<CallBase>(U); if (k >= CB->arg_size() || !cursorArgOK(CB->getArgOperand(k), cand)) { ok = false; break; } }
        if (ok) keep.insert(k);
      }
      if (keep.size() != it->second.size()) changed = true;
      if (keep.empty()) it = cand.erase(it); else { it->second = keep; ++it; }
    }
  }
  for (auto *F : byValue) if (!cand.count(F)) {
    F->addFnAttr(Attribute::AlwaysInline);
    F->addFnAttr("cstlsa-cursor");
    if (getenv("IRDUMP_VERBOSE")) errs() << "struct-by-value helper: " << F->getName() << "\n";
    for (auto *U : F->users()) cast<CallBase>(U)->getFunction()->addFnAttr("cstlsa-sroa");
  }
  for (auto &kv : cand) {
    kv.first->addFnAttr(Attribute::AlwaysInline);
    kv.first->addFnAttr("cstlsa-cursor");
    if (getenv("IRDUMP_VERBOSE")) errs() << "cursor helper: " << kv.first->getName() << "\n";
    for (auto *U : kv.first->users()) cast<CallBase>(U)->getFunction()->addFnAttr("cstlsa-sroa");
  }
  // the owner of the stack object may be reached through a chain of helpers
  changed = true;
  while (changed) {
    changed = false;
    for (auto &F : M) if (F.hasFnAttribute("cstlsa-sroa") && F.hasFnAttribute(Attribute::AlwaysInline))
      for (auto *U : F.users()) if (auto *CB = dyn_cast<CallBase>(U)) if (!CB->getFunction()->hasFnAttribute("cstlsa-sroa")) { CB->getFunction()->addFnAttr("cstlsa-sroa"); changed = true; }
  }
  return (int)(cand.size() + byValue.size());
}
static void sroaMarked(Module &M) {
  legacy::FunctionPassManager FPM(&M);
  FPM.add(createSROAPass());
  FPM.add(createEarlyCSEPass(true));
  FPM.doInitialization();
  for (auto &F : M) if (!F.isDeclaration() && F.hasFnAttribute("cstlsa-sroa")) FPM.run(F);
  FPM.doFinalization();
}

int main(int argc, char **argv) {
  if (argc >= 4 && std::string(argv[1]) == "--mark-accessors") {
    LLVMContext Cx; SMDiagnostic Err;
    std::unique_ptr<Module> M = parseIRFile(argv[2], Err, Cx);
    if (!M) { Err.print(argv[0], errs()); return 2; }
    int n = markAccessors(*M);
    int nc = markCursorHelpers(*M);
    std::error_code EC;
    raw_fd_ostream OS(argv[3], EC, sys::fs::OF_None);
    if (EC) { errs() << EC.message() << "\n"; return 2; }
    WriteBitcodeToFile(*M, OS);
    outs() << n << " " << nc << "\n";
    return 0;
  }
  if (argc >= 5 && std::string(argv[1]) == "--mark-static") {
    // irdump --mark-static in.bc out.bc keep1,keep2,...   every internal-linkage, non-recursive function that is
    // not in the keep list becomes alwaysinline (a "focus" view: private helpers without a role are implementation detail)
    LLVMContext Cx; SMDiagnostic Err;
    std::unique_ptr<Module> M = parseIRFile(argv[2], Err, Cx);
    if (!M) { Err.print(argv[0], errs()); return 2; }
    std::set<std::string> keep;
    { std::string k = argv[4], cur; for (char c : k) { if (c == ',') { if (!cur.empty()) keep.insert(cur); cur.clear(); } else cur += c; } if (!cur.empty()) keep.insert(cur); }
    int n = 0;
    for (auto &F : *M) {
      if (F.isDeclaration() || F.isVarArg() || !F.hasLocalLinkage()) continue;
      if (keep.count(F.getName().str())) continue;
      if (F.hasFnAttribute(Attribute::NoInline) || F.hasFnAttribute(Attribute::OptimizeNone)) continue;
      bool rec = false, addrTaken = false;
      for (auto &BB : F) for (auto &I : BB) if (auto *CB = dyn_cast<CallBase>(&I)) {
        Function *cf = dyn_cast<Function>(CB->getCalledOperand()->stripPointerCasts());
        if (cf == &F) rec = true;
      }
      for (auto *U : F.users()) { auto *CB = dyn_cast<CallBase>(U); if (!CB || CB->getCalledOperand()->stripPointerCasts() != &F) addrTaken = true; }
      if (rec || addrTaken) continue;
      F.addFnAttr(Attribute::AlwaysInline); n++;
    }
    std::error_code EC;
    raw_fd_ostream OS(argv[3], EC, sys::fs::OF_None);
    if (EC) { errs() << EC.message() << "\n"; return 2; }
    WriteBitcodeToFile(*M, OS);
    outs() << n << "\n";
    return 0;
  }
  if (argc < 2) { errs() << "usage: irdump <module.bc|.ll> | irdump --mark-accessors in.bc out.bc | irdump --mark-static in.bc out.bc keep,...\n"; return 2; }
  LLVMContext Cx; SMDiagnostic Err;
  std::unique_ptr<Module> M = parseIRFile(argv[1], Err, Cx);
  if (!M) { Err.print(argv[0], errs()); return 2; }
  sroaMarked(*M);
  Ctx C; C.M = M.get(); C.DL = &M->getDataLayout();
  GC = &C;
  buildDI(C);
  raw_ostream &O = outs();
  O << "{\"source\":" << q(argv[1]) << ",\"structs\":{";
  bool f = true;
  for (StructType *st : M->getIdentifiedStructTypes()) {
    if (st->isOpaque() || !st->hasName()) continue;
    if (!f) O << ","; f = false;
    const StructLayout *SL = C.DL->getStructLayout(st);
    auto it = C.st2di.find(st);
    O << q(st->getName()) << ":{\"di\":" << q(it != C.st2di.end() ? diName(it->second) : "") << ",\"size\":" << SL->getSizeInBytes() << ",\"fields\":[";
    for (unsigned i = 0; i < st->getNumElements(); i++) {
      if (i) O << ",";
      std::string fname = "#" + std::to_string(i);
      if (it != C.st2di.end()) if (auto *m = memberAt(it->second, SL->getElementOffsetInBits(i), 0)) fname = m->getName().str();
      O << "{\"name\":" << q(fname) << ",\"off\":" << SL->getElementOffset(i) << ",\"size\":" << C.DL->getTypeAllocSize(st->getElementType(i))
        << ",\"ty\":" << q(tystr(st->getElementType(i))) << "}";
    }
    O << "]}";
  }
  O << "},\"globals\":[";
  f = true;
  for (auto &G : M->globals()) {
    if (!f) O << ","; f = false;
    O << "{\"name\":" << q(G.getName()) << ",\"linkage\":" << q(linkName(G.getLinkage())) << ",\"decl\":" << (G.isDeclaration() ? "true" : "false")
      << ",\"const\":" << (G.isConstant() ? "true" : "false") << ",\"ty\":" << q(tystr(G.getValueType()));
    if (G.hasInitializer()) O << ",\"init\":" << ref(C, nullptr, G.getInitializer());
    O << "}";
  }
  O << "],\"functions\":[";
  f = true;
  for (auto &Fn : *M) {
    if (Fn.isIntrinsic() && Fn.getName().startswith("llvm.dbg")) continue;
    if (!f) O << ",\n"; f = false;
    dumpFunction(C, Fn, O);
  }
  O << "]}\n";
  return 0;
}
