#!/usr/bin/env python3
"""Confirm a sub-agent's behaviour-preserving refactoring and run every check against it.

usage: eval_benign.py <TAG>        (reads /tmp/wt-<TAG>/benign/<n>/{patch.diff,notes.txt})
  1. in the agent's worktree: apply -> `make t` must pass 52/52 -> revert
  2. apply to /repo, run every claimed check (quick), undo
  3. keep patch + notes + meta.json under /verif/benign/<TAG>-<n>/ ; any non-zero exit is a FALSE ALARM to fix
"""
import glob
import json
import os
import re
import shutil
import subprocess
import sys
from concurrent.futures import ThreadPoolExecutor

V = os.path.dirname(os.path.dirname(os.path.abspath(__file__)))


def sh(cmd, cwd=None, timeout=900):
    env = dict(os.environ, VERIF_EVIDENCE_DIR='/tmp/cstlsa-eval-evidence')   # never overwrite the committed evidence
    p = subprocess.run(cmd, shell=True, cwd=cwd, stdout=subprocess.PIPE, stderr=subprocess.STDOUT, timeout=timeout, env=env)
    return p.returncode, p.stdout.decode(errors='replace')


def relevant_properties(patch_text):
    files = set(re.findall(r'^\+\+\+ b/(\S+)', patch_text, re.M))
    out = []
    for l in open(os.path.join(V, 'properties.jsonl')):
        p = json.loads(l)
        if files & set(p['anchors']['files']):
            out.append(p['id'])
    return sorted(files), out


def main():
    tag = sys.argv[1]
    wt = '/tmp/wt-%s' % tag
    props = json.load(open(os.path.join(V, 'MANIFEST.json')))['checks']
    bad_total = 0
    for d in sorted(glob.glob(os.path.join(wt, 'benign', '*'))):
        n = os.path.basename(d)
        patch = os.path.join(d, 'patch.diff')
        if not os.path.exists(patch):
            continue
        meta = {'kind': 'behaviour-preserving refactoring by an independent sub-agent', 'tag': tag}
        sh('git checkout -- src include', cwd=wt)
        rc, out = sh('git apply %s' % patch, cwd=wt)
        if rc:
            print(tag, n, 'patch does not apply', out[-200:])
            continue
        rc, out = sh('make t 2>&1 | tail -3', cwd=wt)
        mt = re.search(r'Checks: (\d+), Failures: (\d+), Errors: (\d+)', out)
        sh('git checkout -- src include', cwd=wt)
        meta['make_t_with_patch'] = mt.group(0) if mt else out[-200:]
        if not (mt and mt.group(1) == '52' and mt.group(2) == '0' and mt.group(3) == '0'):
            print(tag, n, 'suite does not pass with the patch:', meta['make_t_with_patch'])
            continue
        rc, out = sh('git -C /repo status --porcelain')
        if out.strip():
            print('/repo not clean')
            return 1
        rc, out = sh('git -C /repo apply %s' % patch)
        if rc:
            print(tag, n, 'does not apply to /repo')
            continue
        results = {}
        try:
            def one(c):
                p = c['property_id']
                r, o = sh('./check %s --tier quick' % p, cwd=V)
                lines = [l.strip()[:400] for l in o.splitlines() if ' VIOLATION at ' in l or 'ANALYSIS-BROKEN' in l]
                return p, r, lines
            with ThreadPoolExecutor(max_workers=14) as ex:
                for p, r, lines in ex.map(one, props):
                    results[p] = (r, lines)
        finally:
            sh('git -C /repo checkout -- .')
        alarms = {p: v for p, v in results.items() if v[0] != 0}
        text = open(patch).read()
        files, rel = relevant_properties(text)
        meta.update({'files': files, 'relevant_properties': rel, 'alarms': {p: v[1][:4] for p, v in alarms.items()}})
        # exit 2 without any VIOLATION line: the analysis says it cannot see what its rule is written for (a different
        # algorithm) and gives no verdict -- recorded, and expected to stay exactly that
        meta['no_verdict_for'] = sorted(p for p, v in alarms.items() if v[0] == 2 and not any('VIOLATION' in l for l in v[1]))
        try:
            meta['notes'] = open(os.path.join(d, 'notes.txt')).read()[:1500]
        except OSError:
            pass
        dst = os.path.join(V, 'benign', '%s-%s' % (tag, n))
        os.makedirs(dst, exist_ok=True)
        shutil.copy(patch, os.path.join(dst, 'patch.diff'))
        if os.path.exists(os.path.join(d, 'notes.txt')):
            shutil.copy(os.path.join(d, 'notes.txt'), os.path.join(dst, 'notes.txt'))
        json.dump(meta, open(os.path.join(dst, 'meta.json'), 'w'), indent=1)
        if alarms:
            bad_total += 1
            print('%s-%s FALSE ALARM(S):' % (tag, n))
            for p, (r, lines) in sorted(alarms.items()):
                for l in lines[:3]:
                    print('    exit', r, l[:300])
        else:
            print('%s-%s silent on all %d checks (%s)' % (tag, n, len(results), ', '.join(files)))
    return 0


if __name__ == '__main__':
    sys.exit(main())
