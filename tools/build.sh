#!/bin/sh
# Builds the IR serialiser from files on disk only (LLVM-14 headers and shared library are pre-installed).
set -e
cd "$(dirname "$0")"
mkdir -p ../bin
if [ ! -x ../bin/irdump ] || [ irdump.cc -nt ../bin/irdump ]; then
  clang++ $(llvm-config-14 --cxxflags) -O1 -fno-rtti irdump.cc -o ../bin/irdump /usr/lib/llvm-14/lib/libLLVM-14.so
fi
echo "irdump built: $(cd ..; pwd)/bin/irdump"
