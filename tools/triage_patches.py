#!/usr/bin/env python3
"""usage: triage_patches.py <dir-with-<n>/patch.diff> [--all]
Apply each patch to its own scratch copy of /repo and run the properties anchored in the touched files (or all with
--all) in-process; print every non-PASS verdict.  Nothing is written to /repo, /verif/evidence or the patch directories."""
import glob
import json
import os
import re
import shutil
import sys
from concurrent.futures import ProcessPoolExecutor

V = os.path.dirname(os.path.dirname(os.path.abspath(__file__)))
sys.path.insert(0, V)


def relevant(patch_text, everything):
    files = set(re.findall(r'^\+\+\+ b/(\S+)', patch_text, re.M))
    out = []
    claimed = [c['property_id'] for c in json.load(open(os.path.join(V, 'MANIFEST.json')))['checks']]
    for l in open(os.path.join(V, 'properties.jsonl')):
        p = json.loads(l)
        if p['id'] in claimed and (everything or files & set(p['anchors']['files'])):
            out.append(p['id'])
    return out


def one(args):
    patch, pid = args
    from cstlsa import selftest
    d = selftest.scratch_copy('/repo')
    try:
        why = selftest.apply_patch(d, patch)
        if why:
            return patch, pid, ['does not apply: ' + why]
        rep = selftest.analyse(pid, d)
        v = selftest.verdicts(rep)
        out = []
        for kind in ('VIOLATION', 'UNDECIDED'):
            for r, site, detail in v[kind]:
                out.append('%s %s.%s %s :: %s' % (kind, pid, r, site, detail[:260].replace(d, '')))
        for b in rep.broken:
            out.append('BROKEN %s %s' % (pid, b[:260].replace(d, '')))
        for r in rep.rules:
            if r.count() < r.floor:
                out.append('BELOW-FLOOR %s.%s %d < %d' % (pid, r.id, r.count(), r.floor))
        return patch, pid, out
    finally:
        shutil.rmtree(d, ignore_errors=True)


def main():
    base = sys.argv[1]
    everything = '--all' in sys.argv
    jobs = []
    for patch in sorted(glob.glob(os.path.join(base, '*', 'patch.diff'))):
        for pid in relevant(open(patch).read(), everything):
            jobs.append((patch, pid))
    res = {}
    with ProcessPoolExecutor(max_workers=14) as ex:
        for patch, pid, out in ex.map(one, jobs):
            res.setdefault(patch, []).extend(out)
    for patch in sorted(res):
        name = os.path.basename(os.path.dirname(patch))
        if res[patch]:
            print('%s/%s:' % (os.path.basename(base.rstrip('/')), name))
            for l in res[patch]:
                print('    ' + l)
        else:
            print('%s/%s: silent' % (os.path.basename(base.rstrip('/')), name))


if __name__ == '__main__':
    main()
