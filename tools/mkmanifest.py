#!/usr/bin/env python3
"""Regenerates /verif/MANIFEST.json from the table below (claimed checks) and properties.jsonl.
Properties without a rule module are listed under not_applicable with the reason given here."""
import json
import os

V = os.path.dirname(os.path.dirname(os.path.abspath(__file__)))

TB = ("Trusted: clang 14 front end and the mem2reg / inline / sroa / early-cse passes (semantics preserving), the irdump "
      "serialiser, the Makefile's `b` target as the definition of the library, user callbacks not touching library-private state.")

CLAIMS = {
    'C17': dict(
        text="Decides the fail-stop clause for every path of the code as written: every call through a hash-function pointer has its "
             "result range-checked against the very table size passed to it before any use, the out-of-range edge reaches only abort(), "
             "keyed entry points subscript the bucket array only with checked results; and cstl_hash_div is `urem k, m`. "
             "cstl_hash_mul's range (single-precision rounding) is NOT decided.",
        technique="dominating-facts dataflow over LLVM IR (per unit and whole-library inlined)"),
    'C18': dict(
        text="Static decision of the whole property: linkage of every header definition (clang AST), exactly-one external provider for "
             "every declared symbol (IR of the Makefile's unit list), and exhaustive compile/link witnesses over the finite configuration "
             "space in the property's quantifier (each header alone, each ordered pair, all, twice -- each witness also names one function of every header it includes, so a header silently skipped in a combination is noticed; 1 and 2 client units; libcstl.a and "
             "libcstl.so; also a client built without NDEBUG against the release library); (H6) every macro the headers leave defined carries the library prefix (preprocessor). The compiler front end and the linker are the analysers; nothing is executed.",
        technique="AST linkage rule + symbol-provision rule over IR + exhaustive compile/link witnesses"),
    'C20': dict(
        text="Decides, for every path of every public smart-pointer / array entry point (whole-library inlined IR), that the first guard "
             "event on each object argument is the getter's self-address test and never a re-stamp; that every load of a guarded pointer value (whole-library inlined, whatever helper it sits in) is "
             "dominated by the fact self == object with abort on the other edge; that every store of the pointer value is paired with a re-stamp; that guarded-pointer "
             "fields are touched only by that accessor pair; and that no library function bitwise-copies an object containing one. "
             "Conversely the documented (re)initialisers never test the guard of the object they overwrite; the copy helper tests its source before it writes its destination (G6). Behaviour of client code that copies objects is outside the model.",
        technique="path-sensitive typestate dataflow + dominating facts + field-effect rule over LLVM IR; AST for entry points"),
}

CLAIMS['C09'] = dict(
    text="Decides, for every path of the code as written: (V1) every parameter-derived add/mul that reaches an allocation size is "
         "proven non-wrapping from the dominating branch facts in every public vector entry point; (V2) the capacity and base are "
         "committed only in the success region of realloc, which is handed the current block; (V3) at() returns only under i < count "
         "and aborts only under count <= i; (V4) resize changes count / runs xtors only after re-checking sz <= cap, aborting "
         "otherwise, and reserve grows only when sz > cap; (V7) the scratch slot used by sort/reverse is element index cap and the "
         "setter allocates (request+1)*size; (V8) swap exchanges every member of the two vectors, the constructor/destructor description included; (V9) giving up the storage also sets the capacity to 0; (V10) resize steps the count (constructs / destroys) only in the direction of the request, and sets it directly only where no registered constructor / destructor is skipped (path-sensitive with a store/load model of the count); (V11) no element pointer read before a reallocation is used after it; (V12) sort/search/find/reverse hand the raw-array routines base, element COUNT and element size; (V13) a capacity set to 0 goes with an element count of 0 on that path (size <= capacity); (V15) clear leaves the element size and the constructor / destructor description as they were; (V12) the storage address handed to the raw-array routines is never obtained through at() (which aborts on an empty vector); (V3) both cstl_vector_at and cstl_vector_at_const; (V4) path-sensitive: count stores / xtor calls only where the capacity as it stands on that path covers the request; V2/V7 are judged with private helpers inlined (allocation and commit may be split); (V14) every store / effectful call made by the assertion-enabled build is also made by the NDEBUG build (no work inside assert()). Constructor/destructor exactly-once counts and byte preservation beyond realloc's "
         "contract are NOT decided.",
    technique="no-wrap obligations by dominating-facts entailment over inlined LLVM IR; allocator-result discipline; structural agreement rules")
CLAIMS['C10'] = dict(
    text="Decides, for both character widths and every path of the code as written: (T1) every parameter-derived add/mul reaching an "
         "allocation size, the element count or a branch condition (and every `size - pos` in an ordering test) is proven non-wrapping; "
         "(T2) every function that resizes the underlying vector asks for n+1 elements and writes the NUL at element n through the "
         "re-read base pointer on every path, and nothing else changes the count; (T3) positional operations touch the buffer only "
         "under the documented bound (pos <= size for insert, pos < size otherwise) and abort on the other edge; (T4) str() never "
         "returns NULL; (T5) the wide instantiation scales every byte count handed to memcpy/memmove/memset by the character size and uses memset only to fill with 0; (T6) resize's NUL fill of the grown part starts at the old size (never at the old capacity); (T7) swap exchanges every member; (T8) no character pointer read before a reallocation of the same string's storage is used after it; (T9) compare is not bounded by one operand's length alone; (T11) a string object used as a source is measured by its size, never strlen / wcslen; (T12) characters are moved within one buffer with memmove; (T13) no parameter-derived size is compared as a signed value; (T14) substr writes / resizes its destination on every path to its return (an empty result included); (T10) every store / effectful call made by the assertion-enabled build is also made by the NDEBUG build (no work inside assert()). Equality with a reference string and agreement of find/compare with the C library are NOT decided.",
    technique="no-wrap obligations by dominating-facts entailment over inlined LLVM IR; dominance / post-dominance rules; both template instantiations")

CLAIMS['C14'] = dict(
    text="Decides, for every path of the code as written: (A1) whenever an array entry point re-targets the object's buffer pointer it "
         "also writes offset and length, and a pointer that ends NULL ends with off = len = 0 (path-sensitive, with a store/load model "
         "of the guarded pointer slot); (A2) the allocation size cannot wrap; (A3) slice arithmetic cannot wrap and the new off/len are "
         "stored only under beg <= end and a wrap-free off + end <= nm, rejected ranges abort; (A4) at() returns only under i < len, "
         "aborts only under len <= i, and addresses element off + i; (A5) release hands back only an external, uniquely referenced "
         "buffer -- the descriptor's own buffer pointer, never a pointer into it -- and resets the object there, otherwise reports NULL and changes nothing; (A6) array code never frees/allocates "
         "directly and shares exactly when the two objects differ. (A7) alloc stores exactly the buffer address by which release recognises a library-owned buffer; (A9) slice and unslice write the same members of the destination view object; (A10) descriptor members are written only on a descriptor allocated by the same call; (A8) every store / effectful call made by the assertion-enabled build is also made by the NDEBUG build (no work inside assert()). History-level 'released exactly once' rests on C05.",
    technique="path-sensitive typestate with a store/load model + no-wrap obligations + dominating facts over inlined LLVM IR")

CLAIMS['C16'] = dict(
    text="Decides the failure branches no test executes, for every path of the code as written: (F1) every allocator result is used or "
         "committed only under result != NULL and nothing is stored into the receiving object outside that success region; (F2) in "
         "every public entry point that allocates (whole-library inlined), on every path on which an allocation is known to have "
         "failed nothing is stored into the container afterwards (path-sensitive, with a store/load model so a re-read capacity is "
         "the unchanged one); (F3) cstl_map_insert returns -1 on that path; (F5) every block allocated on a path is committed, "
         "returned or freed before the return (half-built bookkeeping block); (F6) hash resize touches nothing of the table before the bucket allocation it depends on; (F7) on a path on which an allocation failed nothing is read or written through its NULL result. Whole-script leak audits and multi-call fault "
         "sequences are NOT explored.",
    technique="dominating facts per allocation site + path-sensitive typestate with store/load model over inlined LLVM IR")

CLAIMS['C04'] = dict(
    text="Decides, over every path and every table state the code distinguishes (pending or not, grow or shrink): (E1) each bucket-array "
         "walk reachable from foreach / foreach_const / clear is bounded by a value that covers both geometries or is preceded by the "
         "forced rehash; (E2) foreach, whose callback may erase, forces the rehash first; (E3) the chain walker never touches a node "
         "after its visit returned; (E4) clear re-establishes every constant that init sets (bucket.cst exempt, reasoned) and frees the "
         "array exactly once; (E5) after a non-zero visit no further visit happens and that value is returned (path-sensitive); (E6) resize empties and stamps exactly the buckets from the current count (read after the forced rehash) up to the requested count; (E7) a bucket walk is left only when its index reaches the bound or a visit returned non-zero; (E4, order) clear resets no table field before the walk; (E8) the caller's visit / clear function is handed the element (node minus offset), never the chain node; (E9) hash.c defines no writable static object (enumerations are reentrant). That "
         "the relocation arithmetic puts every node in exactly one chain is NOT decided.",
    technique="role discovery by effect + pending-aware value classification over branch facts + typestate (stop value) + init/clear sibling agreement")

CLAIMS['C19'] = dict(
    text="Decides structural necessary conditions on every path of the code as written: (S1) the load factor divides by the effective "
         "bucket count; (S2) resize's skip-the-update decision compares the request with the effective (pending-aware) geometry or "
         "forces the rehash first; (S3) insert/find/erase cannot reach the completer nor any other bucket-array walk, and with their private helpers inlined "
         "(so the sweep may be one function with a quota, several specialised ones, or open-coded) every cleaner call runs at most once or under a quota that starts from a constant and is stepped once per cleaning: at most three buckets cleaned per operation, at least one of them under the sweep index; (S4) completion adopts count and function before clearing the pending marker, resize records the requested "
         "count / requested-else-existing-else-default function (each alternative judged under the facts of its own selection edge; the existing function must be read after the forced rehash) and restarts the sweep; (S5) exactly one hash call per lookup when "
         "nothing is pending (path-sensitive). Histories of requests and the sweep's arithmetic are NOT explored.",
    technique="role discovery by effect + call-graph reachability + pending-aware value classification + typestate call counting over LLVM IR")

CLAIMS['C03'] = dict(
    text="Decides the plumbing that makes lookups land in the right chain whatever the rehash stage, on every path of the code as "
         "written: (L1) keyed operations use only the bucket the pending-aware lookup returns; (L2) that lookup hashes under both "
         "geometries and examines both buckets when a rehash is pending and returns the pending-geometry bucket, the current one "
         "otherwise (path-sensitive, inlined); (L3) the cleaner relocates each node by its own key with the pending geometry, detaches "
         "the chain first and marks the bucket clean on every dirty path (path-sensitive: an empty dirty bucket too); (L4) the element count moves exactly with chain insertions "
         "and splices; (L5) resize forces the old rehash, then flips the clean bit, then records the pending geometry on every path (a flip is never left without a pending rehash), adopts a geometry without sweeping only on the very first resize, the added buckets are exactly [count read after the forced rehash, requested count), new buckets "
         "empty and clean; (L6) find calls the caller's visit only under key equality and records a candidate as its result only once the visit accepted it (or none was given); (L7) the bucket-array byte size cannot wrap; (L8) the bucket array is only grown, or cut to the (effective) bucket count after the forced rehash; (L9) swap exchanges every member (an exchange skipped on some path only where the members are known equal); (L10) the sweep index is advanced only past a bucket that was just cleaned or is known to carry the table's clean stamp, and is never set to anything but 0, its own value + 1 or a local copy advanced under the same condition; (L11) a key is never narrowed; (L13) an access through a walk cursor over chain links sits under the cursor's != NULL test; (L12) every store / effectful call made by the assertion-enabled build is also made by the NDEBUG build (no work inside assert()). "
         "That the sweep's arithmetic visits every bucket, chain contents over histories, are NOT decided.",
    technique="role discovery by effect + path-sensitive typestate over inlined LLVM IR + dominance/ordering rules + no-wrap obligations")

CLAIMS['C12'] = dict(
    text="Decides, on every path of the code as written: (D1) every function documented to return NULL can return it; (D2) swap "
         "re-anchors both lists to their own sentinel in the empty and the non-empty case, reading the links after the bitwise swap; "
         "(D3) concat splices only distinct lists and only a source known to be non-empty, adds the size once and re-initialises the source; (D4) foreach binds next for FWD "
         "and prev for REV, never touches a node after its visit, and propagates the first non-zero result (path-sensitive); (D5) "
         "size is adjusted exactly once on every path that changes a link and not at all on a path that changes none; (D6) reverse links its two cursors directly only under the adjacency test; (D7) swap exchanges every member; (D8) push_front / push_back / insert pass the anchor matching the direction in which the link primitive links; (D9) a visiting walk ends at the head sentinel, never at an element; (D10) callbacks get the context supplied with them and their int result is never narrowed; (D11) size - k values (pair counts, loop bounds) are computed only where size >= k is known; (D13) no writable static object; (D14) find never inspects the sought object pointer itself; (D8, delegation) an entry point that delegates to insert-after-element does not pass an untested result of a function documented to return NULL; (D12) every store / effectful call made by the assertion-enabled build is also made by the NDEBUG build (no work inside assert()). The link correctness of reverse / sort / merge and equality with a reference "
         "sequence are NOT decided.",
    technique="documentation-contract rule (AST + IR return values) + dominating facts + typestate over LLVM IR")
CLAIMS['C13'] = dict(
    text="Decides, on every path of the code as written: (N1) pop_front / front / back can return the documented NULL; (N2) every "
         "function that writes a node link also maintains the same list's tail pointer (or re-initialises that list); (N3) swap "
         "re-anchors an empty list's tail to its own head link, reading the count after the swap; (N4) foreach reads the successor "
         "before the visit and propagates the first non-zero result; (N5) count is adjusted exactly once per primitive, concat adds "
         "once and re-initialises the source on every path on which anything of it was handed over (path-sensitive); (N6) the tail is only ever set to the head link, another tail, or a node known to exist; (N7) swap exchanges every member; (N8) push_front / push_back / insert_after pass the anchor after which the primitive links; (N9) callbacks get the context supplied with them and their int result is never narrowed; (N10) the unlink primitive re-points the tail at the predecessor when it removes the last node; concat re-points the destination tail only for a non-empty source; (N12) erase_after / pop_front return the element of the node the unlink primitive handed back (or NULL); (N13) no writable static object; (N8, delegation) push_back/push_front delegating to insert_after do not pass an untested result of front()/back() (NULL for an empty list); (N11) every store / effectful call made by the assertion-enabled build is also made by the NDEBUG build (no work inside assert()). That reverse / sort / merge produce the right order is NOT decided.",
    technique="documentation-contract rule (AST + IR return values) + field-effect rule + dominating facts + typestate over LLVM IR")

CLAIMS['C01'] = dict(
    text="Decides structural necessary conditions on every path of the code as written: (W1) the recursive walker gives each node "
         "exactly LEAF, or PRE [first subtree] MID [second subtree] POST with a subtree walked iff the child is non-NULL, and stops at "
         "and returns the first non-zero result (path-sensitive typestate; the suite never returns non-zero from a visit); (W2) "
         "foreach binds (left,right) for FWD and (right,left) for REV and returns the walker's result, the adapter forwards "
         "element/order/result unchanged; (W3) size is written only as 0 or size+/-1, exactly once per insert/unlink path; (W4) insert "
         "and find agree on comparison argument order and descent direction; (W5) erase (lookup and unlink routines recognised by effect; path-sensitive) unlinks exactly the node the lookup returned, exactly once and only "
         "when non-NULL, and returns it, NULL otherwise; (W6) a non-NULL find result is the node that compared equal, and find writes the documented parent out-parameter on every path on which it is not NULL; (W7) insert links the new node only into a slot just read as NULL; (W8) swap exchanges every member of the tree objects (one block copy or member by member); (W9) comparison / visit calls get the context stored beside the function and their int result is never narrowed; (W4, slot choice) every child slot insert links into or descends through is chosen under the matching sign of a comparison; (W10) red-black erase leaves the node at which its repair stops black on every path, skips the repair only where the removed node is known to be red, and (W11) red-black insert ends by colouring the root black (a red root makes the next insert dereference a missing grandparent: the tree can no longer hold what is inserted); (W13) the tree units define no writable static object; (W14) a pointer-to-const parameter (the probe of find / erase) is never written through; (W12) every store / effectful call made by the assertion-enabled build is also made by the NDEBUG build (no work inside assert()). That relinking in the two-child "
         "erase case and in rotations preserves the multiset and the order is NOT decided (heap-shape reasoning).",
    technique="path-sensitive typestate over the recursive walker + sibling agreement + dominating facts over LLVM IR")
CLAIMS['C15'] = dict(
    text="Decides, on every feasible path of the code as written: (K1) after the callback received an element nothing is read or "
         "written through its node (slist/dlist clear, tree walker after POST/LEAF and after recursing into a child, tree/map/hash "
         "clear adapters; the map node is freed only after the callback, which sees a detached iterator); (K2) every node gets exactly "
         "one hand-off (walker protocol; the tree adapter calls back exactly for POST/LEAF and returns 0 for every order; list loops "
         "hand off once per iteration); (K3) clear re-establishes the initial state on every path and changes nothing else of the tree object (path-sensitive for the tree; trees incl. rbtree/heap/map through their "
         "wrappers, which neither store into the container themselves nor hand it to a function that does (transitively, block copies included); slist via the initialiser's stores, dlist via a drain loop that exits only under size == 0).",
    technique="path-sensitive typestate (hand-off state, walker protocol) + dominance + init/clear sibling agreement over LLVM IR")

CLAIMS['C08'] = dict(
    text="Decides the map's own contract on every path of the code as written (the tree underneath is C01/C02's business): (P1) "
         "insert distinguishes found / new / allocation-failed and in each case performs exactly the documented effects and return "
         "code (path-sensitive typestate over call events); (P2) erase-by-key (lookup recognised by effect; path-sensitive) erases only a found entry, exactly once, returns 0 / -1 accordingly "
         "and reports a detached iterator only through a non-NULL out-parameter, erase-by-iterator unlinks then frees that same node once; (P3) stored key/value pointers are "
         "written only at node creation; (P4) the insert hint is the parent reported by the find on the same key with no mutation in "
         "between; (P5) clear = C15's map instance (the callback runs on every path on which one was supplied); (P6) callbacks get the context supplied with them; (P8) no writable static object, const parameters never written through; (P9) find writes every member of the iterator on every path; (P7) every store / effectful call made by the assertion-enabled build is also made by the NDEBUG build (no work inside assert()).",
    technique="path-sensitive typestate over call events + field-effect rule + dominance over LLVM IR")
CLAIMS['C11'] = dict(
    text="Thin by design: decides only clauses with a type- or shape-level necessary condition: (X1) no size_t count/index is "
         "narrowed in the raw-array routines; (X2) for every selector value - each enumerator and values outside the enumeration - exactly one sort of the caller's array is reached, "
         "a re-dispatch landing on a directly handled selector (path-sensitive, independent of switch / if-chain form); (X3) the sift-down reads computed child elements only under child < count; "
         "(X4) linear find returns the ascending loop's index under cmp == 0, else -1; (X5) the quicksort pivot index is proven below count per alternative, or refuted by folding the index expression over rand()'s range (no verdict otherwise); (X6) every comparison call gets the context supplied with the function and its int result is never narrowed; (X7) every store / effectful call made by the assertion-enabled build is also made by the NDEBUG build (no work inside assert()). (X8) a search / reverse bound stepped down by one is either compared as a signed value or stepped only where known non-zero; (X9) a routine given a swap function (and its private helpers) moves elements only by calling it; (X10) search and find hand the comparison (probe, element) in that order; (X11) the loops of a sort driver are counted loops (no exit on a comparison result). 'Sorted permutation', 'search finds iff "
         "present' and partition bounds are NOT decided.",
    technique="taint + truncation rule, switch coverage, dominating facts over LLVM IR; enumerators from the AST")

CLAIMS['C05'] = dict(
    text="Decides the code's reference accounting, on every path of every public shared/weak pointer function (whole-library inlined, "
         "path-sensitive with a store/load model of the pointer slots): (M1) for every bookkeeping block touched, the net change of "
         "its owner count equals installs minus clears of non-NULL pointers to it in owner objects, and of its reference count in "
         "all objects, allocation contributing (1,1) -- any imbalance is, by counting, an early free or a leak in some history; (M2) "
         "destroy is gated on the hard decrement's own result == 1, the bookkeeping free on the soft decrement's; (M3) unique "
         "pointer reset/alloc/release/swap ordering; (M4) malloc/free only in the four lifetime functions; (M6) shared / weak swap exchanges the two bookkeeping pointers on every path on which they may differ; (M3, swap) an exchange of the clear pair skipped on some path only where the members are known equal; (M5) every store / effectful call made by the assertion-enabled build is also made by the NDEBUG build (no work inside assert()). History-level claims that "
         "also need correct client usage, and the values of get/unique, are NOT decided.",
    technique="path-sensitive typestate with store/load model (effect balance per path) + dominating facts over inlined LLVM IR")
CLAIMS['C06'] = dict(
    text="STRUCTURE ONLY -- no interleaving is explored. Decides preconditions without which no schedule argument can hold: (A1) the "
         "three counters are _Atomic and every access is an atomic instruction (unpublished initialisation excepted); (A2) the "
         "decrements that gate destruction (judged on the inlined entry points, so helper-wrapped ones count) are RMWs with ordering >= acq_rel whose own result is tested, or release-ordered with an acquire fence dominating everything done under the tested result; (A3) the spin flag is "
         "released on every path and nothing is called while it is held; (A4) every RMW on the owner count in the speculative-"
         "increment function lies inside the flag-held region, and that function makes no plain access to the managed pointer of the block it is only probing; (A5) after a function's reference decrement the block is only "
         "freed, never accessed. Linearizability, progress and race freedom over schedules are NOT decided.",
    technique="atomicity/ordering rules over LLVM IR + AST qualifiers + typestate for flag pairing and use-after-release")

NA = {
    'C02': "inductive colour/black-height invariant over an unbounded pointer structure; needs shape/separation reasoning that no static analyser available here provides (DESIGN.md 4/C02)",
    'C07': "heap order and completeness are inductive invariants tying pointer shape to size arithmetic; not expressible as dataflow/typestate/effects (DESIGN.md 4/C07)",
}


def main():
    props = [json.loads(l) for l in open(os.path.join(V, 'properties.jsonl'))]
    checks = []
    na = []
    for p in props:
        pid = p['id']
        have = os.path.exists(os.path.join(V, 'cstlsa', 'rules', pid.lower() + '.py'))
        if pid in CLAIMS and have:
            c = CLAIMS[pid]
            checks.append({
                'property_id': pid,
                'quick_cmd': './check %s --tier quick' % pid,
                'thorough_cmd': './check %s --tier thorough' % pid,
                'evidence_file': 'evidence/%s.json' % pid,
                'replay_cmd_template': './check --explain {path}',
                'engine': 'cstlsa',
                'level_claimed': {'category': 'other', 'text': c['text'], 'design_ref': 'DESIGN.md section 4/' + pid},
                'level_note': TB,
                'technique': c['technique'],
            })
        elif pid in NA:
            na.append({'property_id': pid, 'reason': NA[pid]})
        else:
            na.append({'property_id': pid, 'reason': 'static check designed (DESIGN.md 4/%s) but not built yet; not claimed until it is' % pid})
    man = {
        'version': 1,
        'setup_cmd': 'sh tools/build.sh',
        'hooks': {'guard': 'CSTL_VERIF',
                  'enable': "none: no source hooks are needed; the checks rebuild LLVM IR / AST from /repo's working tree with the Makefile's own flags",
                  'baseline_off_cmd': 'make -C /repo t', 'source_commits': [], 'add_only': True},
        'engines': [{'name': 'cstlsa', 'path': 'cstlsa/', 'serves_properties': [c['property_id'] for c in checks],
                     'kind_free_text': 'custom static analyser: LLVM-14 IR (per unit and whole-library inlined) serialised by tools/irdump.cc, '
                                       'clang AST facts, Python rules (dominating facts, path-sensitive typestate, effects, sibling agreement), compile/link witnesses'}],
        'checks': checks,
        'not_applicable': na,
        'notes': 'Technique family: static analysis. exit 0 pass / 1 VIOLATION / 2 ANALYSIS-BROKEN (never pass, never violation). See DESIGN.md.',
    }
    with open(os.path.join(V, 'MANIFEST.json'), 'w') as fh:
        json.dump(man, fh, indent=1)
    print('claimed:', [c['property_id'] for c in checks])


if __name__ == '__main__':
    main()
