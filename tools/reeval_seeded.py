#!/usr/bin/env python3
"""Re-run every claimed check against every kept seeded change and refresh meta.json (caught_by / refused_by).

usage: reeval_seeded.py [<dir-name-prefix> ...]
Each patch is applied to /repo (git apply), all quick checks run, and the patch is undone (git checkout -- .)
straight afterwards; /repo must be clean to start with.  Prints one line per change and a summary table.
"""
import glob
import json
import os
import subprocess
import sys
from concurrent.futures import ThreadPoolExecutor

V = os.path.dirname(os.path.dirname(os.path.abspath(__file__)))


def sh(cmd, cwd=None, timeout=1800):
    env = dict(os.environ, VERIF_EVIDENCE_DIR='/tmp/cstlsa-eval-evidence')   # never overwrite the committed evidence
    p = subprocess.run(cmd, shell=True, cwd=cwd, stdout=subprocess.PIPE, stderr=subprocess.STDOUT, timeout=timeout, env=env)
    return p.returncode, p.stdout.decode(errors='replace')


def main():
    want = sys.argv[1:]
    props = [c['property_id'] for c in json.load(open(os.path.join(V, 'MANIFEST.json')))['checks']]
    rc, out = sh('git -C /repo status --porcelain')
    if out.strip():
        print('/repo is not clean, refusing')
        return 1
    rows = []
    for d in sorted(glob.glob(os.path.join(V, 'seeded', '*'))):
        name = os.path.basename(d)
        if want and not any(name.startswith(w) for w in want):
            continue
        patch = os.path.join(d, 'patch.diff')
        mp = os.path.join(d, 'meta.json')
        if not os.path.exists(patch) or not os.path.exists(mp):
            continue
        meta = json.load(open(mp))
        rc, out = sh('git -C /repo apply %s' % patch)
        if rc:
            print(name, 'patch does not apply to /repo:', out[-200:])
            continue
        results = {}
        try:
            def one(p):
                r, o = sh('./check %s --tier quick' % p, cwd=V)
                viol = [l.strip()[:300] for l in o.splitlines() if ' VIOLATION at ' in l]
                brk = [l[:300] for l in o.splitlines() if 'ANALYSIS-BROKEN' in l]
                return p, r, viol, brk
            with ThreadPoolExecutor(max_workers=8) as ex:
                for p, r, viol, brk in ex.map(one, props):
                    results[p] = {'exit': r, 'violations': viol[:6], 'broken': brk[:3]}
        finally:
            sh('git -C /repo checkout -- .')
        meta['checks'] = {p: r for p, r in results.items() if r['exit'] != 0}
        meta['caught_by'] = sorted(p for p, r in results.items() if r['exit'] == 1)
        meta['refused_by'] = sorted(p for p, r in results.items() if r['exit'] == 2)
        meta['own_property_exit'] = results.get(meta.get('property'), {}).get('exit')
        json.dump(meta, open(mp, 'w'), indent=1)
        rules = sorted({v.split(' VIOLATION')[0].strip() for p in meta['caught_by'] for v in results[p]['violations']})
        rows.append((name, meta['caught_by'], meta['refused_by'], rules))
        print('%-10s caught_by=%s refused_by=%s rules=%s' % (name, meta['caught_by'], meta['refused_by'], rules), flush=True)
    n = len(rows)
    c = sum(1 for r in rows if r[1])
    f = sum(1 for r in rows if not r[1] and r[2])
    print('%d change(s): %d caught (exit 1), %d only refused (exit 2), %d missed' % (n, c, f, n - c - f))
    return 0


if __name__ == '__main__':
    sys.exit(main())
