#!/usr/bin/env python3
"""Confirm a sub-agent's seeded change and run the checks against it.

usage: eval_seeded.py <PID> <n> [--keep-as <name>]
  reads /tmp/wt-<PID>/seeded/<n>/{patch.diff,demo.c,run.sh,notes.txt}
  1. in the agent's worktree: apply -> `make t` must pass 52 -> run.sh must FAIL; revert -> run.sh must PASS
  2. apply the patch to /repo, run every claimed check (quick), undo (git checkout -- .)
  3. store patch/demo/run.sh/notes + meta.json under /verif/seeded/<PID>-<n>/
"""
import json
import os
import re
import shutil
import subprocess
import sys

V = os.path.dirname(os.path.dirname(os.path.abspath(__file__)))


def sh(cmd, cwd=None, timeout=900):
    env = dict(os.environ, VERIF_EVIDENCE_DIR='/tmp/cstlsa-eval-evidence')   # never overwrite the committed evidence
    p = subprocess.run(cmd, shell=True, cwd=cwd, stdout=subprocess.PIPE, stderr=subprocess.STDOUT, timeout=timeout, env=env)
    return p.returncode, p.stdout.decode(errors='replace')


def main():
    tag, n = sys.argv[1], sys.argv[2]
    pid = tag[:3]                      # worktree tags may carry a round suffix (C03b)
    wt = '/tmp/wt-%s' % tag
    sd = '%s/seeded/%s' % (wt, n)
    patch = os.path.join(sd, 'patch.diff')
    meta = {'property': pid, 'source': 'independent sub-agent given only the property text and a scratch worktree', 'ran': []}
    rc, out = sh('git checkout -- src include && git apply %s' % patch, cwd=wt)
    if rc:
        print('patch does not apply:', out[-500:])
        return 1
    rc, out = sh('make t 2>&1 | tail -3', cwd=wt)
    mt = re.search(r'Checks: (\d+), Failures: (\d+), Errors: (\d+)', out)
    meta['make_t_with_patch'] = mt.group(0) if mt else out[-200:]
    rc1, out1 = sh('sh %s/run.sh' % sd, cwd=wt)
    meta['demo_with_patch'] = {'exit': rc1, 'tail': out1[-400:]}
    sh('git checkout -- src include', cwd=wt)
    rc2, out2 = sh('sh %s/run.sh' % sd, cwd=wt)
    meta['demo_without_patch'] = {'exit': rc2, 'tail': out2[-200:]}
    ok = bool(mt) and mt.group(1) == '52' and mt.group(2) == '0' and mt.group(3) == '0' and rc1 != 0 and rc2 == 0
    meta['confirmed'] = ok
    print('confirmed' if ok else 'NOT CONFIRMED', meta['make_t_with_patch'], 'demo with patch exit', rc1, 'without', rc2)
    # run the checks against /repo with the patch
    rc, out = sh('git -C /repo status --porcelain')
    if out.strip():
        print('/repo is not clean, refusing')
        return 1
    rc, out = sh('git -C /repo apply %s' % patch)
    if rc:
        print('patch does not apply to /repo:', out[-300:])
        return 1
    results = {}
    try:
        from concurrent.futures import ThreadPoolExecutor
        sys.path.insert(0, V)
        props = json.load(open(os.path.join(V, 'MANIFEST.json')))['checks']
        def one(c):
            p = c['property_id']
            # evidence files are rewritten by the run: do it in a way that does not disturb committed evidence
            r, o = sh('./check %s --tier quick' % p, cwd=V)
            viol = [l for l in o.splitlines() if ' VIOLATION at ' in l]
            brk = [l for l in o.splitlines() if 'ANALYSIS-BROKEN' in l]
            return p, r, viol, brk
        with ThreadPoolExecutor(max_workers=14) as ex:
            for p, r, viol, brk in ex.map(one, props):
                results[p] = {'exit': r, 'violations': [v.strip()[:300] for v in viol][:6], 'broken': [b[:300] for b in brk][:3]}
    finally:
        sh('git -C /repo checkout -- .')
    meta['checks'] = {p: r for p, r in results.items() if r['exit'] != 0}
    meta['caught_by'] = sorted(p for p, r in results.items() if r['exit'] == 1)
    meta['refused_by'] = sorted(p for p, r in results.items() if r['exit'] == 2)
    meta['own_property_exit'] = results.get(pid, {}).get('exit')
    print('caught by (exit 1):', meta['caught_by'], ' refused (exit 2):', meta['refused_by'])
    for p in meta['caught_by'] + meta['refused_by']:
        for v in (results[p]['violations'] + results[p]['broken'])[:3]:
            print('   ', p, v[:260])
    if ok:
        dst = os.path.join(V, 'seeded', '%s-%s' % (tag, n))
        os.makedirs(dst, exist_ok=True)
        for fn in ('patch.diff', 'demo.c', 'run.sh', 'notes.txt'):
            if os.path.exists(os.path.join(sd, fn)):
                shutil.copy(os.path.join(sd, fn), os.path.join(dst, fn))
        try:
            meta['needs'] = open(os.path.join(sd, 'notes.txt')).read()[:1200]
        except OSError:
            pass
        with open(os.path.join(dst, 'meta.json'), 'w') as fh:
            json.dump(meta, fh, indent=1)
    # restore evidence for the unchanged tree
    return 0


if __name__ == '__main__':
    sys.exit(main())
