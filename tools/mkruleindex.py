#!/usr/bin/env python3
"""Regenerate the last section of DESIGN.md (the rule index) from the evidence files of the last run."""
import glob
import json
import os
import re

V = os.path.dirname(os.path.dirname(os.path.abspath(__file__)))
HEAD = '### 10.18 Rule index (as of the last commit; generated from the evidence files by tools/mkruleindex.py)'


def find_rules(x):
    if isinstance(x, dict):
        r = x.get('rules')
        if isinstance(r, list) and r and isinstance(r[0], dict) and 'id' in r[0]:
            return r
        for v in x.values():
            got = find_rules(v)
            if got:
                return got
    elif isinstance(x, list):
        for v in x:
            got = find_rules(v)
            if got:
                return got
    return None


def main():
    out = [HEAD, '',
           'Every rule below is evaluated on each run of its property\'s check; the instance count is the number of sites / functions /',
           'witnesses it judged on the unchanged tree (a rule matching fewer than its floor makes the check exit 2).', '']
    for f in sorted(glob.glob(os.path.join(V, 'evidence', 'C*.json'))):
        d = json.load(open(f))
        out += ['**%s**' % d.get('property_id'), '']
        for r in find_rules(d) or []:
            out.append('* `%s` (%s instance(s), floor %s) - %s' % (r.get('id'), r.get('instances'), r.get('floor'), r.get('text')))
        out.append('')
    p = os.path.join(V, 'DESIGN.md')
    s = open(p).read()
    m = re.search(r'(?m)^### 10\.1[0-9] Rule index.*$', s)
    s = s[:m.start()] if m else s.rstrip('\n') + '\n\n'
    open(p, 'w').write(s + '\n'.join(out) + '\n')


if __name__ == '__main__':
    main()
