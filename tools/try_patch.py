#!/usr/bin/env python3
"""usage: try_patch.py <patch.diff> <PID> [<PID> ...]   apply to a scratch copy of /repo and print what the checks say"""
import os
import shutil
import sys

V = os.path.dirname(os.path.dirname(os.path.abspath(__file__)))
sys.path.insert(0, V)
from cstlsa import selftest  # noqa: E402

patch = sys.argv[1]
d = selftest.scratch_copy('/repo')
try:
    why = selftest.apply_patch(d, patch)
    if why:
        print(why)
        sys.exit(2)
    for pid in sys.argv[2:]:
        rep = selftest.analyse(pid, d)
        v = selftest.verdicts(rep)
        print(pid, 'pass=%d' % v['PASS'], 'broken=%s' % rep.broken[:2])
        for kind in ('VIOLATION', 'UNDECIDED'):
            for r, site, detail in v[kind]:
                print('  ', kind, r, site, '::', detail[:400].replace(d, ''))
finally:
    shutil.rmtree(d, ignore_errors=True)
