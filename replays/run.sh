#!/bin/sh
# Triage only: builds the library units from /repo's working tree with ASan/UBSan
# in a scratch dir and runs one replay program against them. Not part of any check.
# usage: ./run.sh <replay.c> [args...]
set -e
R=${REPO:-/repo}
T=$(mktemp -d /tmp/cstl-replay.XXXXXX)
trap 'rm -rf "$T"' EXIT
src=$1; shift
CF="-std=c99 -D_POSIX_C_SOURCE=199309L -DNDEBUG -g -O0 -fsanitize=address,undefined -fno-omit-frame-pointer -I$R/include"
for u in array bintree common dlist hash heap map memory rbtree slist string vector; do
  clang $CF -c $R/src/$u.c -o $T/$u.o &
done; wait
# hash.h defines two external functions (finding C18.H1); rename them in the replay unit only
clang $CF -Dcstl_hash_size=replay_hash_size -Dcstl_hash_load=replay_hash_load -c "$src" -o $T/replay.o
clang -fsanitize=address,undefined $T/*.o -lm -o $T/replay
ASAN_OPTIONS=${ASAN_OPTIONS:-detect_leaks=0}:allocator_may_return_null=1 $T/replay "$@"
