/* C10.T1: wrapping size arithmetic in the string code */
#include "cstl/string.h"
#include <stdio.h>
#include <stdint.h>
#include <stdlib.h>
int main(int argc, char **argv){
  DECLARE_CSTL_STRING(string, s);
  int c = argc > 1 ? atoi(argv[1]) : 1;
  cstl_string_set_str(&s, "abcdefg");
  if (c == 1) {          /* erase: pos + len wraps, count is NOT truncated to the end */
    cstl_string_erase(&s, 1, SIZE_MAX);
    printf("erase(1, SIZE_MAX): size=%zu str='%s' (expected size=1 'a')\n", cstl_string_size(&s), cstl_string_str(&s));
  } else if (c == 2) {   /* substr: same clamp */
    DECLARE_CSTL_STRING(string, sub);
    cstl_string_substr(&s, 2, SIZE_MAX, &sub);
    printf("substr(2, SIZE_MAX): '%s' (expected 'cdefg')\n", cstl_string_str(&sub));
  } else if (c == 3) {   /* insert growth: size + len wraps to a smaller size, then memmove/fill run wild */
    cstl_string_insert_ch(&s, 0, SIZE_MAX - 3, 'x');
    printf("insert_ch(0, SIZE_MAX-3) returned (expected abort)\n");
  } else if (c == 4) {   /* resize: n + 1 wraps to 0, terminator written at data[SIZE_MAX] */
    cstl_string_resize(&s, SIZE_MAX);
    printf("resize(SIZE_MAX) returned: size=%zu (expected abort)\n", cstl_string_size(&s));
  }
  return 0;
}
