/* C13.N1: pop_front on an empty list is documented to return NULL */
#include "cstl/slist.h"
#include <stdio.h>
struct e { int v; struct cstl_slist_node n; };
int main(void){
  DECLARE_CSTL_SLIST(l, struct e, n);
  void *p;
  printf("pop_front on empty list...\n"); fflush(stdout);
  p = cstl_slist_pop_front(&l);
  printf("returned %p, size=%zu\n", p, cstl_slist_size(&l));
  return 0;
}
