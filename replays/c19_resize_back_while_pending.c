/* C19.S2: a resize request equal to the CURRENT geometry while another one is PENDING is dropped */
#include "cstl/hash.h"
#include <stdio.h>
struct e { int v; struct cstl_hash_node n; };
int main(void){
  struct cstl_hash h; static struct e x[100]; int i;
  cstl_hash_init(&h, offsetof(struct e, n));
  cstl_hash_resize(&h, 16, cstl_hash_div);
  for (i = 0; i < 100; i++) cstl_hash_insert(&h, i, &x[i]);
  cstl_hash_resize(&h, 20, NULL);            /* pending: 16 -> 20 */
  cstl_hash_resize(&h, 16, NULL);            /* request: 16 buckets */
  printf("load after resize(16) = %f (size/16 = %f, size/20 = %f)\n",
         cstl_hash_load(&h), 100.0/16, 100.0/20);
  cstl_hash_rehash(&h);
  printf("bucket count after rehash finished = %zu (requested 16)\n", h.bucket.count);
  cstl_hash_clear(&h, NULL);
  return 0;
}
