#!/bin/sh
# C18.H1: hash.h defines cstl_hash_size / cstl_hash_load with external linkage.
# Triage only. Builds the library from /repo's working tree in a scratch dir.
R=${REPO:-/repo}; T=$(mktemp -d /tmp/cstl-replay.XXXXXX); trap 'rm -rf "$T"' EXIT
CF="-std=c99 -pedantic -Wall -Wextra -D_POSIX_C_SOURCE=199309L -DNDEBUG -O2 -fPIC -I$R/include"
for u in array bintree common dlist hash heap map memory rbtree slist string vector; do gcc $CF -c $R/src/$u.c -o $T/$u.o; done
ar -rc $T/libcstl.a $T/*.o
cat > $T/a.c <<'X'
#include "cstl/hash.h"
struct e { int v; struct cstl_hash_node n; };
int use(void){ struct cstl_hash h; static struct e x; cstl_hash_init(&h, offsetof(struct e, n));
  cstl_hash_resize(&h, 8, NULL); cstl_hash_insert(&h, 1, &x); return (int)cstl_hash_size(&h); }
X
printf '#include "cstl/hash.h"\nint other(void){return 0;}\n' > $T/b.c
printf 'int use(void); int main(void){return use()==1?0:1;}\n' > $T/m.c
gcc $CF -c $T/a.c -o $T/a.o; gcc $CF -c $T/b.c -o $T/b.o; gcc $CF -c $T/m.c -o $T/m.o
echo "-- one client unit + libcstl.a:"; gcc $T/m.o $T/a.o $T/libcstl.a -lm -o $T/p1 2>&1 | grep -c "multiple definition" 
echo "-- two client units including hash.h (no library needed to fail):"; gcc -shared $T/a.o $T/b.o -o $T/p2.so 2>&1 | grep -c "multiple definition"
