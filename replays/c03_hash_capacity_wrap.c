/* C03.L8 (candidate): sizeof(bucket) * count wraps in the capacity setter */
#include "cstl/hash.h"
#include <stdio.h>
#include <stdint.h>
struct e { int v; struct cstl_hash_node n; };
int main(void){
  struct cstl_hash h; static struct e x;
  cstl_hash_init(&h, offsetof(struct e, n));
  cstl_hash_resize(&h, 8, cstl_hash_div);
  cstl_hash_insert(&h, 1, &x);
  printf("resize to SIZE_MAX/16 + 2 buckets (cannot be satisfied; documented: table undisturbed)...\n"); fflush(stdout);
  cstl_hash_resize(&h, SIZE_MAX / 16 + 2, NULL);
  printf("returned; capacity=%zu find(1)=%p\n", h.bucket.capacity, cstl_hash_find(&h, 1, NULL, NULL));
  return 0;
}
