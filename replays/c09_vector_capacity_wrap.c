/* C09.V1: (sz + 1) * elem.size wraps */
#include "cstl/vector.h"
#include <stdio.h>
#include <stdint.h>
int main(int argc, char **argv){
  DECLARE_CSTL_VECTOR(v, int);
  (void)argv;
  if (argc == 1) {
    /* (SIZE_MAX/4 + 1 + 1) * 4 wraps to 4 bytes; realloc succeeds; cap is recorded as SIZE_MAX/4+1 */
    cstl_vector_reserve(&v, SIZE_MAX / 4 + 1);
    printf("after reserve(SIZE_MAX/4+1): capacity=%zu data=%p\n", cstl_vector_capacity(&v), cstl_vector_data(&v));
    cstl_vector_resize(&v, 1000);            /* no reallocation needed: cap is 'large' */
    printf("size=%zu; writing element 999 of a 4-byte block...\n", cstl_vector_size(&v)); fflush(stdout);
    *(int *)cstl_vector_at(&v, 999) = 1;     /* heap-buffer-overflow */
  } else {
    cstl_vector_resize(&v, 8);
    /* sz + 1 == 0: realloc(base, 0) frees base and returns NULL; base is kept -> dangling */
    cstl_vector_reserve(&v, SIZE_MAX);
    printf("after reserve(SIZE_MAX): capacity=%zu; touching element 0...\n", cstl_vector_capacity(&v)); fflush(stdout);
    *(int *)cstl_vector_at(&v, 0) = 1;       /* use-after-free */
  }
  return 0;
}
