/* C04.E1: foreach_const / clear walk only [0, bucket.count) while a grow is pending */
#include "cstl/hash.h"
#include <stdio.h>
struct e { int v; struct cstl_hash_node n; };
static int cnt(const void *e, void *p){ (void)e; ++*(int *)p; return 0; }
static int cleared;
static void clr(void *e, void *p){ (void)e; (void)p; cleared++; }
int main(void){
  struct cstl_hash h; static struct e x[8]; int i, c = 0;
  cstl_hash_init(&h, offsetof(struct e, n));
  cstl_hash_resize(&h, 4, cstl_hash_div);
  for (i = 0; i < 8; i++) cstl_hash_insert(&h, i, &x[i]);
  cstl_hash_resize(&h, 8, cstl_hash_div);           /* grow pending */
  (void)cstl_hash_find(&h, 7, NULL, NULL);          /* relocates keys 3,7 -> buckets 3,7 ; 7 >= 4 */
  cstl_hash_foreach_const(&h, cnt, &c);
  printf("size=%zu foreach_const visited=%d (expected 8)\n", cstl_hash_size(&h), c);
  cstl_hash_clear(&h, clr);
  printf("clear handed over %d elements (expected 8)\n", cleared);
  return 0;
}
