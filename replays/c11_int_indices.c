/* C11.X1: int-typed indices in raw reverse / binary search: counts above INT_MAX */
#include "cstl/array.h"
#include <stdio.h>
#include <stdlib.h>
#include <string.h>
#include <limits.h>
static int cmp_u8(const void *a, const void *b, void *p){ (void)p; return (int)*(const unsigned char*)a - (int)*(const unsigned char*)b; }
int main(void){
  const size_t n = (size_t)INT_MAX + 3;      /* 2^31 + 2 one-byte elements */
  unsigned char *arr = calloc(n, 1), t, probe = 7;
  ssize_t r;
  if (!arr) { printf("no memory\n"); return 2; }
  arr[n - 1] = 7;                            /* sorted: 0,0,...,0,7 */
  r = cstl_raw_array_search(arr, n, 1, &probe, cmp_u8, NULL);
  printf("search for present value 7 -> %zd (expected %zu)\n", r, n - 1);
  cstl_raw_array_reverse(arr, n, 1, cstl_swap, &t);
  printf("after reverse: first=%u last=%u (expected first=7 last=0)\n", arr[0], arr[n-1]);
  free(arr);
  return 0;
}
