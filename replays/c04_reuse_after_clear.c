/* C04.E4: clear does not return the table to its initial state (bucket.hash survives) */
#include "cstl/hash.h"
#include <stdio.h>
struct e { int v; struct cstl_hash_node n; };
int main(void){
  struct cstl_hash h; static struct e x;
  cstl_hash_init(&h, offsetof(struct e, n));
  cstl_hash_resize(&h, 8, NULL);
  cstl_hash_insert(&h, 1, &x);
  cstl_hash_clear(&h, NULL);
  cstl_hash_resize(&h, 8, NULL);                    /* "fresh resize" */
  printf("bucket.count=%zu pending=%d; inserting...\n", h.bucket.count, h.bucket.rh.hash != NULL); fflush(stdout);
  cstl_hash_insert(&h, 1, &x);                      /* hashes with m = 0 -> abort() */
  printf("ok size=%zu\n", cstl_hash_size(&h));
  return 0;
}
