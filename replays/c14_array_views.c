/* C14.A1/A2/A3 and C16.F3 */
#include "cstl/array.h"
#include <stdio.h>
#include <stdint.h>
#include <stdlib.h>
int main(int argc, char **argv){
  DECLARE_CSTL_ARRAY(a);
  int c = argc > 1 ? atoi(argv[1]) : 1;
  if (c == 1) {        /* A1: re-allocating an object that is a slice with non-zero offset keeps the offset */
    cstl_array_alloc(&a, 30, sizeof(int));
    cstl_array_slice(&a, 20, 30, &a);                  /* in place: off = 20, len = 10 */
    cstl_array_alloc(&a, 4, sizeof(int));              /* new 4-element buffer */
    printf("size=%zu data=%p at(0)=%p (expected at(0)==data)\n", cstl_array_size(&a), cstl_array_data(&a), cstl_array_at(&a, 0));
    fflush(stdout);
    *(int *)cstl_array_at(&a, 0) = 1;                  /* element 20 of a 4-element buffer */
  } else if (c == 2) { /* A2: sizeof(desc) + nm*sz wraps */
    cstl_array_alloc(&a, SIZE_MAX / 2 + 1, 2);         /* nm*sz == 0 (mod 2^64): 24-byte block */
    printf("size=%zu (expected 0: allocation cannot be satisfied)\n", cstl_array_size(&a)); fflush(stdout);
    *(char *)cstl_array_at(&a, 1000) = 1;
  } else if (c == 3) { /* A3: off + end wraps in the slice guard */
    DECLARE_CSTL_ARRAY(s);
    cstl_array_alloc(&a, 30, sizeof(int));
    cstl_array_slice(&a, 5, 30, &a);                   /* off = 5 */
    cstl_array_slice(&a, SIZE_MAX - 4, SIZE_MAX - 2, &s); /* far beyond the buffer: must abort */
    printf("slice(SIZE_MAX-4, SIZE_MAX-2) accepted: size=%zu (expected abort)\n", cstl_array_size(&s));
  } else if (c == 4) { /* C16.F3: a failed allocation must leave the object empty */
    cstl_array_alloc(&a, 30, sizeof(int));
    cstl_array_alloc(&a, SIZE_MAX / 8, 4);             /* malloc fails (returns NULL) */
    printf("after failed alloc: size=%zu data=%p (expected 0, NULL)\n", cstl_array_size(&a), cstl_array_data(&a)); fflush(stdout);
    (void)cstl_array_at(&a, 0);                        /* dereferences the NULL descriptor */
    printf("at(0) returned\n");
  }
  return 0;
}
